(** C01-C03, biodivine back-end (model: Adf/Bio.v): [bio_grounded], [bio_complete], [bio_stable],
    [stable_candidates] (the single-formula rewriting) and [bio_stable_rew] are exact and total.

    Method: the biodivine loops issue exactly the same sequence of store operations as the native
    ones (the cofactor list [var_list v] is the list of restrictions [fold_restrict] performs, the
    flag "some entry became constant" is the native counter test), so the model functions are
    EQUAL as computations to their native counterparts; only the Term view ([bio_term]: every
    non-constant handle becomes 2) and the iterators' start vector differ, which the generic
    enumeration lemmas absorb. *)
From Coq Require Import NArith List Bool Lia Arith.
From ADF Require Import Base.Maps Spec.Spec Spec.Theory Bdd.Store Bdd.WF Bdd.Node Bdd.Restrict Bdd.Ops
  Adf.Iter Adf.IterProofs Adf.Native Adf.NoGood Adf.NativeBase Adf.GroundedProofs Adf.CompleteProofs
  Adf.StableProofs Adf.NativeExamples Adf.Bio.
Import ListNotations.
Local Open Scope N_scope.

(* ------------------------------------------------------------------ *)
(** * The Term view *)

Lemma bio_term_0 : bio_term 0 = 0. Proof. reflexivity. Qed.
Lemma bio_term_1 : bio_term 1 = 1. Proof. reflexivity. Qed.
Lemma bio_term_undec h : h <> 0 -> h <> 1 -> bio_term h = 2.
Proof.
  intros H0 H1. unfold bio_term.
  destruct (N.eqb_spec h 1) as [?|_]; [contradiction|].
  destruct (N.eqb_spec h 0) as [?|_]; [contradiction|]. reflexivity.
Qed.

Lemma bio_term_dig h : bio_term h = 0 \/ bio_term h = 1 \/ bio_term h = 2.
Proof.
  destruct (handle_cases h) as [-> | [-> | [H0 H1]]]; auto.
  right; right. apply bio_term_undec; assumption.
Qed.

Lemma info_bio_term h : info (bio_term h) = info h.
Proof.
  destruct (handle_cases h) as [-> | [-> | [H0 H1]]]; try reflexivity.
  rewrite bio_term_undec, (info_undec h) by assumption. reflexivity.
Qed.
Lemma is_tv_bio_term h : is_tv (bio_term h) = is_tv h.
Proof.
  destruct (handle_cases h) as [-> | [-> | [H0 H1]]]; try reflexivity.
  rewrite bio_term_undec, (is_tv_undec h) by assumption. reflexivity.
Qed.
Lemma is_true_bio_term h : is_true (bio_term h) = is_true h.
Proof.
  destruct (handle_cases h) as [-> | [-> | [H0 H1]]]; try reflexivity.
  rewrite bio_term_undec, (is_true_undec h) by assumption. reflexivity.
Qed.

Lemma interp_of_bio_term g : interp_of (map bio_term g) = interp_of g.
Proof.
  unfold interp_of. rewrite map_map. apply map_ext. intros h. apply info_bio_term.
Qed.

Lemma cmp_information_eq t h : cmp_information t h = compare_inf t h.
Proof. unfold cmp_information, compare_inf. rewrite is_tv_bio_term, is_true_bio_term. reflexivity. Qed.

(* ------------------------------------------------------------------ *)
(** * [bio_restrict] by [var_list] / [false_list] is [fold_restrict] *)

Definition var_list_from (k : nat) (l : list N) : list (N * bool) :=
  map (fun p => (N.of_nat (fst p), is_true (snd p)))
      (filter (fun p => is_tv (snd p)) (combine (seq k (length l)) l)).
Definition false_list_from (k : nat) (l : list N) : list (N * bool) :=
  map (fun p => (N.of_nat (fst p), false))
      (filter (fun p => is_tv (snd p) && negb (is_true (snd p))) (combine (seq k (length l)) l)).

Lemma var_list_from_0 l : var_list l = var_list_from 0 l.
Proof. reflexivity. Qed.
Lemma false_list_from_0 l : false_list l = false_list_from 0 l.
Proof. reflexivity. Qed.

Lemma var_list_from_cons k t l :
  var_list_from k (t :: l) =
  if is_tv t then (N.of_nat k, is_true t) :: var_list_from (S k) l else var_list_from (S k) l.
Proof.
  unfold var_list_from. cbn [length seq combine filter snd]. destruct (is_tv t); reflexivity.
Qed.

Lemma false_list_from_cons k t l :
  false_list_from k (t :: l) =
  if is_tv t && negb (is_true t) then (N.of_nat k, false) :: false_list_from (S k) l
  else false_list_from (S k) l.
Proof.
  unfold false_list_from. cbn [length seq combine filter snd].
  destruct (is_tv t && negb (is_true t)); reflexivity.
Qed.

Lemma of_nat_S k : N.of_nat k + 1 = N.of_nat (S k).
Proof. lia. Qed.

Lemma bio_restrict_var_from c : forall l k st h,
  bio_restrict c st h (var_list_from k l) = fold_restrict c false st h l (N.of_nat k).
Proof.
  induction l as [|t l IH]; intros k st h.
  - reflexivity.
  - rewrite var_list_from_cons. cbn [fold_restrict negb orb]. rewrite andb_true_r.
    destruct (is_tv t).
    + cbn [bio_restrict]. destruct (restrict c st h (N.of_nat k) (is_true t)) as [[s1 h']|]; cbn [obind].
      * rewrite IH, of_nat_S. reflexivity.
      * reflexivity.
    + rewrite IH, of_nat_S. reflexivity.
Qed.

Lemma bio_restrict_var_list c st h v :
  bio_restrict c st h (var_list v) = fold_restrict c false st h v 0.
Proof. rewrite var_list_from_0. apply (bio_restrict_var_from c v 0%nat st h). Qed.

Lemma bio_restrict_false_from c : forall l k st h,
  bio_restrict c st h (false_list_from k l) = fold_restrict c true st h l (N.of_nat k).
Proof.
  induction l as [|t l IH]; intros k st h.
  - reflexivity.
  - rewrite false_list_from_cons. cbn [fold_restrict negb orb].
    destruct (is_tv t); cbn [andb].
    + destruct (is_true t); cbn [negb].
      * rewrite IH, of_nat_S. reflexivity.
      * cbn [bio_restrict]. destruct (restrict c st h (N.of_nat k) false) as [[s1 h']|]; cbn [obind].
        -- rewrite IH, of_nat_S. reflexivity.
        -- reflexivity.
    + rewrite IH, of_nat_S. reflexivity.
Qed.

Lemma bio_restrict_false_list c st h v :
  bio_restrict c st h (false_list v) = fold_restrict c true st h v 0.
Proof. rewrite false_list_from_0. apply (bio_restrict_false_from c v 0%nat st h). Qed.

Lemma bio_restrict_all_eq c v : forall l st,
  bio_restrict_all c st l (false_list v) = apply_interp c true st l v.
Proof.
  induction l as [|a l IH]; intros st.
  - reflexivity.
  - cbn [bio_restrict_all apply_interp]. rewrite bio_restrict_false_list.
    destruct (fold_restrict c true st a v 0) as [[s1 a']|]; cbn [obind]; [|reflexivity].
    rewrite IH. reflexivity.
Qed.

(* ------------------------------------------------------------------ *)
(** * the consistency test of [bio_complete] is [all_positions_consistent] *)

Lemma bio_all_consistent_eq c v : forall acs terms st,
  bio_all_consistent c st acs terms (var_list v) = all_positions_consistent c st acs terms v.
Proof.
  induction acs as [|a acs IH]; intros [|t terms] st; try reflexivity.
  cbn [bio_all_consistent all_positions_consistent]. rewrite bio_restrict_var_list.
  destruct (fold_restrict c false st a v 0) as [[s1 a']|]; cbn [obind]; [|reflexivity].
  rewrite cmp_information_eq. destruct (compare_inf t a'); [apply IH|reflexivity].
Qed.

(* ------------------------------------------------------------------ *)
(** * one round, the loop *)

Lemma ground_round_mono c cur : forall l st tv s new tv',
  ground_round c st cur l tv = Some (s, new, tv') -> tv <= tv'.
Proof.
  induction l as [|a l IH]; intros st tv s new tv' X.
  - cbn [ground_round] in X. inversion X; subst. lia.
  - cbn [ground_round] in X. destruct (is_tv a).
    + apply obind_inv in X. destruct X as ([[s1 r'] tv1] & X1 & X). inversion X; subst.
      apply (IH _ _ _ _ _ X1).
    + apply obind_inv in X. destruct X as ([s1 a'] & X1 & X).
      apply obind_inv in X. destruct X as ([[s2 r'] tv1] & X2 & X). inversion X; subst.
      apply IH in X2. destruct (is_tv a'); lia.
Qed.

(** [bio_round] returns the store and vector of [ground_round]; its flag says whether the
    native counter moved *)
Lemma bio_round_eq c cur : forall l st tv,
  bio_round c st (var_list cur) l =
  match ground_round c st cur l tv with
  | Some (s, new, tv') => Some (s, new, tv <? tv')
  | None => None
  end.
Proof.
  induction l as [|a l IH]; intros st tv.
  - cbn [bio_round ground_round]. rewrite N.ltb_irrefl. reflexivity.
  - cbn [bio_round ground_round]. destruct (is_tv a).
    + rewrite (IH st tv). destruct (ground_round c st cur l tv) as [[[s1 r'] tv1]|]; reflexivity.
    + rewrite bio_restrict_var_list.
      destruct (fold_restrict c false st a cur 0) as [[s1 a']|]; cbn [obind]; [|reflexivity].
      rewrite (IH s1 (if is_tv a' then tv + 1 else tv)).
      destruct (ground_round c s1 cur l (if is_tv a' then tv + 1 else tv)) as [[[s2 r'] tv1]|] eqn:G;
        cbn [obind]; [|reflexivity].
      apply ground_round_mono in G. f_equal. f_equal.
      destruct (is_tv a').
      * rewrite orb_true_r. symmetry. apply N.ltb_lt. lia.
      * apply orb_false_r.
Qed.

Lemma bio_grounded_loop_eq c : forall fuel st interp tvals,
  bio_grounded_loop c fuel st interp = grounded_loop c fuel st interp tvals.
Proof.
  induction fuel as [|f IH]; intros st interp tvals; [reflexivity|].
  cbn [bio_grounded_loop grounded_loop]. rewrite (bio_round_eq c interp interp st tvals).
  destruct (ground_round c st interp interp tvals) as [[[s1 new] tv']|] eqn:G; cbn [obind]; [|reflexivity].
  apply ground_round_mono in G.
  destruct (N.ltb_spec tvals tv') as [L|L]; destruct (N.eqb_spec tv' tvals) as [E|E]; try lia.
  - apply IH.
  - reflexivity.
Qed.

(** the biodivine fixpoint loop IS the native one *)
Theorem bio_grounded_internal_eq c st v : bio_grounded_internal c st v = grounded_internal c st v.
Proof. unfold bio_grounded_internal, grounded_internal. apply bio_grounded_loop_eq. Qed.

Lemma forallb_cmp_eq : forall a b,
  forallb (fun p => cmp_information (fst p) (snd p)) (combine a b) = all_compare_inf a b.
Proof.
  induction a as [|x a IH]; intros [|y b]; try reflexivity.
  cbn [combine forallb all_compare_inf fst snd]. rewrite cmp_information_eq, IH. reflexivity.
Qed.

Theorem bio_stable_pred_eq c ac st v : bio_stable_pred c ac st v = stable_pred c ac st v.
Proof.
  unfold bio_stable_pred, stable_pred. rewrite bio_restrict_all_eq.
  destruct (apply_interp c true st ac v) as [[s1 red]|]; cbn [obind]; [|reflexivity].
  rewrite bio_grounded_internal_eq.
  destruct (grounded_internal c s1 red) as [[s2 grd]|]; cbn [obind]; [|reflexivity].
  rewrite forallb_cmp_eq. reflexivity.
Qed.

Lemma filter_st_ext {A} (p q : store -> A -> option (store * bool)) :
  (forall s x, p s x = q s x) -> forall l st, filter_st p st l = filter_st q st l.
Proof.
  intros H. induction l as [|x l IH]; intros st; [reflexivity|].
  cbn [filter_st]. rewrite H. destruct (q st x) as [[s1 b]|]; cbn [obind]; [|reflexivity].
  rewrite IH. reflexivity.
Qed.

(* ------------------------------------------------------------------ *)
(** * C01: [bio_grounded] *)

Theorem bio_grounded_internal_exact c st vec st' g :
  WF c st -> valid st vec -> bio_grounded_internal c st vec = Some (st', g) ->
  WF c st' /\ extends st st' /\ length g = length vec /\ Forall (fun h => h < size st') g /\
  Grounded (abs st vec) (interp_of g) /\
  Forall2 (fun h a => feq (den st' h) (fun x => den st a (override (interp_of g) x))) g vec.
Proof. rewrite bio_grounded_internal_eq. apply grounded_internal_exact. Qed.

Theorem bio_grounded_internal_total c st vec :
  WF c st -> valid st vec -> exists st' g, bio_grounded_internal c st vec = Some (st', g).
Proof. rewrite bio_grounded_internal_eq. apply grounded_internal_total. Qed.

(** C01, biodivine back-end ([g] is a vector of Terms) *)
Theorem bio_grounded_exact c st ac st' g : WF c st -> ac_ok st ac -> bio_grounded c st ac = Some (st', g) ->
  WF c st' /\ extends st st' /\ length g = length ac /\ Grounded (abs st ac) (interp_of g).
Proof.
  intros WFst [V _] X. unfold bio_grounded in X.
  apply obind_inv in X. destruct X as ([s1 g0] & X1 & X). inversion X; subst s1 g. clear X.
  destruct (bio_grounded_internal_exact c st ac st' g0 WFst V X1) as (WF' & E' & Lg & _ & HG & _).
  split; [exact WF'|]. split; [exact E'|]. split; [rewrite map_length; exact Lg|].
  rewrite interp_of_bio_term. exact HG.
Qed.

Lemma bio_grounded_terms c st ac st' g : bio_grounded c st ac = Some (st', g) ->
  Forall (fun t => t = 0 \/ t = 1 \/ t = 2) g.
Proof.
  intros X. unfold bio_grounded in X.
  apply obind_inv in X. destruct X as ([s1 g0] & _ & X). inversion X; subst s1 g.
  apply Forall_forall. intros t Ht. apply in_map_iff in Ht. destruct Ht as (h & <- & _). apply bio_term_dig.
Qed.

Theorem bio_grounded_total c st ac : WF c st -> ac_ok st ac -> exists st' g, bio_grounded c st ac = Some (st', g).
Proof.
  intros WFst [V _]. unfold bio_grounded.
  destruct (bio_grounded_internal_total c st ac WFst V) as (s1 & g & X1). rewrite X1. cbn [obind]. eauto.
Qed.

(** the native back-end returns the same interpretation (as handles; the biodivine one as Terms) *)
Corollary bio_grounded_is_native c st ac :
  bio_grounded c st ac = option_map (fun r => (fst r, map bio_term (snd r))) (grounded c st ac).
Proof.
  unfold bio_grounded, grounded. rewrite bio_grounded_internal_eq.
  destruct (grounded_internal c st ac) as [[s1 g]|]; reflexivity.
Qed.

(* ------------------------------------------------------------------ *)
(** * C02: [bio_complete] *)

(** the enumeration argument of [complete_exact], for an arbitrary start vector [g] that reads
    as the grounded interpretation *)
Lemma complete_enumeration c st ac s1 g st' l :
  WF c st -> ac_ok st ac ->
  WF c s1 -> extends st s1 -> length g = length ac -> Grounded (abs st ac) (interp_of g) ->
  filter_st (fun s v => all_positions_consistent c s ac v v) s1 (it3_collect g) = Some (st', l) ->
  WF c st' /\ extends st st' /\
  NoDup (map interp_of l) /\ (forall v, In v (map interp_of l) <-> Complete (abs st ac) v) /\
  (exists g0, Grounded (abs st ac) g0 /\ hd_error (map interp_of l) = Some g0).
Proof.
  intros WFst Hok WF1 E1 Lg HG X. pose proof Hok as [V _].
  destruct (three_val_iter_exact g) as (_ & ND & Hin & Hhd). cbv zeta in *.
  set (I := fun s => WF c s /\ extends st s).
  set (Q := fun v : list N => length v = length ac).
  set (P := fun v : list N => Complete (abs st ac) (interp_of v)).
  assert (Hp : forall s x s' b, I s -> Q x ->
             all_positions_consistent c s ac x x = Some (s', b) ->
             I s' /\ extends s s' /\ (b = true <-> P x)).
  { intros s x s' b [WFs Es] Qx Xp.
    destruct (apc_complete c st ac s x s' b WFst V WFs Es Qx Xp) as (WF' & E' & Hb).
    split; [split; [exact WF'|eapply extends_trans; eauto]|]. split; [exact E'|exact Hb]. }
  assert (HQ : Forall Q (it3_collect g)).
  { apply Forall_forall. intros w Hw. apply Hin in Hw. unfold Q.
    rewrite (refinement3_length g w Hw). exact Lg. }
  destruct (filter_st_ok I Q P _ Hp (it3_collect g) s1 st' l (conj WF1 E1) HQ X) as ([WF' E0'] & E' & Hf).
  split; [exact WF'|]. split; [exact E0'|]. split; [|split].
  - apply (filtered_map_NoDup P interp_of _ _ Hf).
    apply NoDup_map_on; [exact ND|].
    intros x y Hx Hy. apply Hin in Hx, Hy. apply (refinement3_inj g x y Hx Hy).
  - intros v. rewrite in_map_iff. split.
    + intros (w & <- & Hw). apply (filtered_In P _ _ Hf w) in Hw. apply Hw.
    + intros Cv. pose proof (grounded_below _ _ _ HG Cv) as L.
      destruct (refinement3_lift g v L) as (w & Hw & Ew).
      exists w. split; [exact Ew|]. apply (filtered_In P _ _ Hf w). split.
      * apply Hin. exact Hw.
      * unfold P. rewrite Ew. exact Cv.
  - exists (interp_of g). split; [exact HG|].
    assert (Hh : hd_error l = Some g) by (apply (filtered_hd P _ _ g Hf Hhd); apply HG).
    destruct l as [|x l]; inversion Hh; subst. reflexivity.
Qed.

Lemma complete_enumeration_total c st ac s1 g :
  WF c st -> ac_ok st ac -> WF c s1 -> extends st s1 -> length g = length ac ->
  exists st' l, filter_st (fun s v => all_positions_consistent c s ac v v) s1 (it3_collect g) = Some (st', l).
Proof.
  intros WFst Hok WF1 E1 Lg. pose proof Hok as [V _].
  set (I := fun s => WF c s /\ extends st s).
  set (Q := fun v : list N => length v = length ac).
  apply (filter_st_total I Q).
  - intros s x [WFs Es] _. apply apc_total; [exact WFs|apply (valid_extends st s ac Es V)].
  - intros s x s' b [WFs Es] Qx Xp.
    destruct (apc_complete c st ac s x s' b WFst V WFs Es Qx Xp) as (WF' & E' & _).
    split; [exact WF'|eapply extends_trans; eauto].
  - split; assumption.
  - destruct (three_val_iter_exact g) as (_ & _ & Hin & _). cbv zeta in Hin.
    apply Forall_forall. intros w Hw. apply Hin in Hw. unfold Q.
    rewrite (refinement3_length g w Hw). exact Lg.
Qed.

Lemma bio_complete_unfold c st ac :
  bio_complete c st ac =
  obind (grounded_internal c st ac) (fun r =>
    filter_st (fun s v => all_positions_consistent c s ac v v) (fst r) (it3_collect (map bio_term (snd r)))).
Proof.
  unfold bio_complete. rewrite bio_grounded_internal_eq.
  destruct (grounded_internal c st ac) as [[s1 g]|]; cbn [obind fst snd]; [|reflexivity].
  apply filter_st_ext. intros s x. apply bio_all_consistent_eq.
Qed.

(** C02, biodivine back-end *)
Theorem bio_complete_exact c st ac st' l : WF c st -> ac_ok st ac -> bio_complete c st ac = Some (st', l) ->
  WF c st' /\ extends st st' /\
  NoDup (map interp_of l) /\ (forall v, In v (map interp_of l) <-> Complete (abs st ac) v) /\
  (exists g, Grounded (abs st ac) g /\ hd_error (map interp_of l) = Some g).
Proof.
  intros WFst Hok X. pose proof Hok as [V _]. rewrite bio_complete_unfold in X.
  apply obind_inv in X. destruct X as ([s1 g] & X1 & X). cbn [fst snd] in X.
  destruct (grounded_internal_exact c st ac s1 g WFst V X1) as (WF1 & E1 & Lg & _ & HG & _).
  apply (complete_enumeration c st ac s1 (map bio_term g) st' l WFst Hok WF1 E1).
  - rewrite map_length. exact Lg.
  - rewrite interp_of_bio_term. exact HG.
  - exact X.
Qed.

Theorem bio_complete_total c st ac : WF c st -> ac_ok st ac -> exists st' l, bio_complete c st ac = Some (st', l).
Proof.
  intros WFst Hok. pose proof Hok as [V _]. rewrite bio_complete_unfold.
  destruct (grounded_internal_total c st ac WFst V) as (s1 & g & X1). rewrite X1. cbn [obind fst snd].
  destruct (grounded_internal_exact c st ac s1 g WFst V X1) as (WF1 & E1 & Lg & _).
  apply (complete_enumeration_total c st ac s1 (map bio_term g) WFst Hok WF1 E1).
  rewrite map_length. exact Lg.
Qed.

(* ------------------------------------------------------------------ *)
(** * C03: [bio_stable] *)

Lemma bio_stable_unfold c st ac :
  bio_stable c st ac =
  obind (grounded_internal c st ac) (fun r =>
    filter_st (stable_pred c ac) (fst r) (it2_collect (map bio_term (snd r)))).
Proof.
  unfold bio_stable. rewrite bio_grounded_internal_eq.
  destruct (grounded_internal c st ac) as [[s1 g]|]; cbn [obind fst snd]; [|reflexivity].
  apply filter_st_ext. intros s x. apply bio_stable_pred_eq.
Qed.

(** C03, biodivine back-end *)
Theorem bio_stable_exact c st ac st' l : WF c st -> ac_ok st ac -> bio_stable c st ac = Some (st', l) ->
  WF c st' /\ extends st st' /\ NoDup (map interp_of l) /\
  (forall v, In v (map interp_of l) <-> Stable (abs st ac) v).
Proof.
  intros WFst Hok X. pose proof Hok as [V _]. rewrite bio_stable_unfold in X.
  apply obind_inv in X. destruct X as ([s1 g] & X1 & X). cbn [fst snd] in X.
  destruct (grounded_internal_exact c st ac s1 g WFst V X1) as (WF1 & E1 & Lg & _ & HG & _).
  apply (stable_enumeration c st ac s1 (map bio_term g) (stable_pred c ac) st' l WFst Hok WF1 E1).
  - rewrite map_length. exact Lg.
  - rewrite interp_of_bio_term. exact HG.
  - intros s x s' b WFs Es Lx Tx Xp. apply (stable_pred_rel c st ac s x s' b WFst Hok WFs Es Lx Tx Xp).
  - exact X.
Qed.

Lemma stable_filter_total c st ac s1 (cands : list (list N)) :
  WF c st -> ac_ok st ac -> WF c s1 -> extends st s1 ->
  Forall (fun v => length v = length ac /\ all_tv v) cands ->
  exists st' l, filter_st (stable_pred c ac) s1 cands = Some (st', l).
Proof.
  intros WFst Hok WF1 E1 HQ. pose proof Hok as [V S].
  apply (filter_st_total (fun s => WF c s /\ extends st s)
                         (fun v : list N => length v = length ac /\ all_tv v)).
  - intros s x [WFs Es] _. apply stable_pred_total; [exact WFs|apply (valid_extends st s ac Es V)].
  - intros s x s' b [WFs Es] [Lx Tx] Xp.
    destruct (stable_pred_rel c st ac s x s' b WFst Hok WFs Es Lx Tx Xp) as (WF' & E' & _).
    split; [exact WF'|eapply extends_trans; eauto].
  - split; assumption.
  - exact HQ.
Qed.

Theorem bio_stable_total c st ac : WF c st -> ac_ok st ac -> exists st' l, bio_stable c st ac = Some (st', l).
Proof.
  intros WFst Hok. pose proof Hok as [V _]. rewrite bio_stable_unfold.
  destruct (grounded_internal_total c st ac WFst V) as (s1 & g & X1). rewrite X1. cbn [obind fst snd].
  destruct (grounded_internal_exact c st ac s1 g WFst V X1) as (WF1 & E1 & Lg & _).
  apply (stable_filter_total c st ac s1 _ WFst Hok WF1 E1).
  destruct (two_val_iter_exact (map bio_term g)) as (_ & _ & Hin & _). cbv zeta in Hin.
  apply Forall_forall. intros w Hw. apply Hin in Hw. split.
  - rewrite (completion2_length _ w Hw), map_length. exact Lg.
  - apply (completion2_all_tv _ w Hw).
Qed.

(* ------------------------------------------------------------------ *)
(** * the single-formula rewriting: [stable_repr], [eval_h], [stable_candidates] *)

(** the function of AND_k (ac_k <-> s_(idx+k)) *)
Fixpoint conj_iff (st : store) (acs : list N) (idx : N) (x : asg) : bool :=
  match acs with
  | [] => true
  | a :: r => Bool.eqb (den st a x) (x idx) && conj_iff st r (idx + 1) x
  end.

Lemma conj_iff_extends c st st' : WF c st -> extends st st' ->
  forall acs idx x, valid st acs -> conj_iff st' acs idx x = conj_iff st acs idx x.
Proof.
  intros WFst E. induction acs as [|a acs IH]; intros idx x V; [reflexivity|].
  inversion V as [|? ? Ha Vr]; subst. cbn [conj_iff].
  rewrite (extends_den_stable c st st' a WFst E Ha x), IH by exact Vr. reflexivity.
Qed.

Lemma stable_repr_ok c : forall acs st acc idx st' r,
  WF c st -> acc < size st -> valid st acs -> idx + N.of_nat (length acs) <= VBOT ->
  stable_repr c st acc acs idx = Some (st', r) ->
  WF c st' /\ extends st st' /\ r < size st' /\
  feq (den st' r) (fun x => den st acc x && conj_iff st acs idx x).
Proof.
  induction acs as [|a acs IH]; intros st acc idx st' r WFst Hacc V B X.
  - cbn [stable_repr] in X. inversion X; subst.
    split; [exact WFst|]. split; [apply extends_refl|]. split; [exact Hacc|].
    intros x. cbn [conj_iff]. rewrite andb_true_r. reflexivity.
  - inversion V as [|? ? Ha Vr]; subst. cbn [length] in B. cbn [stable_repr] in X.
    destruct (variable c st idx) as [s1 v] eqn:Xv.
    apply obind_inv in X. destruct X as ([s2 e] & Xe & X).
    apply obind_inv in X. destruct X as ([s3 acc'] & Xa & X).
    assert (Hidx : idx < VBOT) by lia.
    destruct (variable_ok c st idx s1 v WFst Hidx Xv) as (WF1 & E1 & Hv & Dv).
    destruct (biff_ok c s1 a v s2 e WF1 (extends_lt st s1 a E1 Ha) Hv Xe) as (WF2 & E2 & He & De).
    destruct (band_ok c s2 acc e s3 acc' WF2
                (extends_lt s1 s2 acc E2 (extends_lt st s1 acc E1 Hacc)) He Xa) as (WF3 & E3 & Hacc' & Da).
    assert (E03 : extends st s3) by (eapply extends_trans; [exact E1|eapply extends_trans; eauto]).
    destruct (IH s3 acc' (idx + 1) st' r WF3 Hacc' (valid_extends st s3 acs E03 Vr) ltac:(lia) X)
      as (WF' & E' & Hr & D').
    split; [exact WF'|]. split; [eapply extends_trans; eauto|]. split; [exact Hr|].
    intros x. rewrite D'. cbn [conj_iff].
    rewrite (conj_iff_extends c st s3 WFst E03 acs (idx + 1) x Vr).
    rewrite Da, De, Dv.
    rewrite (extends_den_stable c s1 s2 acc WF1 E2 (extends_lt st s1 acc E1 Hacc) x).
    rewrite (extends_den_stable c st s1 acc WFst E1 Hacc x).
    rewrite (extends_den_stable c st s1 a WFst E1 Ha x).
    rewrite andb_assoc. reflexivity.
Qed.

Lemma stable_repr_total c : forall acs st acc idx,
  WF c st -> acc < size st -> valid st acs -> idx + N.of_nat (length acs) <= VBOT ->
  exists st' r, stable_repr c st acc acs idx = Some (st', r).
Proof.
  induction acs as [|a acs IH]; intros st acc idx WFst Hacc V B.
  - cbn [stable_repr]. eauto.
  - inversion V as [|? ? Ha Vr]; subst. cbn [length] in B. cbn [stable_repr].
    destruct (variable c st idx) as [s1 v] eqn:Xv.
    assert (Hidx : idx < VBOT) by lia.
    destruct (variable_ok c st idx s1 v WFst Hidx Xv) as (WF1 & E1 & Hv & Dv).
    destruct (biff_total c s1 a v WF1 (extends_lt st s1 a E1 Ha) Hv) as (s2 & e & Xe).
    rewrite Xe. cbn [obind].
    destruct (biff_ok c s1 a v s2 e WF1 (extends_lt st s1 a E1 Ha) Hv Xe) as (WF2 & E2 & He & De).
    assert (Hacc2 : acc < size s2) by (apply (extends_lt s1 s2 acc E2), (extends_lt st s1 acc E1 Hacc)).
    destruct (band_total c s2 acc e WF2 Hacc2 He) as (s3 & acc' & Xa).
    rewrite Xa. cbn [obind].
    destruct (band_ok c s2 acc e s3 acc' WF2 Hacc2 He Xa) as (WF3 & E3 & Hacc' & Da).
    assert (E03 : extends st s3) by (eapply extends_trans; [exact E1|eapply extends_trans; eauto]).
    apply IH; [exact WF3|exact Hacc'|apply (valid_extends st s3 acs E03 Vr)|lia].
Qed.

(** the assignment a two-valued Term vector stands for *)
Definition asg_v (w : list N) : asg := fun i => is_true (nth (N.to_nat i) w 0).

Lemma eval_f_den st w : forall fuel h, eval_f fuel st h w = den_f fuel st h (asg_v w).
Proof.
  induction fuel as [|f IH]; intros h; [reflexivity|].
  cbn [eval_f den_f]. destruct (h =? 0); [reflexivity|]. destruct (h =? 1); [reflexivity|].
  apply IH.
Qed.

Lemma eval_h_den st h w : eval_h st h w = den st h (asg_v w).
Proof. unfold eval_h, den. apply eval_f_den. Qed.

Lemma asg_v_asg_of w i : asg_v w i = asg_of (interp_of w) i.
Proof.
  unfold asg_v, asg_of. rewrite val_interp_of.
  destruct (lt_dec (N.to_nat i) (length w)) as [L|L].
  - rewrite (nth_indep w 0 2 L). generalize (nth (N.to_nat i) w 2). intros t.
    destruct (handle_cases t) as [-> | [-> | [H0 H1]]]; try reflexivity.
    rewrite is_true_undec, info_undec by assumption. reflexivity.
  - rewrite !nth_overflow by lia. reflexivity.
Qed.

Lemma conj_iff_forall2 st : forall acs w idx x,
  all_tv w -> length w = length acs ->
  (forall k, (k < length w)%nat -> x (idx + N.of_nat k) = is_true (nth k w 0)) ->
  (conj_iff st acs idx x = true <->
   Forall2 (fun a h => info h = if den st a x then T else F) acs w).
Proof.
  induction acs as [|a acs IH]; intros [|h w] idx x TV HL Hx; try discriminate HL.
  - cbn [conj_iff]. split; [constructor|reflexivity].
  - inversion TV as [|? ? Th TVw]; subst. cbn [length] in HL.
    cbn [conj_iff]. rewrite andb_true_iff, eqb_true_iff.
    assert (Hx0 : x idx = is_true h).
    { specialize (Hx 0%nat ltac:(cbn [length]; lia)). cbn [nth] in Hx. rewrite <- Hx. f_equal. lia. }
    rewrite (IH w (idx + 1) x TVw ltac:(lia)).
    2:{ intros k Hk. specialize (Hx (S k) ltac:(cbn [length]; lia)). cbn [nth] in Hx. rewrite <- Hx. f_equal. lia. }
    assert (Hh : den st a x = x idx <-> info h = (if den st a x then T else F)).
    { rewrite Hx0. apply is_tv_true in Th. destruct Th as [-> | ->].
      - rewrite is_true_0, info_0. destruct (den st a x); split; congruence.
      - rewrite is_true_1, info_1. destruct (den st a x); split; congruence. }
    split.
    + intros [H1 H2]. constructor; [apply Hh; exact H1|exact H2].
    + intros H. inversion H; subst. split; [apply Hh; assumption|assumption].
Qed.

(** the rewriting decides "two-valued model" on two-valued Term vectors *)
Lemma conj_iff_model2 st ac w : Forall (supported (length ac)) (abs st ac) ->
  all_tv w -> length w = length ac ->
  (conj_iff st ac 0 (asg_v w) = true <-> Model2 (abs st ac) (interp_of w)).
Proof.
  intros S TV HL.
  rewrite (conj_iff_forall2 st ac w 0 (asg_v w) TV HL).
  2:{ intros k _. unfold asg_v. f_equal. f_equal. lia. }
  rewrite (model2_iff_eval (abs st ac) (interp_of w)).
  - unfold abs, interp_of. rewrite Forall2_map_l.
    assert (G : forall (R : N -> tv -> Prop) l l',
              Forall2 R l (map info l') <-> Forall2 (fun a h => R a (info h)) l l').
    { intros R l. induction l as [|y l IHl]; intros [|z l']; cbn [map]; split; intros H; inversion H; subst;
        constructor; auto; apply IHl; auto. }
    rewrite G.
    assert (Ed : forall a, den st a (asg_v w) = den st a (asg_of (map info w))).
    { intros a. apply den_ext. intros i. apply asg_v_asg_of. }
    split; intros H; (eapply Forall2_impl_Forall_r; [apply Forall_forall; intros ? _; exact Logic.I| |exact H]);
      intros a h _; cbv beta; intros ->; [rewrite Ed|rewrite <- Ed]; reflexivity.
  - rewrite interp_of_length, abs_length. exact HL.
  - apply two_valued_interp_of. exact TV.
  - rewrite abs_length. exact S.
Qed.

Lemma interp_of_repeat2 n : interp_of (repeat 2 n) = repeat U n.
Proof. induction n as [|n IH]; [reflexivity|]. cbn [repeat interp_of map]. f_equal. exact IH. Qed.

(** C03: the satisfying valuations of AND_s (ac_s <-> s) are exactly the two-valued models,
    each once *)
Theorem stable_candidates_exact c st ac st' cands :
  WF c st -> ac_ok st ac -> N.of_nat (length ac) <= VBOT ->
  stable_candidates c st ac = Some (st', cands) ->
  WF c st' /\ extends st st' /\ NoDup cands /\
  Forall (fun v => length v = length ac /\ Forall (fun h => is_tv h = true) v) cands /\
  (forall v, In v (map interp_of cands) <-> Model2 (abs st ac) v).
Proof.
  intros WFst [V S] B X. unfold stable_candidates in X.
  apply obind_inv in X. destruct X as ([s1 sr] & X1 & X).
  remember (it2_collect (repeat 2 (length ac))) as L eqn:EL. injection X as Es Ec. subst s1 cands L.
  destruct (stable_repr_ok c ac st 1 0 st' sr WFst (size_gt_1 c st WFst) V ltac:(lia) X1)
    as (WF' & E' & Hsr & Dsr).
  destruct (two_val_iter_exact (repeat 2 (length ac))) as (_ & ND & Hin & _). cbv zeta in *.
  assert (Hc : forall w, completion2 (repeat 2 (length ac)) w -> length w = length ac /\ all_tv w).
  { intros w Hw. split.
    - rewrite (completion2_length _ w Hw). apply repeat_length.
    - apply (completion2_all_tv _ w Hw). }
  assert (Hev : forall w, completion2 (repeat 2 (length ac)) w ->
            (eval_h st' sr w = true <-> Model2 (abs st ac) (interp_of w))).
  { intros w Hw. destruct (Hc w Hw) as [Lw Tw].
    rewrite eval_h_den, Dsr, den_1. cbn [andb]. apply (conj_iff_model2 st ac w S Tw Lw). }
  split; [exact WF'|]. split; [exact E'|]. split; [apply NoDup_filter; exact ND|]. split.
  - apply Forall_forall. intros w Hw. apply filter_In in Hw. destruct Hw as [Hw _].
    apply Hin in Hw. apply (Hc w Hw).
  - intros v. rewrite in_map_iff. split.
    + intros (w & <- & Hw). apply filter_In in Hw. destruct Hw as [Hw Ew].
      apply Hin in Hw. apply (Hev w Hw). exact Ew.
    + intros M. pose proof M as [Cv TVv].
      assert (Lv : length v = length ac).
      { rewrite <- (abs_length st ac). symmetry. apply (Gamma_length _ _ _ Cv). }
      assert (L : info_le (interp_of (repeat 2 (length ac))) v).
      { rewrite interp_of_repeat2, <- Lv. apply info_le_bot. }
      destruct (completion2_lift _ v L TVv) as (w & Hw & Ew).
      exists w. split; [exact Ew|]. apply filter_In. split; [apply Hin; exact Hw|].
      apply (Hev w Hw). rewrite Ew. exact M.
Qed.

Theorem stable_candidates_total c st ac :
  WF c st -> ac_ok st ac -> N.of_nat (length ac) <= VBOT ->
  exists st' cands, stable_candidates c st ac = Some (st', cands).
Proof.
  intros WFst [V _] B. unfold stable_candidates.
  destruct (stable_repr_total c ac st 1 0 WFst (size_gt_1 c st WFst) V ltac:(lia)) as (s1 & sr & X1).
  rewrite X1. cbn [obind]. eauto.
Qed.

(* ------------------------------------------------------------------ *)
(** * [bio_stable_rew]: the candidates of the rewriting, filtered by the stability test *)

Lemma bio_stable_rew_unfold c st ac :
  bio_stable_rew c st ac =
  obind (stable_candidates c st ac) (fun r => stable_from_candidates c (fst r) ac (snd r)).
Proof.
  unfold bio_stable_rew, stable_from_candidates.
  destruct (stable_candidates c st ac) as [[s1 cands]|]; cbn [obind fst snd]; [|reflexivity].
  apply filter_st_ext. intros s x. apply bio_stable_pred_eq.
Qed.

Lemma ac_ok_extends c st s1 ac : WF c st -> extends st s1 -> ac_ok st ac -> ac_ok s1 ac.
Proof.
  intros WFst E [V S]. split; [apply (valid_extends st s1 ac E V)|].
  apply (supported_adf_eq _ _ _ (abs_extends c st s1 ac WFst E V) S).
Qed.

Theorem bio_stable_rew_exact c st ac st' l :
  WF c st -> ac_ok st ac -> N.of_nat (length ac) <= VBOT ->
  bio_stable_rew c st ac = Some (st', l) ->
  WF c st' /\ extends st st' /\ NoDup l /\ NoDup (map interp_of l) /\
  (forall v, In v (map interp_of l) <-> Stable (abs st ac) v).
Proof.
  intros WFst Hok B X. pose proof Hok as [V S]. rewrite bio_stable_rew_unfold in X.
  apply obind_inv in X. destruct X as ([s1 cands] & X1 & X). cbn [fst snd] in X.
  destruct (stable_candidates_exact c st ac s1 cands WFst Hok B X1) as (WF1 & E1 & ND & HQ & HM).
  pose proof (abs_extends c st s1 ac WFst E1 V) as EQ.
  destruct (stable_from_candidates_filtered c s1 ac cands st' l WF1 (ac_ok_extends c st s1 ac WFst E1 Hok) HQ X)
    as (WF' & E' & Hf).
  assert (NDm : NoDup (map interp_of cands)).
  { apply NoDup_map_on; [exact ND|]. intros x y Hx Hy. rewrite Forall_forall in HQ.
    apply interp_of_inj_tv; [apply (HQ x Hx)|apply (HQ y Hy)]. }
  split; [exact WF'|]. split; [eapply extends_trans; eauto|].
  split; [apply (filtered_NoDup _ _ _ Hf ND)|].
  split; [apply (filtered_map_NoDup _ interp_of _ _ Hf NDm)|].
  intros v. rewrite in_map_iff. split.
  - intros (w & <- & Hw). apply (filtered_In _ _ _ Hf w) in Hw. destruct Hw as [_ Sw].
    apply (Stable_feq _ _ _ (adf_eq_sym _ _ EQ) Sw).
  - intros Sv. pose proof Sv as [Mv _]. apply HM in Mv. apply in_map_iff in Mv.
    destruct Mv as (w & Ew & Hw). exists w. split; [exact Ew|].
    apply (filtered_In _ _ _ Hf w). split; [exact Hw|]. rewrite Ew. apply (Stable_feq _ _ _ EQ Sv).
Qed.

Theorem bio_stable_rew_total c st ac :
  WF c st -> ac_ok st ac -> N.of_nat (length ac) <= VBOT ->
  exists st' l, bio_stable_rew c st ac = Some (st', l).
Proof.
  intros WFst Hok B. rewrite bio_stable_rew_unfold.
  destruct (stable_candidates_total c st ac WFst Hok B) as (s1 & cands & X1). rewrite X1. cbn [obind fst snd].
  destruct (stable_candidates_exact c st ac s1 cands WFst Hok B X1) as (WF1 & E1 & _).
  apply (stable_from_candidates_total c s1 ac cands WF1 (ac_ok_extends c st s1 ac WFst E1 Hok)).
Qed.

(** the three stable enumerations (plain, rewriting, native) return the same set *)
Corollary bio_stable_rew_same_models c st ac s1 l1 s2 l2 :
  WF c st -> ac_ok st ac -> N.of_nat (length ac) <= VBOT ->
  bio_stable c st ac = Some (s1, l1) -> bio_stable_rew c st ac = Some (s2, l2) ->
  forall v, In v (map interp_of l1) <-> In v (map interp_of l2).
Proof.
  intros WFst Hok B X1 X2 v.
  destruct (bio_stable_exact c st ac s1 l1 WFst Hok X1) as (_ & _ & _ & H1).
  destruct (bio_stable_rew_exact c st ac s2 l2 WFst Hok B X2) as (_ & _ & _ & _ & H2).
  rewrite H1, H2. reflexivity.
Qed.

(* ------------------------------------------------------------------ *)
(** * the two back-ends agree (each is exact for the same ADF) *)

Corollary bio_native_grounded c st ac s1 g1 s2 g2 : WF c st -> ac_ok st ac ->
  bio_grounded c st ac = Some (s1, g1) -> grounded c st ac = Some (s2, g2) -> interp_of g1 = interp_of g2.
Proof.
  intros WFst Hok X1 X2.
  destruct (bio_grounded_exact c st ac s1 g1 WFst Hok X1) as (_ & _ & _ & G1).
  destruct (grounded_exact c st ac s2 g2 WFst Hok X2) as (_ & _ & _ & _ & G2 & _).
  apply (Grounded_unique _ _ _ G1 G2).
Qed.

Corollary bio_native_complete c st ac s1 l1 s2 l2 : WF c st -> ac_ok st ac ->
  bio_complete c st ac = Some (s1, l1) -> complete c st ac = Some (s2, l2) ->
  (forall v, In v (map interp_of l1) <-> In v (map interp_of l2)) /\
  hd_error (map interp_of l1) = hd_error (map interp_of l2).
Proof.
  intros WFst Hok X1 X2.
  destruct (bio_complete_exact c st ac s1 l1 WFst Hok X1) as (_ & _ & _ & H1 & g1 & G1 & Hd1).
  destruct (complete_exact c st ac s2 l2 WFst Hok X2) as (_ & _ & _ & H2 & g2 & G2 & Hd2).
  split.
  - intros v. rewrite H1, H2. reflexivity.
  - rewrite Hd1, Hd2, (Grounded_unique _ _ _ G1 G2). reflexivity.
Qed.

Corollary bio_native_stable c st ac s1 l1 s2 l2 : WF c st -> ac_ok st ac ->
  bio_stable c st ac = Some (s1, l1) -> stable c st ac = Some (s2, l2) ->
  forall v, In v (map interp_of l1) <-> In v (map interp_of l2).
Proof.
  intros WFst Hok X1 X2 v.
  destruct (bio_stable_exact c st ac s1 l1 WFst Hok X1) as (_ & _ & _ & H1).
  destruct (stable_exact c st ac s2 l2 WFst Hok X2) as (_ & _ & _ & H2).
  rewrite H1, H2. reflexivity.
Qed.

(* ------------------------------------------------------------------ *)
(** * Examples (the ADFs of Adf/NativeExamples.v) *)

Definition run_bio_grounded c n fs :=
  with_adf c n fs (fun st ac => option_map snd (bio_grounded c st ac)).
Definition run_bio_complete c n fs :=
  with_adf c n fs (fun st ac => option_map snd (bio_complete c st ac)).
Definition run_bio_stable c n fs :=
  with_adf c n fs (fun st ac => option_map snd (bio_stable c st ac)).
Definition run_bio_cands c n fs :=
  with_adf c n fs (fun st ac => option_map snd (stable_candidates c st ac)).
Definition run_bio_stable_rew c n fs :=
  with_adf c n fs (fun st ac => option_map snd (bio_stable_rew c st ac)).

(** a <- not b, b <- not a *)
Example ex1_bio_grounded : run_bio_grounded cfg_default 2 ex1 = Some [2; 2].
Proof. vm_compute. reflexivity. Qed.
Example ex1_bio_complete : run_bio_complete cfg_default 2 ex1 = Some [[2; 2]; [1; 0]; [0; 1]].
Proof. vm_compute. reflexivity. Qed.
Example ex1_bio_stable : run_bio_stable cfg_default 2 ex1 = Some [[0; 1]; [1; 0]].
Proof. vm_compute. reflexivity. Qed.
Example ex1_bio_cands : run_bio_cands cfg_default 2 ex1 = Some [[0; 1]; [1; 0]].
Proof. vm_compute. reflexivity. Qed.
Example ex1_bio_stable_rew : run_bio_stable_rew cfg_default 2 ex1 = Some [[0; 1]; [1; 0]].
Proof. vm_compute. reflexivity. Qed.

(** s0 <- s0 ; s1 <- s0 or not s2 ; s2 <- not s1 ; s3 <- top ; s4 <- s3 and not s0:
    the rewriting has three models, the self-supporting one is filtered out *)
Example ex2_bio_grounded : run_bio_grounded cfg_default 5 ex2 = Some [2; 2; 2; 1; 2].
Proof. vm_compute. reflexivity. Qed.
Example ex2_bio_cands :
  run_bio_cands cfg_default 5 ex2 = Some [[0; 0; 1; 1; 1]; [0; 1; 0; 1; 1]; [1; 1; 0; 1; 0]].
Proof. vm_compute. reflexivity. Qed.
Example ex2_bio_stable : run_bio_stable cfg_default 5 ex2 = Some [[0; 0; 1; 1; 1]; [0; 1; 0; 1; 1]].
Proof. vm_compute. reflexivity. Qed.
Example ex2_bio_stable_rew : run_bio_stable_rew cfg_default 5 ex2 = run_bio_stable cfg_default 5 ex2.
Proof. vm_compute. reflexivity. Qed.
Example ex2_bio_complete :
  option_map (map interp_of) (run_bio_complete cfg_default 5 ex2) = run_complete cfg_default 5 ex2.
Proof. vm_compute. reflexivity. Qed.

(** end to end through [bio_stable_exact]: the computed run determines the stable models of the
    mathematical ADF [exD2] *)
Lemma run_bio_stable_inv c n fs r : run_bio_stable c n fs = Some r ->
  exists st ac st' l, from_parser c n fs = Some (st, ac) /\ bio_stable c st ac = Some (st', l) /\ l = r.
Proof.
  intros H. apply with_adf_inv in H. destruct H as (st & ac & X & H).
  destruct (bio_stable c st ac) as [[st' l]|] eqn:Y; [|discriminate]. cbn [option_map snd] in H. inversion H; subst.
  exists st, ac, st', r. auto.
Qed.

Example ex1_bio_stable_models : forall v, Stable exD2 v <-> (v = [F; T] \/ v = [T; F]).
Proof.
  intros v. destruct (run_bio_stable_inv _ _ _ _ ex1_bio_stable) as (st & ac & st' & l & X & Y & R').
  destruct (from_parser_ok cfg_default 2 ex1 st ac bound2 ex1_atoms X) as (WFst & Hok & _ & EQ).
  rewrite ex1_sem in EQ.
  destruct (bio_stable_exact cfg_default st ac st' l WFst Hok Y) as (_ & _ & _ & Hin).
  rewrite R' in Hin. change (map interp_of [[0; 1]; [1; 0]]) with [[F; T]; [T; F]] in Hin. split.
  - intros S. apply (Stable_feq _ _ v (adf_eq_sym _ _ EQ)) in S. apply Hin in S.
    cbn [In] in S. destruct S as [<-|[<-|[]]]; auto.
  - intros H. apply (Stable_feq _ _ v EQ). apply Hin. cbn [In]. destruct H as [->| ->]; auto.
Qed.

Print Assumptions bio_grounded_internal_eq.
Print Assumptions bio_grounded_exact.
Print Assumptions bio_grounded_total.
Print Assumptions bio_complete_exact.
Print Assumptions bio_complete_total.
Print Assumptions bio_stable_exact.
Print Assumptions bio_stable_total.
Print Assumptions stable_candidates_exact.
Print Assumptions stable_candidates_total.
Print Assumptions bio_stable_rew_exact.
Print Assumptions bio_stable_rew_total.
Print Assumptions bio_native_grounded.
Print Assumptions bio_native_complete.
Print Assumptions bio_native_stable.
