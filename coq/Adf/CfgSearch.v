(** Independence of the cargo features for the two searches (property C12): on the ADF built by the
    same [from_parser] call under two configurations, the counting-guided search and the
    nogood-learning search report the same set of models - for any comparators / admissible
    heuristics, budgets and draw streams on the two sides.  Consequences of the exactness theorems of
    Adf/CountSearchProofs.v and Adf/NgSearchProofs.v (which hold for every configuration) and of
    [from_parser_cfg]. *)
From Coq Require Import NArith List Bool.
From ADF Require Import Spec.Spec Bdd.Store Bdd.WF Adf.Native Adf.NativeBase Adf.NativeExamples Adf.Search Adf.BridgeProofs
  Adf.CfgProofs Adf.CountSearchProofs Adf.NgSearchProofs.
Import ListNotations.
Local Open Scope N_scope.

Section FromParser.
  Variables (c1 c2 : cfg) (n : nat) (fs : list (nat * formula)).
  Hypothesis B : N.of_nat n <= VBOT.
  Hypothesis HA : Forall (fun pf => atoms_lt (N.of_nat n) (snd pf)) fs.
  Variables (st1 : store) (ac1 : list N) (st2 : store) (ac2 : list N).
  Hypothesis X1 : from_parser c1 n fs = Some (st1, ac1).
  Hypothesis X2 : from_parser c2 n fs = Some (st2, ac2).

  Theorem stable_count_cfg_independent heu1 heu2 s1' l1 s2' l2 :
    stable_count c1 heu1 ac1 false st1 = Some (s1', l1) -> stable_count c2 heu2 ac2 false st2 = Some (s2', l2) ->
    NoDup (map interp_of l1) /\ NoDup (map interp_of l2) /\
    forall v, In v (map interp_of l1) <-> In v (map interp_of l2).
  Proof.
    intros H1 H2.
    destruct (from_parser_cfg c1 c2 n fs B HA st1 ac1 st2 ac2 X1 X2) as (W1 & W2 & O1 & O2 & EQ).
    destruct (count_search_exact c1 heu1 ac1 st1 s1' l1 W1 O1 H1) as (_ & _ & N1 & E1).
    destruct (count_search_exact c2 heu2 ac2 st2 s2' l2 W2 O2 H2) as (_ & _ & N2 & E2).
    split; [exact N1|]. split; [exact N2|]. intros v.
    rewrite E1, E2. apply Stable_adf_eq. exact EQ.
  Qed.

  Theorem nogood_search_cfg_independent h1 rf1 h2 rf2 two sx1 sx2 b1 b2 d1 d2 s1' l1 r1 s2' l2 r2 :
    admissible c1 h1 rf1 -> admissible c2 h2 rf2 ->
    nogood_search c1 ac1 h1 rf1 two sx1 b1 st1 d1 = Some (s1', l1, r1) ->
    nogood_search c2 ac2 h2 rf2 two sx2 b2 st2 d2 = Some (s2', l2, r2) ->
    NoDup (map interp_of l1) /\ NoDup (map interp_of l2) /\
    forall v, In v (map interp_of l1) <-> In v (map interp_of l2).
  Proof.
    intros A1 A2 H1 H2.
    destruct (from_parser_cfg c1 c2 n fs B HA st1 ac1 st2 ac2 X1 X2) as (W1 & W2 & O1 & O2 & EQ).
    destruct (ng_exact c1 ac1 h1 rf1 two sx1 b1 st1 d1 s1' l1 r1 A1 W1 O1 H1) as (N1 & E1).
    destruct (ng_exact c2 ac2 h2 rf2 two sx2 b2 st2 d2 s2' l2 r2 A2 W2 O2 H2) as (N2 & E2).
    split; [exact N1|]. split; [exact N2|]. intros v.
    rewrite E1, E2. destruct two; [apply Model2_adf_eq|apply Stable_adf_eq]; exact EQ.
  Qed.
End FromParser.
Print Assumptions stable_count_cfg_independent.
Print Assumptions nogood_search_cfg_independent.
