(** C02, native back-end: [complete] enumerates exactly the complete interpretations,
    without repetition, the grounded one first. *)
From Coq Require Import NArith List Bool Lia Arith.
From ADF Require Import Base.Maps Spec.Spec Spec.Theory Bdd.Store Bdd.WF Bdd.Node Bdd.Restrict Bdd.Ops
  Adf.Iter Adf.IterProofs Adf.Native Adf.NoGood Adf.NativeBase Adf.GroundedProofs.
Import ListNotations.
Local Open Scope N_scope.

(* ------------------------------------------------------------------ *)
(** * [all_positions_consistent] decides "interp_of its = Gamma (interp_of interp)" *)

Lemma cons3_transport c st s1 acs its v :
  WF c st -> extends st s1 -> valid st acs ->
  (Forall2 (fun a it => Cons3 (den s1 a) v (info it)) acs its <->
   Forall2 (fun a it => Cons3 (den st a) v (info it)) acs its).
Proof.
  intros WFst E V. split; intros H.
  - eapply Forall2_impl_Forall; [exact V| |exact H].
    intros a it Ha Hc. cbv beta in *. eapply Cons3_feq; [|exact Hc].
    apply (extends_den_stable c st s1 a WFst E Ha).
  - eapply Forall2_impl_Forall; [exact V| |exact H].
    intros a it Ha Hc. cbv beta in *. eapply Cons3_feq; [|exact Hc].
    apply feq_sym. apply (extends_den_stable c st s1 a WFst E Ha).
Qed.

Lemma apc_ok c interp : forall acs its st st' b,
  WF c st -> valid st acs -> length its = length acs ->
  all_positions_consistent c st acs its interp = Some (st', b) ->
  WF c st' /\ extends st st' /\
  (b = true <-> Forall2 (fun a it => Cons3 (den st a) (interp_of interp) (info it)) acs its).
Proof.
  induction acs as [|a acs IH]; intros [|it its] st st' b WFst V HL X; try discriminate HL.
  - cbn [all_positions_consistent] in X. inversion X; subst.
    split; [exact WFst|]. split; [apply extends_refl|]. split; [constructor|reflexivity].
  - inversion V as [|? ? Ha Vr]; subst. cbn [all_positions_consistent] in X.
    apply obind_inv in X. destruct X as ([s1 a'] & X1 & X).
    destruct (fold_restrict_override c interp st a s1 a' WFst Ha X1) as (WF1 & E1 & Ha' & D1).
    pose proof (cons3_den c st s1 a a' (interp_of interp) WF1 Ha' D1) as C1.
    destruct (compare_inf it a') eqn:Cmp.
    + apply compare_inf_iff in Cmp.
      cbn [length] in HL.
      destruct (IH its s1 st' b WF1 (valid_extends st s1 acs E1 Vr) ltac:(lia) X) as (WF' & E' & Hb).
      split; [exact WF'|]. split; [eapply extends_trans; eauto|].
      rewrite Hb, (cons3_transport c st s1 acs its _ WFst E1 Vr). split.
      * intros H. constructor; [rewrite Cmp; exact C1|exact H].
      * intros H. inversion H; subst; assumption.
    + inversion X; subst s1 b. clear X.
      split; [exact WF1|]. split; [exact E1|]. split; [discriminate|].
      intros H. inversion H as [|? ? ? ? Hc _]; subst. exfalso.
      assert (E : info it = info a') by (eapply Cons3_det; eauto).
      apply compare_inf_iff in E. congruence.
Qed.

Lemma apc_total c interp : forall acs its st,
  WF c st -> valid st acs -> exists st' b, all_positions_consistent c st acs its interp = Some (st', b).
Proof.
  induction acs as [|a acs IH]; intros [|it its] st WFst V; cbn [all_positions_consistent]; eauto.
  inversion V as [|? ? Ha Vr]; subst.
  destruct (fold_restrict_total c false interp st a 0 WFst Ha) as (s1 & a' & X1).
  rewrite X1. cbn [obind].
  destruct (fold_restrict_override c interp st a s1 a' WFst Ha X1) as (WF1 & E1 & Ha' & D1).
  destruct (compare_inf it a'); [|eauto].
  apply IH; [exact WF1|apply (valid_extends st s1 acs E1 Vr)].
Qed.

(** the test used by [complete] and [stable_with_prefilter], relative to an older store *)
Lemma apc_complete c st ac s v s' b :
  WF c st -> valid st ac -> WF c s -> extends st s -> length v = length ac ->
  all_positions_consistent c s ac v v = Some (s', b) ->
  WF c s' /\ extends s s' /\ (b = true <-> Complete (abs st ac) (interp_of v)).
Proof.
  intros WFst V WFs E HL X.
  destruct (apc_ok c v ac v s s' b WFs (valid_extends st s ac E V) HL X) as (WF' & E' & Hb).
  split; [exact WF'|]. split; [exact E'|].
  rewrite Hb, (cons3_transport c st s ac v _ WFst E V). unfold Complete.
  symmetry. apply Gamma_abs.
Qed.

(* ------------------------------------------------------------------ *)
(** * refinements of a vector of handles vs. the information order *)

Lemma refinement3_length g w : refinement3 g w -> length w = length g.
Proof. intros H. symmetry. apply (Forall2_len _ _ _ H). Qed.

Lemma refinement3_info_le g w : refinement3 g w -> info_le (interp_of g) (interp_of w).
Proof.
  unfold refinement3, info_le, interp_of. induction 1 as [|x y g w Hxy _ IH]; cbn [map]; constructor; auto.
  destruct (is_tv x) eqn:Tx.
  - subst y. right. reflexivity.
  - left. apply info_U. exact Tx.
Qed.

(** every interpretation above [interp_of g] is the image of a refinement of [g] *)
Lemma refinement3_lift : forall g v, info_le (interp_of g) v ->
  exists w, refinement3 g w /\ interp_of w = v.
Proof.
  unfold refinement3, info_le, interp_of.
  induction g as [|x g IH]; intros v H; inversion H as [|? y ? v' Hxy Hr]; subst.
  - exists []. split; [constructor|reflexivity].
  - destruct (IH v' Hr) as (w & Hw & Ew).
    exists (term_of y x :: w). cbn [map]. split.
    + constructor; [|exact Hw].
      destruct (handle_cases x) as [-> | [-> | [H0 H1]]].
      * rewrite is_tv_0. rewrite info_0 in Hxy. destruct Hxy as [Hx|<-]; [discriminate|reflexivity].
      * rewrite is_tv_1. rewrite info_1 in Hxy. destruct Hxy as [Hx|<-]; [discriminate|reflexivity].
      * rewrite is_tv_undec by assumption. destruct y; cbn [term_of]; auto.
    + f_equal; [|exact Ew].
      destruct (handle_cases x) as [-> | [-> | [H0 H1]]].
      * rewrite info_0 in Hxy. destruct Hxy as [Hx|<-]; [discriminate|reflexivity].
      * rewrite info_1 in Hxy. destruct Hxy as [Hx|<-]; [discriminate|reflexivity].
      * destruct y; cbn [term_of]; auto. apply info_undec; assumption.
Qed.

Lemma refinement3_elem_inj x y y' :
  (if is_tv x then y = x else y = 0 \/ y = 1 \/ y = x) ->
  (if is_tv x then y' = x else y' = 0 \/ y' = 1 \/ y' = x) ->
  info y = info y' -> y = y'.
Proof.
  destruct (is_tv x) eqn:Tx.
  - intros -> ->. reflexivity.
  - apply is_tv_false in Tx. destruct Tx as [H0 H1].
    intros [-> | [-> | ->]] [-> | [-> | ->]]; rewrite ?info_0, ?info_1, ?(info_undec x) by assumption;
      intros E; try reflexivity; discriminate E.
Qed.

Lemma refinement3_inj g : forall w w', refinement3 g w -> refinement3 g w' ->
  interp_of w = interp_of w' -> w = w'.
Proof.
  unfold refinement3, interp_of. intros w w' H. revert w'.
  induction H as [|x y g w Hxy _ IH]; intros w' H' E; inversion H' as [|? y' ? w'' Hxy' Hr]; subst.
  - reflexivity.
  - cbn [map] in E. inversion E as [[E1 E2]]. f_equal.
    + eapply refinement3_elem_inj; eauto.
    + apply IH; assumption.
Qed.

(* ------------------------------------------------------------------ *)
(** * [complete] *)

(** C02, native back-end *)
Theorem complete_exact c st ac st' l : WF c st -> ac_ok st ac -> complete c st ac = Some (st', l) ->
  WF c st' /\ extends st st' /\
  NoDup (map interp_of l) /\ (forall v, In v (map interp_of l) <-> Complete (abs st ac) v) /\
  (exists g, Grounded (abs st ac) g /\ hd_error (map interp_of l) = Some g).
Proof.
  intros WFst Hok X. pose proof Hok as [V _]. unfold complete in X.
  apply obind_inv in X. destruct X as ([s1 g] & X1 & X).
  destruct (grounded_exact c st ac s1 g WFst Hok X1) as (WF1 & E1 & Lg & Vg & HG & _).
  destruct (three_val_iter_exact g) as (_ & ND & Hin & Hhd). cbv zeta in *.
  set (I := fun s => WF c s /\ extends st s).
  set (Q := fun v : list N => length v = length ac).
  set (P := fun v : list N => Complete (abs st ac) (interp_of v)).
  assert (Hp : forall s x s' b, I s -> Q x ->
             all_positions_consistent c s ac x x = Some (s', b) ->
             I s' /\ extends s s' /\ (b = true <-> P x)).
  { intros s x s' b [WFs Es] Qx Xp.
    destruct (apc_complete c st ac s x s' b WFst V WFs Es Qx Xp) as (WF' & E' & Hb).
    split; [split; [exact WF'|eapply extends_trans; eauto]|]. split; [exact E'|exact Hb]. }
  assert (HQ : Forall Q (it3_collect g)).
  { apply Forall_forall. intros w Hw. apply Hin in Hw. unfold Q.
    rewrite (refinement3_length g w Hw). exact Lg. }
  destruct (filter_st_ok I Q P _ Hp (it3_collect g) s1 st' l (conj WF1 E1) HQ X) as ([WF' E0'] & E' & Hf).
  split; [exact WF'|]. split; [exact E0'|]. split; [|split].
  - apply (filtered_map_NoDup P interp_of _ _ Hf).
    apply NoDup_map_on; [exact ND|].
    intros x y Hx Hy. apply Hin in Hx, Hy. apply (refinement3_inj g x y Hx Hy).
  - intros v. rewrite in_map_iff. split.
    + intros (w & <- & Hw). apply (filtered_In P _ _ Hf w) in Hw. apply Hw.
    + intros Cv. pose proof (grounded_below _ _ _ HG Cv) as L.
      destruct (refinement3_lift g v L) as (w & Hw & Ew).
      exists w. split; [exact Ew|]. apply (filtered_In P _ _ Hf w). split.
      * apply Hin. exact Hw.
      * unfold P. rewrite Ew. exact Cv.
  - exists (interp_of g). split; [exact HG|].
    assert (Hh : hd_error l = Some g) by (apply (filtered_hd P _ _ g Hf Hhd); apply HG).
    destruct l as [|x l]; inversion Hh; subst. reflexivity.
Qed.

Theorem complete_total c st ac : WF c st -> ac_ok st ac -> exists st' l, complete c st ac = Some (st', l).
Proof.
  intros WFst Hok. pose proof Hok as [V _]. unfold complete.
  destruct (grounded_total c st ac WFst Hok) as (s1 & g & X1). rewrite X1. cbn [obind].
  destruct (grounded_exact c st ac s1 g WFst Hok X1) as (WF1 & E1 & Lg & Vg & HG & _).
  set (I := fun s => WF c s /\ extends st s).
  set (Q := fun v : list N => length v = length ac).
  apply (filter_st_total I Q).
  - intros s x [WFs Es] _. apply apc_total; [exact WFs|apply (valid_extends st s ac Es V)].
  - intros s x s' b [WFs Es] Qx Xp.
    destruct (apc_complete c st ac s x s' b WFst V WFs Es Qx Xp) as (WF' & E' & _).
    split; [exact WF'|eapply extends_trans; eauto].
  - split; assumption.
  - destruct (three_val_iter_exact g) as (_ & _ & Hin & _). cbv zeta in Hin.
    apply Forall_forall. intros w Hw. apply Hin in Hw. unfold Q.
    rewrite (refinement3_length g w Hw). exact Lg.
Qed.

Print Assumptions complete_exact.
Print Assumptions complete_total.
