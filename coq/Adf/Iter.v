(** Executable model of the two odometers of lib/src/datatypes/adf.rs:
    TwoValuedInterpretationsIterator and ThreeValuedInterpretationsIterator.
    Terms are handles (N): 0 = BOT, 1 = TOP, anything else is "undecided". *)
From Coq Require Import NArith List Bool.
From ADF Require Import Bdd.Store.
Import ListNotations.
Local Open Scope N_scope.

Fixpoint set_nth {A} (l : list A) (i : nat) (x : A) : list A :=
  match l, i with
  | [], _ => []
  | _ :: r, O => x :: r
  | y :: r, S j => y :: set_nth r j x
  end.

(** positions of the undecided entries, last first (".rev()") *)
Definition undec_indexes (term : list N) : list nat :=
  rev (filter (fun i => negb (is_tv (nth i term 0))) (seq 0 (length term))).

(* ---------- two-valued ---------- *)
Record it2 := mkIt2 { i2_idx : list nat; i2_cur : option (list N); i2_started : bool }.

Definition it2_new (term : list N) : it2 :=
  mkIt2 (undec_indexes term)
        (Some (map (fun v => if negb (is_tv v) then 0 else v) term))
        false.

(** first (position-in-indexes, index) whose current value is BOT *)
Fixpoint find_bot (cur : list N) (idx : list nat) (pos : nat) : option (nat * nat) :=
  match idx with
  | [] => None
  | at_ :: r => if nth at_ cur 2 =? 0 then Some (pos, at_) else find_bot cur r (S pos)
  end.

Definition it2_next (s : it2) : it2 * option (list N) :=
  if i2_started s then
    match i2_cur s with
    | Some cur =>
      match find_bot cur (i2_idx s) 0 with
      | Some (pos, at_) =>
        let r1 := set_nth cur at_ 1 in
        let r2 := fold_left (fun r a => set_nth r a 0) (firstn pos (i2_idx s)) r1 in
        (mkIt2 (i2_idx s) (Some r2) true, Some r2)
      | None => (mkIt2 (i2_idx s) None true, None)
      end
    | None => (s, None)
    end
  else (mkIt2 (i2_idx s) (i2_cur s) true, i2_cur s).

Fixpoint it2_collect_f (fuel : nat) (s : it2) : list (list N) :=
  match fuel with
  | O => []
  | S f => match it2_next s with
           | (s', Some v) => v :: it2_collect_f f s'
           | (_, None) => []
           end
  end.
Definition it2_collect (term : list N) : list (list N) :=
  it2_collect_f (S (Nat.pow 2 (length (undec_indexes term)))) (it2_new term).

(* ---------- three-valued ---------- *)
Record it3 := mkIt3 { i3_orig : list N; i3_idx : list nat; i3_cur : option (list N); i3_started : bool }.

Definition it3_new (term : list N) : it3 :=
  mkIt3 term (undec_indexes term) (Some (map (fun _ => 2) (undec_indexes term))) false.

(** decrement_vec: first non-zero digit is decremented, the digits before it are reset to 2 *)
Fixpoint decrement_vec (v : list N) : option (list N) :=
  match v with
  | [] => None
  | d :: r =>
    if 0 <? d then Some ((d - 1) :: r)
    else match decrement_vec r with
         | Some r' => Some (2 :: r')
         | None => None
         end
  end.

Definition it3_render (orig : list N) (idx : list nat) (cur : list N) : list N :=
  fold_left (fun r p => let '(i, d) := p in
                        set_nth r i (if d =? 0 then 0 else if d =? 1 then 1 else nth i orig 0))
            (combine idx cur) orig.

Definition it3_next (s : it3) : it3 * option (list N) :=
  let s1 :=
    if i3_started s then
      match i3_cur s with
      | Some cur => mkIt3 (i3_orig s) (i3_idx s) (decrement_vec cur) true
      | None => s
      end
    else mkIt3 (i3_orig s) (i3_idx s) (i3_cur s) true in
  match i3_cur s1 with
  | Some cur => (s1, Some (it3_render (i3_orig s1) (i3_idx s1) cur))
  | None => (s1, None)
  end.

Fixpoint it3_collect_f (fuel : nat) (s : it3) : list (list N) :=
  match fuel with
  | O => []
  | S f => match it3_next s with
           | (s', Some v) => v :: it3_collect_f f s'
           | (_, None) => []
           end
  end.
Definition it3_collect (term : list N) : list (list N) :=
  it3_collect_f (S (Nat.pow 3 (length (undec_indexes term)))) (it3_new term).
