(** Executable model of the two searches of lib/src/adf.rs:
    two_val_model_counts_logic (counting-guided, heuristics a and b) and nogood_internal
    (nogood learning, heuristics of lib/src/adf/heuristics.rs).  No proofs in this file. *)
From Coq Require Import NArith List Bool.
From ADF Require Import Base.Maps Spec.Spec Gen.GenLeaf Gen.GenFlags Bdd.Store Adf.Iter Adf.Native Adf.NoGood.
Import ListNotations.
Local Open Scope N_scope.

Notation "'do' p <- e ; k" := (obind e (fun p => k))
  (at level 200, p pattern, e at level 100, k at level 200, right associativity).

(** ModelCounts::minimum / more_models on a pair (cmodels, models).
    [more_models] is the body found in lib/src/datatypes/bdd.rs; Gen/GenLeaf.v regenerates it from the source. *)
Definition mc_minimum (p : N * N) : N := N.min (snd p) (fst p).
Definition mc_more_models (p : N * N) : bool := g_more_models p.   (* regenerated from the source *)
Definition paths_ro (c : cfg) (st : store) (t : N) : N * N := snd (paths c st t true).

Definition cmp_then (a b : comparison) : comparison := match a with Eq => b | _ => a end.

(** Iterator::min_by = reduce(|x, y| match cmp(x, y) { Greater => y, _ => x }): the first of the minimal elements *)
Definition min_by {A} (cmp : A -> A -> comparison) (l : list A) : option A :=
  match l with
  | [] => None
  | x :: r => Some (fold_left (fun m y => match cmp m y with Gt => y | _ => m end) r x)
  end.

(** heu_max_imp_min_nacyc_impact_min_paths *)
Definition heu_a (c : cfg) (st : store) (interp : list N) (l r : nat * N) : comparison :=
  cmp_then (passive_var_impact c st (N.of_nat (fst r)) interp ?= passive_var_impact c st (N.of_nat (fst l)) interp)
  (cmp_then (active_var_impact c st (N.of_nat (fst l)) interp ?= active_var_impact c st (N.of_nat (fst r)) interp)
            (mc_minimum (paths_ro c st (snd l)) ?= mc_minimum (paths_ro c st (snd r)))).
(** heu_min_paths_max_imp *)
Definition heu_b (c : cfg) (st : store) (interp : list N) (l r : nat * N) : comparison :=
  cmp_then (mc_minimum (paths_ro c st (snd l)) ?= mc_minimum (paths_ro c st (snd r)))
           (passive_var_impact c st (N.of_nat (fst r)) interp ?= passive_var_impact c st (N.of_nat (fst l)) interp).

Definition enum {A} (l : list A) : list (nat * A) := combine (seq 0 (length l)) l.

(** the per-cube consistency test and assignment of two_val_model_counts_logic *)
Fixpoint cube_neg (new_int will_be : list N) (l : list N) : list N * bool :=
  match l with
  | [] => (new_int, true)
  | v :: r =>
    let i := N.to_nat v in
    if is_true (nth i new_int 2) || (nth i will_be 2 =? 1) then (new_int, false)
    else cube_neg (set_nth new_int i 0) will_be r
  end.
Fixpoint cube_pos (new_int will_be : list N) (l : list N) : list N * bool :=
  match l with
  | [] => (new_int, true)
  | v :: r =>
    let i := N.to_nat v in
    if (is_tv (nth i new_int 2) && negb (is_true (nth i new_int 2))) || (nth i will_be 2 =? 0) then (new_int, false)
    else cube_pos (set_nth new_int i 1) will_be r
  end.

(** Adf::check_consistency *)
Definition check_consistency (interp will_be : list N) : bool :=
  forallb (fun p => no_inf_inconsistency (snd p) (fst p)) (combine interp will_be).

(** update_interpretation_fixpoint: recomputes from its ARGUMENT in every round, hence one step
    (DESIGN.md 2.3); the second round only hits memo tables *)
Definition update_fix (c : cfg) (st : store) (interp : list N) : option (store * list N) :=
  apply_interp c false st interp interp.

Definition list_eqb (a b : list N) : bool :=
  Nat.eqb (length a) (length b) && forallb (fun p => fst p =? snd p) (combine a b).

Section CountSearch.
  Variable c : cfg.
  Variable heu : cfg -> store -> list N -> (nat * N) -> (nat * N) -> comparison.
  Variable ac : list N.
  (** [stop_on_err]: the cube loop is a try_for_each whose closure returns the cube's own
      consistency result, so the first inconsistent cube ends the loop (DESIGN.md D1).
      true = as on the pinned tree, false = repaired. *)
  Variable stop_on_err : bool.

  Fixpoint count_logic (fuel : nat) (st : store) (interp will_be : list N)
    : option (store * list (list N)) :=
    match fuel with
    | O => None
    | S f =>
      let cands := filter (fun p => negb (is_tv (snd p) || is_tv (nth (fst p) will_be 2))) (enum interp) in
      match min_by (heu c st interp) cands with
      | Some (idx, acv) =>
        let check_models := negb (mc_more_models (paths_ro c st acv)) in
        let cs := cubes st acv check_models (N.of_nat idx) in
        let fix cube_loop (st : store) (cs : list (list N * list N)) (acc : list (list N))
          : option (store * list (list N)) :=
          match cs with
          | [] => Some (st, acc)
          | (neg, pos) :: rest =>
            let '(i1, ok1) := cube_neg interp will_be neg in
            let '(i2, ok2) := cube_pos i1 will_be pos in
            if ok1 && ok2 then
              let new_int := set_nth i2 idx (if check_models then 1 else 0) in
              do (s1, upd) <- update_fix c st new_int;
              if check_consistency upd will_be then
                do (s2, sub) <- count_logic f s1 upd will_be;
                cube_loop s2 rest (acc ++ sub)
              else cube_loop s1 rest acc
            else if stop_on_err then Some (st, acc) else cube_loop st rest acc
          end in
        do (s1, result) <- cube_loop st cs [];
        (* checked one alternative, conclude the other value *)
        let fix restrict_all (st : store) (l : list N) : option (store * list N) :=
          match l with
          | [] => Some (st, [])
          | t :: r => do (sa, t') <- restrict c st t (N.of_nat idx) (negb check_models);
                      do (sb, r') <- restrict_all sa r; Some (sb, t' :: r')
          end in
        do (s2, new_int) <- restrict_all s1 interp;
        do (s3, upd0) <- update_fix c s2 new_int;
        let ni := nth idx new_int 2 in
        if no_inf_inconsistency ni (nth idx upd0 2) then
          let upd := set_nth upd0 idx (if check_models then 0 else 1) in
          if no_inf_inconsistency ni (nth idx upd 2) then
            do (s4, sub) <- count_logic f s3 upd (set_nth will_be idx ni);
            Some (s4, result ++ sub)
          else Some (s3, result)
        else Some (s3, result)
      | None =>
        let concluded := map (fun p => if negb (is_tv (fst p)) then snd p else fst p) (combine interp will_be) in
        do (s1, result) <- apply_interp c false st ac concluded;
        if check_consistency result concluded then Some (s1, [result]) else Some (s1, [interp])
      end
    end.

  (** stable_count_optimisation_heu_a / _b *)
  Definition stable_count (st : store) : option (store * list (list N)) :=
    do (s1, g) <- grounded c st ac;
    do (s2, cands) <- count_logic (S (S (length ac))) s1 g (repeat 2 (length g));
    filter_st (fun s v => stability_check c s ac v) s2 cands.
End CountSearch.

(* ------------------------------------------------------------------ nogood learning *)

(** branching heuristics: Some (position, term) *)
Inductive heuristic :=
| HSimple | HMinPathsMaxImp | HMaxImpMinPaths
| HRand                                   (* draws come from the search state *)
| HStatic (order : list nat) (vals : list bool).   (* a family of custom heuristics: first undecided position in [order], value from [vals] *)

Definition heu_simple (interp : list N) : option (nat * N) :=
  match filter (fun p => negb (is_tv (snd p))) (enum interp) with
  | (i, _) :: _ => Some (i, 1)
  | [] => None
  end.

Definition b2t (b : bool) : N := if b then 1 else 0.

Definition heu_mc_minpaths_maxvarimp (c : cfg) (st : store) (interp : list N) : option (nat * N) :=
  let cmp (l r : nat * N) :=
    cmp_then (mc_minimum (paths_ro c st (snd l)) ?= mc_minimum (paths_ro c st (snd r)))
             (passive_var_impact c st (N.of_nat (fst l)) interp ?= passive_var_impact c st (N.of_nat (fst r)) interp) in
  match min_by cmp (filter (fun p => negb (is_tv (snd p))) (enum interp)) with
  | Some (i, t) => Some (i, b2t (mc_more_models (paths_ro c st t)))
  | None => None
  end.
Definition heu_mc_maxvarimp_minpaths (c : cfg) (st : store) (interp : list N) : option (nat * N) :=
  let cmp (l r : nat * N) :=
    cmp_then (passive_var_impact c st (N.of_nat (fst l)) interp ?= passive_var_impact c st (N.of_nat (fst r)) interp)
             (mc_minimum (paths_ro c st (snd l)) ?= mc_minimum (paths_ro c st (snd r))) in
  match min_by cmp (filter (fun p => negb (is_tv (snd p))) (enum interp)) with
  | Some (i, t) => Some (i, b2t (mc_more_models (paths_ro c st t)))
  | None => None
  end.

(** heu_rand: [RAND_FILTERED] = false models the pinned tree (the drawn position indexes the
    filtered list but is used as the variable number, DESIGN.md D2), true the repaired code *)
Definition heu_rand (filtered : bool) (interp : list N) (draws : list N)
  : option (option (nat * N) * list N) :=
  let possible := filter (fun p => negb (is_tv (snd p))) (enum interp) in
  match possible, draws with
  | [], _ => Some (None, draws)
  | _, u :: u2 :: rest =>
    (* rng.next_u64() % len, then gen_bool(0.5) = (next u64 < 2^63) *)
    let position := N.to_nat (u mod N.of_nat (length possible)) in
    let var := if filtered then fst (nth position possible (0%nat, 0)) else position in
    Some (Some (var, b2t (u2 <? 9223372036854775808)), rest)
  | _, _ => None       (* the supplied prefix of the draw stream is used up: no answer *)
  end.

Definition heu_static (order : list nat) (vals : list bool) (interp : list N) : option (nat * N) :=
  match filter (fun i => negb (is_tv (nth i interp 0))) order with
  | i :: _ => Some (i, b2t (nth i vals true))
  | [] => heu_simple interp
  end.

Record ngstate := mkNG {
  g_cur : list N; g_store : ngstore; g_stack : list (bool * ng); g_hist : list (list N);
  g_backtrack : bool; g_choice : bool; g_out : list (list N); g_draws : list N
}.

Inductive step_result := Continue (st : store) (s : ngstate) | Break (st : store) (s : ngstate) | Panic.

Section NgSearch.
  Variable c : cfg.
  Variable ac : list N.
  Variable h : heuristic.
  Variable rand_filtered : bool.
  Variable two_valued_mode : bool.   (* two_val_nogood_channel: the "stability check" is constantly true *)
  Variable stop_exhausted : bool.    (* the loop ends when a backtrack finds no choice entry on the stack *)

  Definition run_heuristic (st : store) (s : ngstate) : option (option (nat * N) * list N) :=
    match h with
    | HSimple => Some (heu_simple (g_cur s), g_draws s)
    | HMinPathsMaxImp => Some (heu_mc_minpaths_maxvarimp c st (g_cur s), g_draws s)
    | HMaxImpMinPaths => Some (heu_mc_maxvarimp_minpaths c st (g_cur s), g_draws s)
    | HRand => heu_rand rand_filtered (g_cur s) (g_draws s)
    | HStatic o v => Some (heu_static o v (g_cur s), g_draws s)
    end.

  (** "while let Some((choice, ng)) = stack.pop()": add the popped nogoods until a choice entry; the
      last component tells whether one was found *)
  Fixpoint unwind (ngs : ngstore) (stack : list (bool * ng)) (hist : list (list N)) (cur : list N)
    : option (ngstore * list (bool * ng) * list (list N) * list N * bool) :=
    match stack with
    | [] => Some (ngs, [], hist, cur, false)
    | (ch, g) :: rest =>
      match add_ng ngs g with
      | None => None
      | Some ngs' =>
        if ch then
          match hist with
          | [] => None      (* "both stacks should always be synchronous" *)
          | old :: hist' => Some (ngs', rest, hist', old, true)
          end
        else unwind ngs' rest hist cur
      end
    end.

  Definition ng_step (st : store) (s : ngstate) : option step_result :=
    (* 1. choice *)
    let '(s1, ok) :=
      if g_choice s then
        match run_heuristic st s with
        | Some (Some (var, t), dr) =>
          let cur' := set_nth (g_cur s) var t in
          (mkNG cur' (g_store s) ((true, ng_of_terms cur') :: g_stack s) (g_cur s :: g_hist s)
                (g_backtrack s) false (g_out s) dr, true)
        | Some (None, dr) => (mkNG (g_cur s) (g_store s) (g_stack s) (g_hist s) true false (g_out s) dr, true)
        | None => (s, false)
        end
      else (s, true) in
    if negb ok then None else
    (* 3. backtrack *)
    let r2 :=
      if g_backtrack s1 then
        match g_stack s1 with
        | [] => Some (inl (Break st s1))
        | _ =>
          match unwind (g_store s1) (g_stack s1) (g_hist s1) (g_cur s1) with
          | None => Some (inl Panic)
          | Some (ngs, stk, hist, cur, found) =>
            let s2 := mkNG cur ngs stk hist false (g_choice s1) (g_out s1) (g_draws s1) in
            if stop_exhausted && negb found then Some (inl (Break st s2)) else Some (inr s2)
          end
        end
      else Some (inr s1) in
    match r2 with
    | None => None
    | Some (inl r) => Some r
    | Some (inr s2) =>
      (* 4. closure of the nogood conclusions *)
      match conclusion_closure (g_store s2) (g_cur s2) with
      | None => None
      | Some CInconsistent =>
        Some (Continue st (mkNG (g_cur s2) (g_store s2) (g_stack s2) (g_hist s2) true (g_choice s2) (g_out s2) (g_draws s2)))
      | Some cl =>
        let '(s3, update_ng) :=
          match cl with
          | CUpdate v => (mkNG v (g_store s2) ((false, ng_of_terms v) :: g_stack s2) (g_hist s2)
                               (g_backtrack s2) (g_choice s2) (g_out s2) (g_draws s2), true)
          | _ => (s2, false)
          end in
        (* 5. consistency with the acceptance conditions *)
        match apply_interp c false st ac (g_cur s3) with
        | None => None
        | Some (st1, aci) =>
          if existsb (fun p => is_tv (fst p) && is_tv (snd p) && negb (eqb (is_true (fst p)) (is_true (snd p))))
                     (combine (g_cur s3) aci)
          then Some (Continue st1 (mkNG (g_cur s3) (g_store s3) (g_stack s3) (g_hist s3) true (g_choice s3) (g_out s3) (g_draws s3)))
          else
            (* 6. one propagation step *)
            match update_fix c st1 (g_cur s3) with
            | None => None
            | Some (st2, cur') =>
              let update_fp := negb (list_eqb cur' (g_cur s3)) in
              let s4 := mkNG cur' (g_store s3) (g_stack s3) (g_hist s3) (g_backtrack s3) (g_choice s3) (g_out s3) (g_draws s3) in
              if update_fp then Some (Continue st2 s4)
              else if update_ng then Some (Continue st2 s4)
              else if negb (forallb is_tv cur') then
                Some (Continue st2 (mkNG cur' (g_store s4) (g_stack s4) (g_hist s4) (g_backtrack s4) true (g_out s4) (g_draws s4)))
              else
                match (if two_valued_mode then Some (st2, true) else stability_check c st2 ac cur') with
                | None => None
                | Some (st3, stable) =>
                  Some (Continue st3 (mkNG cur' (g_store s4) ((false, ng_of_terms cur') :: g_stack s4) (g_hist s4)
                                           true (g_choice s4) (if stable then cur' :: g_out s4 else g_out s4) (g_draws s4)))
                end
            end
        end
      end
    end.

  Fixpoint ng_loop (fuel : nat) (st : store) (s : ngstate) : option (store * ngstate) :=
    match fuel with
    | O => None
    | S f =>
      match ng_step st s with
      | None => None
      | Some Panic => None
      | Some (Break st' s') => Some (st', s')
      | Some (Continue st' s') => ng_loop f st' s'
      end
    end.

  (** nogood_internal started from the grounded interpretation; returns the models in the order sent *)
  Definition nogood_search (budget : nat) (st : store) (draws : list N)
    : option (store * list (list N) * list N) :=
    do (s1, g) <- grounded c st ac;
    do (s2, fin) <- ng_loop budget s1 (mkNG g (ngs_new (length ac)) [] [] false false [] draws);
    Some (s2, rev (g_out fin), g_draws fin).     (* the rest of the draw stream: the generator state lives in the Adf object *)
End NgSearch.

(** the searches as the current source has them (flags regenerated by tools/translate.py) *)
Definition stable_count_cur (c : cfg) heu (ac : list N) := stable_count c heu ac g_count_stop_on_err.
Definition nogood_search_cur (c : cfg) (ac : list N) (h : heuristic) (two : bool) :=
  nogood_search c ac h g_rand_filtered two g_ng_stop_exhausted.
