(** Executable model of lib/src/adfbiodivine.rs (the biodivine back-end) and of the bridge
    Adf::from_biodivine_vector of lib/src/adf.rs.

    biodivine-lib-bdd itself is not modelled internally: its Bdd values are canonical Boolean
    functions, represented here by handles of a verified store (Bdd/Store.v); the operations the
    Rust code uses are eval_expression (= [term]), restrict = select + exists (= a fold of
    [restrict]), is_true / is_false (= handle 1 / 0), and / iff, sat_valuations (enumeration,
    order not modelled) and to_string (the dump the bridge parses; taken from the implementation
    run and validated per instance, see DESIGN.md C09).  No proofs in this file. *)
From Coq Require Import NArith List Bool.
From ADF Require Import Base.Maps Spec.Spec Bdd.Store Adf.Iter Adf.Native.
Import ListNotations.
Local Open Scope N_scope.

Notation "'do' p <- e ; k" := (obind e (fun p => k))
  (at level 200, p pattern, e at level 100, k at level 200, right associativity).

(** From<&biodivine::Bdd> for Term: TOP / BOT / UND *)
Definition bio_term (h : N) : N := if h =? 1 then 1 else if h =? 0 then 0 else 2.

(** BddRestrict::restrict(&[(var, val)]) = select(vars).exists(vars): cofactor by a list *)
Fixpoint bio_restrict (c : cfg) (st : store) (h : N) (vl : list (N * bool)) : option (store * N) :=
  match vl with
  | [] => Some (st, h)
  | (v, b) :: r => do (s1, h') <- restrict c st h v b; bio_restrict c s1 h' r
  end.

(** Adf::var_list: the decided positions with their values *)
Definition var_list (interp : list N) : list (N * bool) :=
  map (fun p => (N.of_nat (fst p), is_true (snd p)))
      (filter (fun p => is_tv (snd p)) (combine (seq 0 (length interp)) interp)).

(** one round of adfbiodivine::Adf::grounded_internal *)
Fixpoint bio_round (c : cfg) (st : store) (vl : list (N * bool)) (l : list N)
  : option (store * list N * bool) :=
  match l with
  | [] => Some (st, [], false)
  | a :: r =>
    if is_tv a then
      do (s1, r', ext) <- bio_round c st vl r; Some (s1, a :: r', ext)
    else
      do (s1, a') <- bio_restrict c st a vl;
      do (s2, r', ext) <- bio_round c s1 vl r;
      Some (s2, a' :: r', ext || is_tv a')
  end.

Fixpoint bio_grounded_loop (c : cfg) (fuel : nat) (st : store) (interp : list N) : option (store * list N) :=
  match fuel with
  | O => None
  | S f =>
    do (s1, new, ext) <- bio_round c st (var_list interp) interp;
    if ext then bio_grounded_loop c f s1 new else Some (s1, new)
  end.
Definition bio_grounded_internal (c : cfg) (st : store) (interp : list N) :=
  bio_grounded_loop c (S (S (length interp))) st interp.

(** adfbiodivine::Adf::grounded: the Term view of the result *)
Definition bio_grounded (c : cfg) (st : store) (ac : list N) : option (store * list N) :=
  do (s1, g) <- bio_grounded_internal c st ac; Some (s1, map bio_term g).

(** cmp_information between a Term and a biodivine value *)
Definition cmp_information (t h : N) : bool := compare_inf t (bio_term h).

(** adfbiodivine::Adf::complete *)
Fixpoint bio_all_consistent (c : cfg) (st : store) (acs terms : list N) (vl : list (N * bool))
  : option (store * bool) :=
  match acs, terms with
  | a :: ar, t :: tr =>
    do (s1, a') <- bio_restrict c st a vl;
    if cmp_information t a' then bio_all_consistent c s1 ar tr vl else Some (s1, false)
  | _, _ => Some (st, true)
  end.
Definition bio_complete (c : cfg) (st : store) (ac : list N) : option (store * list (list N)) :=
  do (s1, g) <- bio_grounded_internal c st ac;
  filter_st (fun s v => bio_all_consistent c s ac v (var_list v)) s1 (it3_collect (map bio_term g)).

(** adfbiodivine::Adf::stable and the filter of stable_bdd_representation *)
Fixpoint bio_restrict_all (c : cfg) (st : store) (l : list N) (vl : list (N * bool)) : option (store * list N) :=
  match l with
  | [] => Some (st, [])
  | a :: r => do (s1, a') <- bio_restrict c st a vl; do (s2, r') <- bio_restrict_all c s1 r vl; Some (s2, a' :: r')
  end.
Definition false_list (terms : list N) : list (N * bool) :=
  map (fun p => (N.of_nat (fst p), false))
      (filter (fun p => is_tv (snd p) && negb (is_true (snd p))) (combine (seq 0 (length terms)) terms)).
Definition bio_stable_pred (c : cfg) (ac : list N) (st : store) (terms : list N) : option (store * bool) :=
  do (s1, red) <- bio_restrict_all c st ac (false_list terms);
  do (s2, grd) <- bio_grounded_internal c s1 red;
  Some (s2, forallb (fun p => cmp_information (fst p) (snd p)) (combine terms grd)).
Definition bio_stable (c : cfg) (st : store) (ac : list N) : option (store * list (list N)) :=
  do (s1, g) <- bio_grounded_internal c st ac;
  filter_st (bio_stable_pred c ac) s1 (it2_collect (map bio_term g)).

(** stable_representation: the conjunction of (ac_s <-> s) *)
Fixpoint stable_repr (c : cfg) (st : store) (acc : N) (acs : list N) (idx : N) : option (store * N) :=
  match acs with
  | [] => Some (st, acc)
  | a :: r =>
    let '(s1, v) := variable c st idx in
    do (s2, e) <- biff c s1 a v;
    do (s3, acc') <- band c s2 acc e;
    stable_repr c s3 acc' r (idx + 1)
  end.

(** evaluation of a handle under a two-valued vector (walk) *)
Fixpoint eval_f (fuel : nat) (st : store) (h : N) (v : list N) : bool :=
  match fuel with
  | O => false
  | S f =>
    if h =? 0 then false else if h =? 1 then true else
    let n := get_node st h in
    eval_f f st (if is_true (nth (N.to_nat (nv n)) v 0) then nhi n else nlo n) v
  end.
Definition eval_h (st : store) (h : N) (v : list N) : bool := eval_f (S (N.to_nat h)) st h v.

(** stable_model_candidates: the satisfying valuations of the rewriting, as Term vectors
    (biodivine's enumeration order is not modelled: compared as multisets) *)
Definition stable_candidates (c : cfg) (st : store) (ac : list N) : option (store * list (list N)) :=
  do (s1, sr) <- stable_repr c st 1 ac 0;
  Some (s1, filter (eval_h s1 sr) (it2_collect (repeat 2 (length ac)))).

Definition bio_stable_rew (c : cfg) (st : store) (ac : list N) : option (store * list (list N)) :=
  do (s1, cands) <- stable_candidates c st ac;
  filter_st (bio_stable_pred c ac) s1 cands.

(* ------------------------------------------------------------------ the bridge *)

(** one acceptance condition as dumped by biodivine: constants, or the node list of to_string
    without its two terminal entries: (variable, lo index, hi index), indices into the dump
    (0 = false terminal, 1 = true terminal, k + 2 = k-th listed node); the root is the last node *)
Inductive bio_ac := BTrue | BFalse | BDump (nodes : list (N * nat * nat)).

(** Adf::from_biodivine_vector, inner loop: replay the dump through [mk_node] *)
Fixpoint bridge_nodes (c : cfg) (st : store) (tv : list N) (l : list (N * nat * nat)) : store * list N :=
  match l with
  | [] => (st, tv)
  | (v, lo, hi) :: r =>
    let '(s1, t) := mk_node c st v (nth lo tv 0) (nth hi tv 0) in
    bridge_nodes c s1 (tv ++ [t]) r
  end.
Definition bridge_one (c : cfg) (st : store) (a : bio_ac) : store * N :=
  match a with
  | BTrue => (st, 1)
  | BFalse => (st, 0)
  | BDump l => let '(s1, tv) := bridge_nodes c st [0; 1] l in (s1, last tv 0)
  end.
Fixpoint bridge_all (c : cfg) (st : store) (l : list bio_ac) : store * list N :=
  match l with
  | [] => (st, [])
  | a :: r => let '(s1, t) := bridge_one c st a in let '(s2, ts) := bridge_all c s1 r in (s2, t :: ts)
  end.
Definition from_biodivine_vector (c : cfg) (l : list bio_ac) : store * list N := bridge_all c (init c) l.

(** well-formed dumps: children are earlier entries and test strictly later variables
    (executable; checked on every dump the implementation produces) *)
Fixpoint wf_dump_f (vars : list N) (l : list (N * nat * nat)) : bool :=
  match l with
  | [] => true
  | (v, lo, hi) :: r =>
    (v <? VBOT) && Nat.ltb lo (length vars) && Nat.ltb hi (length vars) &&
    (v <? nth lo vars 0) && (v <? nth hi vars 0) && wf_dump_f (vars ++ [v]) r
  end.
Definition wf_dump (a : bio_ac) : bool :=
  match a with BDump l => wf_dump_f [VBOT; VTOP] l && negb (Nat.eqb (length l) 0) | _ => true end.
