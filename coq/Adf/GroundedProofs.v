(** C01, native back-end: [grounded_internal] computes the grounded interpretation of the ADF
    denoted by an arbitrary vector of valid handles, and always terminates within its fuel. *)
From Coq Require Import NArith List Bool Lia Arith.
From ADF Require Import Base.Maps Spec.Spec Spec.Theory Bdd.Store Bdd.WF Bdd.Node Bdd.Restrict Bdd.Ops
  Adf.Iter Adf.IterProofs Adf.Native Adf.NoGood Adf.NativeBase.
Import ListNotations.
Local Open Scope N_scope.

(** [den_rel st st0 w cur vec0]: the i-th current handle denotes "vec0_i under the partial
    assignment w" *)
Definition den_rel (st st0 : store) (w : interp) (cur vec0 : list N) : Prop :=
  Forall2 (fun h a => feq (den st h) (fun x => den st0 a (override w x))) cur vec0.

Lemma den_rel_length st st0 w cur vec0 : den_rel st st0 w cur vec0 -> length cur = length vec0.
Proof. apply Forall2_len. Qed.

(** canonicity turns the denotation relation into one application of Gamma *)
Lemma gamma_of_den c st st0 w cur vec0 :
  WF c st -> valid st cur -> den_rel st st0 w cur vec0 -> Gamma (abs st0 vec0) w (interp_of cur).
Proof.
  intros WFst V H. apply Gamma_abs. unfold den_rel in H.
  induction H as [|h a cur vec0 Hha _ IH]; [constructor|].
  inversion V as [|? ? Hh Vr]; subst. constructor; [|apply IH; exact Vr].
  apply (cons3_den c st0 st a h w WFst Hh Hha).
Qed.

Lemma override_nil_repeat n x i : override (repeat U n) x i = x i.
Proof.
  unfold override, val.
  assert (E : nth (N.to_nat i) (repeat U n) U = U).
  { generalize (N.to_nat i). induction n as [|n IH]; intros [|k]; cbn [repeat nth]; auto. }
  rewrite E. reflexivity.
Qed.

Lemma den_rel_init st vec : den_rel st st (repeat U (length (abs st vec))) vec vec.
Proof.
  unfold den_rel. generalize (length (abs st vec)). intros n.
  induction vec as [|a vec IH]; constructor; auto.
  intros x. apply den_ext. intros i. symmetry. apply override_nil_repeat.
Qed.

(** a more informed interpretation absorbs a less informed one *)
Lemma override_absorb w v x i : info_le w v -> override w (override v x) i = override v x i.
Proof.
  intros L. unfold override at 1. destruct (info_le_val w v i L) as [E|E].
  - rewrite E. reflexivity.
  - destruct (val w i) eqn:Ew; [| |reflexivity]; unfold override; rewrite <- E; reflexivity.
Qed.

(* ------------------------------------------------------------------ *)
(** * one round *)

Lemma ground_round_ok c cur : forall l st tv st' new tv',
  WF c st -> valid st l -> ground_round c st cur l tv = Some (st', new, tv') ->
  WF c st' /\ extends st st' /\ valid st' new /\
  Forall2 (fun h a => feq (den st' h) (fun x => den st a (override (interp_of cur) x))) new l /\
  tv' + count_tv l = tv + count_tv new.
Proof.
  induction l as [|a l IH]; intros st tv st' new tv' WFst V X.
  - cbn [ground_round] in X. inversion X; subst.
    split; [exact WFst|]. split; [apply extends_refl|]. split; [constructor|]. split; [constructor|reflexivity].
  - inversion V as [|? ? Ha Vr]; subst. cbn [ground_round] in X. destruct (is_tv a) eqn:Ta.
    + apply obind_inv in X. destruct X as ([[s1 r'] tv1] & X1 & X). inversion X; subst s1 new tv1. clear X.
      destruct (IH st tv st' r' tv' WFst Vr X1) as (WF' & E' & V' & D' & C').
      split; [exact WF'|]. split; [exact E'|]. split.
      { constructor; [apply (extends_lt st st' a E' Ha)|exact V']. }
      split.
      { constructor; [|exact D'].
        intros x. rewrite (extends_den_stable c st st' a WFst E' Ha x).
        apply den_terminal. apply is_tv_le. exact Ta. }
      rewrite !count_tv_cons, Ta. lia.
    + apply obind_inv in X. destruct X as ([s1 a'] & X1 & X).
      apply obind_inv in X. destruct X as ([[s2 r'] tv1] & X2 & X). inversion X; subst s2 new tv1. clear X.
      destruct (fold_restrict_override c cur st a s1 a' WFst Ha X1) as (WF1 & E1 & Ha' & D1).
      destruct (IH s1 _ st' r' tv' WF1 (valid_extends st s1 l E1 Vr) X2) as (WF' & E' & V' & D' & C').
      split; [exact WF'|]. split; [eapply extends_trans; eauto|]. split.
      { constructor; [apply (extends_lt s1 st' a' E' Ha')|exact V']. }
      split.
      { constructor.
        - intros x. rewrite (extends_den_stable c s1 st' a' WF1 E' Ha' x). apply D1.
        - apply (den_rel_transport c st s1 (override (interp_of cur)) st' r' l WFst E1 Vr D'). }
      rewrite !count_tv_cons, Ta. destruct (is_tv a'); lia.
Qed.

Lemma ground_round_total c cur : forall l st tv,
  WF c st -> valid st l -> exists st' new tv', ground_round c st cur l tv = Some (st', new, tv').
Proof.
  induction l as [|a l IH]; intros st tv WFst V.
  - cbn [ground_round]. eauto.
  - inversion V as [|? ? Ha Vr]; subst. cbn [ground_round]. destruct (is_tv a) eqn:Ta.
    + destruct (IH st tv WFst Vr) as (s1 & r' & tv1 & X1). rewrite X1. cbn [obind]. eauto.
    + destruct (fold_restrict_total c false cur st a 0 WFst Ha) as (s1 & a' & X1).
      rewrite X1. cbn [obind].
      destruct (fold_restrict_override c cur st a s1 a' WFst Ha X1) as (WF1 & E1 & Ha' & D1).
      destruct (IH s1 (if is_tv a' then tv + 1 else tv) WF1 (valid_extends st s1 l E1 Vr))
        as (s2 & r' & tv1 & X2).
      rewrite X2. cbn [obind]. eauto.
Qed.

(* ------------------------------------------------------------------ *)
(** * the loop invariant *)

(** state of the loop for the ADF [abs st0 vec0] *)
Definition ginv (c : cfg) (st0 : store) (vec0 : list N) (st : store) (cur : list N) : Prop :=
  WF c st /\ extends st0 st /\ valid st cur /\
  exists n w, Theory.chain (abs st0 vec0) n w /\ den_rel st st0 w cur vec0.

Lemma ginv_init c st vec : WF c st -> valid st vec -> ginv c st vec st vec.
Proof.
  intros WFst V. split; [exact WFst|]. split; [apply extends_refl|]. split; [exact V|].
  exists 0%nat, (repeat U (length (abs st vec))). split; [constructor|apply den_rel_init].
Qed.

(** what one round does to the invariant *)
Lemma ginv_step c st0 vec0 st cur tv st' new tv' :
  WF c st0 -> valid st0 vec0 -> ginv c st0 vec0 st cur ->
  ground_round c st cur cur tv = Some (st', new, tv') ->
  extends st st' /\
  tv' + count_tv cur = tv + count_tv new /\
  WF c st' /\ extends st0 st' /\ valid st' new /\
  exists n, Theory.chain (abs st0 vec0) n (interp_of cur) /\
            den_rel st' st0 (interp_of cur) new vec0 /\
            Gamma (abs st0 vec0) (interp_of cur) (interp_of new) /\
            info_le (interp_of cur) (interp_of new).
Proof.
  intros WF0 V0 (WFst & E0 & V & n & w & Hch & Hrel) X.
  destruct (ground_round_ok c cur cur st tv st' new tv' WFst V X) as (WF' & E' & V' & D' & C').
  pose proof (gamma_of_den c st st0 w cur vec0 WFst V Hrel) as G.
  pose proof (chain_increasing _ _ _ _ Hch G) as L.
  assert (Hch' : Theory.chain (abs st0 vec0) (S n) (interp_of cur)) by (econstructor; eauto).
  assert (Hrel' : den_rel st' st0 (interp_of cur) new vec0).
  { unfold den_rel in *.
    eapply (Forall2_compose _ _ _ _ new cur vec0 D' Hrel). }
  split; [exact E'|]. split; [exact C'|]. split; [exact WF'|].
  split; [eapply extends_trans; eauto|]. split; [exact V'|].
  exists (S n). split; [exact Hch'|]. split; [exact Hrel'|].
  pose proof (gamma_of_den c st' st0 (interp_of cur) new vec0 WF' V' Hrel') as G'.
  split; [exact G'|]. apply (chain_increasing _ _ _ _ Hch' G').
  Unshelve.
  intros h k a H1 H2 x. cbv beta in *. rewrite H1, H2. apply den_ext. intros i.
  apply override_absorb. exact L.
Qed.

(* ------------------------------------------------------------------ *)
(** * the loop *)

Definition grounded_post (c : cfg) (st0 : store) (vec0 : list N) (st' : store) (g : list N) : Prop :=
  WF c st' /\ extends st0 st' /\ length g = length vec0 /\ valid st' g /\
  Grounded (abs st0 vec0) (interp_of g) /\
  Forall2 (fun h a => feq (den st' h) (fun x => den st0 a (override (interp_of g) x))) g vec0.

Lemma grounded_loop_ok c st0 vec0 : WF c st0 -> valid st0 vec0 ->
  forall fuel st cur st' g, ginv c st0 vec0 st cur ->
  grounded_loop c fuel st cur (count_tv cur) = Some (st', g) ->
  grounded_post c st0 vec0 st' g.
Proof.
  intros WF0 V0. induction fuel as [|f IH]; intros st cur st' g HI X; [discriminate X|].
  cbn [grounded_loop] in X.
  apply obind_inv in X. destruct X as ([[s1 new] tv'] & X1 & X).
  destruct (ginv_step c st0 vec0 st cur (count_tv cur) s1 new tv' WF0 V0 HI X1)
    as (E1 & C1 & WF1 & E01 & V1 & n & Hch & Hrel & G & L).
  assert (Etv : tv' = count_tv new) by lia. subst tv'.
  destruct (N.eqb_spec (count_tv new) (count_tv cur)) as [Heq|Hne].
  - inversion X; subst s1 new. clear X.
    assert (Ev : interp_of cur = interp_of g).
    { apply info_le_ndecided_eq; [exact L|]. rewrite !count_tv_ndecided in Heq. lia. }
    rewrite Ev in *.
    split; [exact WF1|]. split; [exact E01|]. split; [apply (den_rel_length _ _ _ _ _ Hrel)|].
    split; [exact V1|]. split; [|exact Hrel].
    eapply chain_fixpoint_grounded; eauto.
  - apply (IH s1 new st' g); [|exact X].
    split; [exact WF1|]. split; [exact E01|]. split; [exact V1|].
    exists n, (interp_of cur). split; assumption.
Qed.

Lemma grounded_loop_total c st0 vec0 : WF c st0 -> valid st0 vec0 ->
  forall fuel st cur, ginv c st0 vec0 st cur ->
  (length cur < fuel + ndecided (interp_of cur))%nat ->
  exists st' g, grounded_loop c fuel st cur (count_tv cur) = Some (st', g).
Proof.
  intros WF0 V0. induction fuel as [|f IH]; intros st cur HI Hf.
  - pose proof (ndecided_le_length (interp_of cur)) as B. rewrite interp_of_length in B. lia.
  - cbn [grounded_loop].
    pose proof HI as (WFst & _ & V & _).
    destruct (ground_round_total c cur cur st (count_tv cur) WFst V) as (s1 & new & tv' & X1).
    rewrite X1. cbn [obind].
    destruct (ginv_step c st0 vec0 st cur (count_tv cur) s1 new tv' WF0 V0 HI X1)
      as (E1 & C1 & WF1 & E01 & V1 & n & Hch & Hrel & G & L).
    assert (Etv : tv' = count_tv new) by lia. subst tv'.
    destruct (N.eqb_spec (count_tv new) (count_tv cur)) as [Heq|Hne]; [eauto|].
    apply IH.
    + split; [exact WF1|]. split; [exact E01|]. split; [exact V1|].
      exists n, (interp_of cur). split; assumption.
    + pose proof (info_le_ndecided _ _ L) as LE. rewrite !count_tv_ndecided in Hne.
      pose proof (info_le_length _ _ L) as EL. rewrite !interp_of_length in EL. lia.
Qed.

(* ------------------------------------------------------------------ *)
(** * [grounded_internal] on an arbitrary vector, [grounded] *)

Theorem grounded_internal_exact c st vec st' g :
  WF c st -> valid st vec -> grounded_internal c st vec = Some (st', g) ->
  WF c st' /\ extends st st' /\ length g = length vec /\ Forall (fun h => h < size st') g /\
  Grounded (abs st vec) (interp_of g) /\
  Forall2 (fun h a => feq (den st' h) (fun x => den st a (override (interp_of g) x))) g vec.
Proof.
  intros WFst V X. unfold grounded_internal in X.
  exact (grounded_loop_ok c st vec WFst V _ st vec st' g (ginv_init c st vec WFst V) X).
Qed.

Theorem grounded_internal_total c st vec :
  WF c st -> valid st vec -> exists st' g, grounded_internal c st vec = Some (st', g).
Proof.
  intros WFst V. unfold grounded_internal.
  apply (grounded_loop_total c st vec WFst V _ st vec (ginv_init c st vec WFst V)). lia.
Qed.

(** C01, native back-end *)
Theorem grounded_exact c st ac st' g : WF c st -> ac_ok st ac -> grounded c st ac = Some (st', g) ->
  WF c st' /\ extends st st' /\ length g = length ac /\ Forall (fun h => h < size st') g /\
  Grounded (abs st ac) (interp_of g) /\
  Forall2 (fun h a => feq (den st' h) (fun x => den st a (override (interp_of g) x))) g ac.
Proof. intros WFst [V _] X. exact (grounded_internal_exact c st ac st' g WFst V X). Qed.

Theorem grounded_total c st ac : WF c st -> ac_ok st ac -> exists st' g, grounded c st ac = Some (st', g).
Proof. intros WFst [V _]. exact (grounded_internal_total c st ac WFst V). Qed.

(** the grounded interpretation is below every complete one, in particular every complete,
    two-valued or stable model refines the vector returned by [grounded] *)
Lemma grounded_below D g v : Grounded D g -> Complete D v -> info_le g v.
Proof. intros [_ M] C. apply M. exact C. Qed.

Print Assumptions grounded_internal_exact.
Print Assumptions grounded_internal_total.
