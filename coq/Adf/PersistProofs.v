(** C14 at the ADF level: an ADF that is exported and re-imported (serde import + repair step,
    or rebuilt from its plain node list as the web service's database layer does) has the same
    node numbering - so the stored acceptance-condition handles keep their meaning - and every
    semantics function returns the same answers as on the original store.  The importing build
    [c'] may differ from the exporting build [c]. *)
From Coq Require Import NArith List Bool Lia Arith.
From ADF Require Import Base.Maps Spec.Spec Spec.Theory Bdd.Store Bdd.WF Bdd.Node Bdd.Restrict Bdd.Ops
  Bdd.Canon Bdd.Rebuild
  Adf.Iter Adf.IterProofs Adf.Native Adf.NoGood Adf.NativeBase Adf.GroundedProofs Adf.CompleteProofs
  Adf.StableProofs Adf.Bio Adf.BioProofs Adf.BridgeProofs.
Import ListNotations.
Local Open Scope N_scope.

(** the two ways back from an exported node table *)
Inductive Reimported (c' : cfg) (st : store) : store -> Prop :=
| ReFromNodes : Reimported c' st (from_nodes c' (table_of st))
| ReSerde : Reimported c' st (fix_import c' (import_raw (table_of st))).

Lemma reimported_same_tab c' st s : WFN st -> Reimported c' st s -> same_tab st s /\ WF c' s.
Proof.
  intros W [|].
  - split; [apply from_nodes_same_tab, W|apply from_nodes_wf, W].
  - split; [apply fix_import_same_tab_orig, W|apply (fix_import_wf c' st W)].
Qed.

Lemma same_tab_abs st s ac : same_tab st s -> adf_eq (abs s ac) (abs st ac).
Proof.
  intros H. unfold adf_eq, abs. induction ac as [|h ac IH]; cbn [map]; constructor; [|exact IH].
  apply same_tab_den, H.
Qed.

Lemma same_tab_ac_ok st s ac : same_tab st s -> ac_ok st ac -> ac_ok s ac.
Proof.
  intros H [V S]. split.
  - rewrite (proj1 H). exact V.
  - apply (supported_adf_eq (length ac) (abs st ac) (abs s ac)); [|exact S].
    apply adf_eq_sym, same_tab_abs, H.
Qed.

Theorem roundtrip_same_adf_gen c' st s ac :
  WFN st -> ac_ok st ac -> Reimported c' st s ->
  WF c' s /\ table_of s = table_of st /\ ac_ok s ac /\ adf_eq (abs s ac) (abs st ac).
Proof.
  intros W O R. destruct (reimported_same_tab c' st s W R) as (H & WFs).
  split; [exact WFs|]. split; [apply same_tab_table, H|].
  split; [apply (same_tab_ac_ok st s ac H O)|apply same_tab_abs, H].
Qed.

(** the statement of C14, for the database layer ... *)
Theorem roundtrip_same_adf c st ac : WF c st -> ac_ok st ac ->
  let st' := from_nodes c (table_of st) in
  WF c st' /\ ac_ok st' ac /\ adf_eq (abs st' ac) (abs st ac).
Proof.
  intros WFst O st'.
  destruct (roundtrip_same_adf_gen c st st' ac (wf_n c st WFst) O (ReFromNodes c st)) as (A & _ & B & C).
  auto.
Qed.

(** ... and for serde import + [fix_import] *)
Theorem roundtrip_same_adf_import c st ac : WF c st -> ac_ok st ac ->
  let st' := fix_import c (import_raw (table_of st)) in
  WF c st' /\ ac_ok st' ac /\ adf_eq (abs st' ac) (abs st ac).
Proof.
  intros WFst O st'.
  destruct (roundtrip_same_adf_gen c st st' ac (wf_n c st WFst) O (ReSerde c st)) as (A & _ & B & C).
  auto.
Qed.

(** ** the answers: each semantics function terminates on the re-imported store and returns
       the same interpretations as on the original one *)
Section Answers.
  Variables (c c' : cfg) (st s : store) (ac : list N).
  Hypothesis WFst : WF c st.
  Hypothesis O : ac_ok st ac.
  Hypothesis R : Reimported c' st s.

  Let RT := roundtrip_same_adf_gen c' st s ac (wf_n c st WFst) O R.

  Corollary roundtrip_answers_grounded s1 g1 : grounded c st ac = Some (s1, g1) ->
    exists s2 g2, grounded c' s ac = Some (s2, g2) /\ interp_of g2 = interp_of g1.
  Proof.
    intros X1. destruct RT as (WFs & _ & Os & EQ).
    destruct (grounded_total c' s ac WFs Os) as (s2 & g2 & X2). exists s2, g2. split; [exact X2|].
    apply (answers_determined_grounded c' c s ac st ac s2 g2 s1 g1 WFs WFst Os O EQ X2 X1).
  Qed.

  Corollary roundtrip_answers_complete s1 l1 : complete c st ac = Some (s1, l1) ->
    exists s2 l2, complete c' s ac = Some (s2, l2) /\
      (forall v, In v (map interp_of l2) <-> In v (map interp_of l1)) /\
      hd_error (map interp_of l2) = hd_error (map interp_of l1).
  Proof.
    intros X1. destruct RT as (WFs & _ & Os & EQ).
    destruct (complete_total c' s ac WFs Os) as (s2 & l2 & X2). exists s2, l2. split; [exact X2|].
    apply (answers_determined_complete c' c s ac st ac s2 l2 s1 l1 WFs WFst Os O EQ X2 X1).
  Qed.

  Corollary roundtrip_answers_stable s1 l1 : stable c st ac = Some (s1, l1) ->
    exists s2 l2, stable c' s ac = Some (s2, l2) /\
      forall v, In v (map interp_of l2) <-> In v (map interp_of l1).
  Proof.
    intros X1. destruct RT as (WFs & _ & Os & EQ).
    destruct (stable_total c' s ac WFs Os) as (s2 & l2 & X2). exists s2, l2. split; [exact X2|].
    apply (answers_determined_stable c' c s ac st ac s2 l2 s1 l1 WFs WFst Os O EQ X2 X1).
  Qed.

  Corollary roundtrip_answers_stable_with_prefilter s1 l1 :
    stable_with_prefilter c st ac = Some (s1, l1) ->
    exists s2 l2, stable_with_prefilter c' s ac = Some (s2, l2) /\
      forall v, In v (map interp_of l2) <-> In v (map interp_of l1).
  Proof.
    intros X1. destruct RT as (WFs & _ & Os & EQ).
    destruct (stable_with_prefilter_total c' s ac WFs Os) as (s2 & l2 & X2). exists s2, l2.
    split; [exact X2|].
    apply (answers_determined_stable_with_prefilter c' c s ac st ac s2 l2 s1 l1 WFs WFst Os O EQ X2 X1).
  Qed.

  (** the biodivine back-end on the original store against the native one on the re-import *)
  Corollary roundtrip_answers_bio_grounded s1 g1 : bio_grounded c st ac = Some (s1, g1) ->
    exists s2 g2, grounded c' s ac = Some (s2, g2) /\ interp_of g2 = interp_of g1.
  Proof.
    intros X1. destruct RT as (WFs & _ & Os & EQ).
    destruct (grounded_total c' s ac WFs Os) as (s2 & g2 & X2). exists s2, g2. split; [exact X2|].
    symmetry.
    apply (answers_determined_bio_native_grounded c c' st ac s ac s1 g1 s2 g2 WFst WFs O Os
             (adf_eq_sym _ _ EQ) X1 X2).
  Qed.
End Answers.

(** ** a worked example: the ADF over the demo store (statements x0, x1 with acceptance
       conditions "x1" and "x0 & x1": handles 3 and 4) gives identical answers after both
       round trips *)
Example demo_adf_roundtrip :
  let c := cfg_default in
  let st := demo_store c in
  let ac := [3; 4] in
  let s1 := from_nodes c (table_of st) in
  let s2 := fix_import c (import_raw (table_of st)) in
  option_map snd (grounded c s1 ac) = option_map snd (grounded c st ac) /\
  option_map snd (grounded c s2 ac) = option_map snd (grounded c st ac) /\
  option_map snd (complete c s1 ac) = option_map snd (complete c st ac) /\
  option_map snd (complete c s2 ac) = option_map snd (complete c st ac) /\
  option_map snd (stable c s1 ac) = option_map snd (stable c st ac) /\
  option_map snd (stable c s2 ac) = option_map snd (stable c st ac) /\
  option_map snd (complete c st ac) <> None.
Proof. vm_compute. repeat split. discriminate. Qed.

Print Assumptions roundtrip_same_adf_gen.
Print Assumptions roundtrip_same_adf.
Print Assumptions roundtrip_same_adf_import.
Print Assumptions roundtrip_answers_grounded.
Print Assumptions roundtrip_answers_complete.
Print Assumptions roundtrip_answers_stable.
Print Assumptions roundtrip_answers_stable_with_prefilter.
Print Assumptions roundtrip_answers_bio_grounded.
Print Assumptions demo_adf_roundtrip.
