(** Independence of the cargo features at the ADF level (property C12):
    - every semantics (native and biodivine back-end) returns the same answers under any two
      configurations on the ADF built by the same [from_parser] call;
    - stronger, by the simulation of Bdd/Cfg.v: [from_parser] returns the SAME acceptance-condition
      handles and the same node table in all configurations;
    - the count cache invariant holds for the store built by [from_parser];
    - the branching heuristics of the two searches (which read path counts and variable impacts,
      i.e. the feature-dependent queries) make the same choice in all configurations. *)
From Coq Require Import NArith List Bool Lia Arith.
From ADF Require Import Base.Maps Spec.Spec Spec.Theory Bdd.Store Bdd.WF Bdd.Node Bdd.Restrict Bdd.Ite
  Bdd.Ops Bdd.Canon Bdd.Counts Bdd.Support Bdd.Cfg
  Adf.Iter Adf.IterProofs Adf.Native Adf.NoGood Adf.NativeBase Adf.GroundedProofs Adf.CompleteProofs
  Adf.StableProofs Adf.NativeExamples Adf.Search Adf.Bio Adf.BioProofs Adf.BridgeProofs.
Import ListNotations.
Local Open Scope N_scope.

Lemma adf_eq_trans_r D D' D'' : adf_eq D D'' -> adf_eq D' D'' -> adf_eq D D'.
Proof.
  unfold adf_eq. intros H. revert D'. induction H as [|f g D D'' Hfg _ IH]; intros D' H'.
  - inversion H'; subst. constructor.
  - inversion H' as [|f' g' E E' Hfg' H'']; subst. constructor.
    + intros a. rewrite Hfg, Hfg'. reflexivity.
    + apply IH. exact H''.
Qed.

(* ================================================================== *)
(** * the semantics on the ADF of one [from_parser] call, two configurations *)
Section FromParser.
  Variables (c1 c2 : cfg) (n : nat) (fs : list (nat * formula)).
  Hypothesis B : N.of_nat n <= VBOT.
  Hypothesis HA : Forall (fun pf => atoms_lt (N.of_nat n) (snd pf)) fs.
  Variables (st1 : store) (ac1 : list N) (st2 : store) (ac2 : list N).
  Hypothesis X1 : from_parser c1 n fs = Some (st1, ac1).
  Hypothesis X2 : from_parser c2 n fs = Some (st2, ac2).

  Lemma from_parser_cfg :
    WF c1 st1 /\ WF c2 st2 /\ ac_ok st1 ac1 /\ ac_ok st2 ac2 /\ adf_eq (abs st1 ac1) (abs st2 ac2).
  Proof.
    destruct (from_parser_ok c1 n fs st1 ac1 B HA X1) as (W1 & O1 & _ & E1).
    destruct (from_parser_ok c2 n fs st2 ac2 B HA X2) as (W2 & O2 & _ & E2).
    repeat (split; [assumption|]). apply (adf_eq_trans_r _ _ _ E1 E2).
  Qed.

  Theorem grounded_cfg_independent s1' g1 s2' g2 :
    grounded c1 st1 ac1 = Some (s1', g1) -> grounded c2 st2 ac2 = Some (s2', g2) ->
    interp_of g1 = interp_of g2.
  Proof.
    destruct from_parser_cfg as (W1 & W2 & O1 & O2 & EQ).
    apply (answers_determined_grounded c1 c2 st1 ac1 st2 ac2 s1' g1 s2' g2 W1 W2 O1 O2 EQ).
  Qed.

  Theorem complete_cfg_independent s1' l1 s2' l2 :
    complete c1 st1 ac1 = Some (s1', l1) -> complete c2 st2 ac2 = Some (s2', l2) ->
    (forall v, In v (map interp_of l1) <-> In v (map interp_of l2)) /\
    hd_error (map interp_of l1) = hd_error (map interp_of l2).
  Proof.
    destruct from_parser_cfg as (W1 & W2 & O1 & O2 & EQ).
    apply (answers_determined_complete c1 c2 st1 ac1 st2 ac2 s1' l1 s2' l2 W1 W2 O1 O2 EQ).
  Qed.

  Theorem stable_cfg_independent s1' l1 s2' l2 :
    stable c1 st1 ac1 = Some (s1', l1) -> stable c2 st2 ac2 = Some (s2', l2) ->
    forall v, In v (map interp_of l1) <-> In v (map interp_of l2).
  Proof.
    destruct from_parser_cfg as (W1 & W2 & O1 & O2 & EQ).
    apply (answers_determined_stable c1 c2 st1 ac1 st2 ac2 s1' l1 s2' l2 W1 W2 O1 O2 EQ).
  Qed.

  Theorem stable_with_prefilter_cfg_independent s1' l1 s2' l2 :
    stable_with_prefilter c1 st1 ac1 = Some (s1', l1) -> stable_with_prefilter c2 st2 ac2 = Some (s2', l2) ->
    forall v, In v (map interp_of l1) <-> In v (map interp_of l2).
  Proof.
    destruct from_parser_cfg as (W1 & W2 & O1 & O2 & EQ).
    apply (answers_determined_stable_with_prefilter c1 c2 st1 ac1 st2 ac2 s1' l1 s2' l2 W1 W2 O1 O2 EQ).
  Qed.

  (** the biodivine back-end (bridged into the same store): via the native answers of [c2] on
      both sides *)
  Theorem bio_grounded_cfg_independent s1' g1 s2' g2 :
    bio_grounded c1 st1 ac1 = Some (s1', g1) -> bio_grounded c2 st2 ac2 = Some (s2', g2) ->
    interp_of g1 = interp_of g2.
  Proof.
    intros Y1 Y2. destruct from_parser_cfg as (W1 & W2 & O1 & O2 & EQ).
    destruct (bio_grounded_exact c1 st1 ac1 s1' g1 W1 O1 Y1) as (_ & _ & _ & G1).
    destruct (bio_grounded_exact c2 st2 ac2 s2' g2 W2 O2 Y2) as (_ & _ & _ & G2).
    apply (Grounded_unique (abs st2 ac2)); [|exact G2]. apply (Grounded_feq _ _ _ EQ G1).
  Qed.

  Theorem bio_complete_cfg_independent s1' l1 s2' l2 :
    bio_complete c1 st1 ac1 = Some (s1', l1) -> bio_complete c2 st2 ac2 = Some (s2', l2) ->
    (forall v, In v (map interp_of l1) <-> In v (map interp_of l2)) /\
    hd_error (map interp_of l1) = hd_error (map interp_of l2).
  Proof.
    intros Y1 Y2. destruct from_parser_cfg as (W1 & W2 & O1 & O2 & EQ).
    destruct (bio_complete_exact c1 st1 ac1 s1' l1 W1 O1 Y1) as (_ & _ & _ & H1 & g1 & G1 & Hd1).
    destruct (bio_complete_exact c2 st2 ac2 s2' l2 W2 O2 Y2) as (_ & _ & _ & H2 & g2 & G2 & Hd2).
    split.
    - intros v. rewrite H1, H2. apply (Complete_adf_eq _ _ v EQ).
    - rewrite Hd1, Hd2. f_equal. apply (Grounded_unique (abs st2 ac2)); [|exact G2].
      apply (Grounded_feq _ _ _ EQ G1).
  Qed.

  Theorem bio_stable_cfg_independent s1' l1 s2' l2 :
    bio_stable c1 st1 ac1 = Some (s1', l1) -> bio_stable c2 st2 ac2 = Some (s2', l2) ->
    forall v, In v (map interp_of l1) <-> In v (map interp_of l2).
  Proof.
    intros Y1 Y2 v. destruct from_parser_cfg as (W1 & W2 & O1 & O2 & EQ).
    destruct (bio_stable_exact c1 st1 ac1 s1' l1 W1 O1 Y1) as (_ & _ & _ & H1).
    destruct (bio_stable_exact c2 st2 ac2 s2' l2 W2 O2 Y2) as (_ & _ & _ & H2).
    rewrite H1, H2. apply (Stable_adf_eq _ _ v EQ).
  Qed.

  (** mixed: one back-end under [c1], the other under [c2] *)
  Theorem bio_native_stable_cfg_independent s1' l1 s2' l2 :
    bio_stable c1 st1 ac1 = Some (s1', l1) -> stable c2 st2 ac2 = Some (s2', l2) ->
    forall v, In v (map interp_of l1) <-> In v (map interp_of l2).
  Proof.
    destruct from_parser_cfg as (W1 & W2 & O1 & O2 & EQ).
    apply (answers_determined_bio_native_stable c1 c2 st1 ac1 st2 ac2 s1' l1 s2' l2 W1 W2 O1 O2 EQ).
  Qed.
End FromParser.

(* ================================================================== *)
(** * the simulation: [from_parser] builds the same table and the same handles *)

Lemma mk_vars_sim c1 c2 : forall n s1 s2 v, same_tables s1 s2 ->
  same_tables (mk_vars c1 s1 n v) (mk_vars c2 s2 n v).
Proof.
  induction n as [|n IH]; intros s1 s2 v ST; cbn [mk_vars]; [exact ST|].
  destruct (variable c1 s1 v) as [a1 r1] eqn:V1. destruct (variable c2 s2 v) as [a2 r2] eqn:V2.
  cbn [fst]. apply IH. apply (variable_sim c1 c2 s1 s2 v a1 r1 a2 r2 ST V1 V2).
Qed.

Definition term_sim_spec (c1 c2 : cfg) (f : formula) : Prop :=
  forall s1 s2 s1' t1 s2' t2, WF c1 s1 -> WF c2 s2 -> same_tables s1 s2 ->
    term c1 s1 f = Some (s1', t1) -> term c2 s2 f = Some (s2', t2) -> t1 = t2 /\ same_tables s1' s2'.

Lemma term_bin_sim c1 c2 (op : cfg -> store -> N -> N -> option (store * N)) g h :
  op2_sim op -> atoms_lt VBOT g -> atoms_lt VBOT h ->
  term_sim_spec c1 c2 g -> term_sim_spec c1 c2 h ->
  forall s1 s2 s1' t1 s2' t2, WF c1 s1 -> WF c2 s2 -> same_tables s1 s2 ->
    (do (a1, u1) <- term c1 s1 g; do (a2, u2) <- term c1 a1 h; op c1 a2 u1 u2) = Some (s1', t1) ->
    (do (b1, v1) <- term c2 s2 g; do (b2, v2) <- term c2 b1 h; op c2 b2 v1 v2) = Some (s2', t2) ->
    t1 = t2 /\ same_tables s1' s2'.
Proof.
  intros Hop Ag Ah Sg Sh s1 s2 s1' t1 s2' t2 WF1 WF2 ST Y1 Y2.
  apply obind_inv in Y1. destruct Y1 as ([a1 u1] & G1 & Y1).
  apply obind_inv in Y1. destruct Y1 as ([a2 u2] & H1 & Y1).
  apply obind_inv in Y2. destruct Y2 as ([b1 v1] & G2 & Y2).
  apply obind_inv in Y2. destruct Y2 as ([b2 v2] & H2 & Y2).
  destruct (Sg s1 s2 a1 u1 b1 v1 WF1 WF2 ST G1 G2) as (<- & STa).
  destruct (term_ok c1 g Ag s1 a1 u1 WF1 G1) as (WFa1 & _ & Hu1 & _).
  destruct (term_ok c2 g Ag s2 b1 u1 WF2 G2) as (WFb1 & _).
  destruct (Sh a1 b1 a2 u2 b2 v2 WFa1 WFb1 STa H1 H2) as (<- & STb).
  destruct (term_ok c1 h Ah a1 a2 u2 WFa1 H1) as (WFa2 & Ea2 & Hu2 & _).
  destruct (term_ok c2 h Ah b1 b2 u2 WFb1 H2) as (WFb2 & _).
  apply (Hop c1 c2 a2 b2 u1 u2 s1' t1 s2' t2 WFa2 WFb2 STb (extends_lt a1 a2 u1 Ea2 Hu1) Hu2 Y1 Y2).
Qed.

Lemma term_sim c1 c2 f : atoms_lt VBOT f -> term_sim_spec c1 c2 f.
Proof.
  induction f; cbn [atoms_lt]; intros A s1 s2 s1' t1 s2' t2 WF1 WF2 ST Y1 Y2.
  - cbn [term] in Y1, Y2. inversion Y1; inversion Y2; subst. auto.
  - cbn [term] in Y1, Y2. inversion Y1; inversion Y2; subst. auto.
  - cbn [term] in Y1, Y2. inversion Y1 as [V1]. inversion Y2 as [V2].
    apply (variable_sim c1 c2 s1 s2 x s1' t1 s2' t2 ST V1 V2).
  - cbn [term] in Y1, Y2.
    apply obind_inv in Y1. destruct Y1 as ([a1 u1] & G1 & Y1).
    apply obind_inv in Y2. destruct Y2 as ([b1 v1] & G2 & Y2).
    destruct (IHf A s1 s2 a1 u1 b1 v1 WF1 WF2 ST G1 G2) as (<- & STa).
    destruct (term_ok c1 f A s1 a1 u1 WF1 G1) as (WFa1 & _ & Hu1 & _).
    destruct (term_ok c2 f A s2 b1 u1 WF2 G2) as (WFb1 & _).
    apply (bnot_sim c1 c2 a1 b1 u1 s1' t1 s2' t2 WFa1 WFb1 STa Hu1 Y1 Y2).
  - destruct A as [A1 A2]. cbn [term] in Y1, Y2.
    apply (term_bin_sim c1 c2 band f1 f2 band_sim A1 A2 (IHf1 A1) (IHf2 A2) s1 s2 s1' t1 s2' t2 WF1 WF2 ST Y1 Y2).
  - destruct A as [A1 A2]. cbn [term] in Y1, Y2.
    apply (term_bin_sim c1 c2 bor f1 f2 bor_sim A1 A2 (IHf1 A1) (IHf2 A2) s1 s2 s1' t1 s2' t2 WF1 WF2 ST Y1 Y2).
  - destruct A as [A1 A2]. cbn [term] in Y1, Y2.
    apply (term_bin_sim c1 c2 bimp f1 f2 bimp_sim A1 A2 (IHf1 A1) (IHf2 A2) s1 s2 s1' t1 s2' t2 WF1 WF2 ST Y1 Y2).
  - destruct A as [A1 A2]. cbn [term] in Y1, Y2.
    apply (term_bin_sim c1 c2 bxor f1 f2 bxor_sim A1 A2 (IHf1 A1) (IHf2 A2) s1 s2 s1' t1 s2' t2 WF1 WF2 ST Y1 Y2).
  - destruct A as [A1 A2]. cbn [term] in Y1, Y2.
    apply (term_bin_sim c1 c2 biff f1 f2 biff_sim A1 A2 (IHf1 A1) (IHf2 A2) s1 s2 s1' t1 s2' t2 WF1 WF2 ST Y1 Y2).
Qed.

Lemma compile_acs_sim c1 c2 : forall fs s1 s2 ac s1' ac1 s2' ac2,
  Forall (fun pf => atoms_lt VBOT (snd pf)) fs ->
  WF c1 s1 -> WF c2 s2 -> same_tables s1 s2 ->
  compile_acs c1 s1 ac fs = Some (s1', ac1) -> compile_acs c2 s2 ac fs = Some (s2', ac2) ->
  ac1 = ac2 /\ same_tables s1' s2'.
Proof.
  induction fs as [|[pos f] fs IH]; intros s1 s2 ac s1' ac1 s2' ac2 HA WF1 WF2 ST Y1 Y2.
  - cbn [compile_acs] in Y1, Y2. inversion Y1; inversion Y2; subst. auto.
  - cbn [compile_acs] in Y1, Y2. inversion HA as [|? ? Af HA']; subst. cbn [snd] in Af.
    apply obind_inv in Y1. destruct Y1 as ([a1 u1] & G1 & Y1).
    apply obind_inv in Y2. destruct Y2 as ([b1 v1] & G2 & Y2).
    destruct (term_sim c1 c2 f Af s1 s2 a1 u1 b1 v1 WF1 WF2 ST G1 G2) as (<- & STa).
    destruct (term_ok c1 f Af s1 a1 u1 WF1 G1) as (WFa1 & _).
    destruct (term_ok c2 f Af s2 b1 u1 WF2 G2) as (WFb1 & _).
    apply (IH a1 b1 _ s1' ac1 s2' ac2 HA' WFa1 WFb1 STa Y1 Y2).
Qed.

Theorem from_parser_sim c1 c2 n fs st1 ac1 st2 ac2 :
  N.of_nat n <= VBOT -> Forall (fun pf => atoms_lt (N.of_nat n) (snd pf)) fs ->
  from_parser c1 n fs = Some (st1, ac1) -> from_parser c2 n fs = Some (st2, ac2) ->
  ac1 = ac2 /\ table_of st1 = table_of st2 /\ same_tables st1 st2.
Proof.
  intros B HA X1 X2. unfold from_parser in X1, X2.
  destruct (mk_vars_ok c1 n (init c1) 0 (init_wf c1) ltac:(lia)) as (WF1 & _).
  destruct (mk_vars_ok c2 n (init c2) 0 (init_wf c2) ltac:(lia)) as (WF2 & _).
  pose proof (mk_vars_sim c1 c2 n (init c1) (init c2) 0 (init_same_tables c1 c2)) as ST0.
  assert (HA' : Forall (fun pf => atoms_lt VBOT (snd pf)) fs).
  { eapply Forall_impl; [|exact HA]. intros pf. apply atoms_lt_mono. exact B. }
  destruct (compile_acs_sim c1 c2 fs _ _ _ st1 ac1 st2 ac2 HA' WF1 WF2 ST0 X1 X2) as (E & ST).
  split; [exact E|]. split; [apply sn_table_of, ST|exact ST].
Qed.

(* ================================================================== *)
(** * the count cache of the store built by [from_parser] *)

Lemma variable_cntinv c st v st' r : adhoc c <= 2 -> WF c st -> CntInv c st -> v < VBOT ->
  variable c st v = (st', r) -> CntInv c st'.
Proof.
  intros Ha WFst C Hv X. unfold variable in X. pose proof (wf_n c st WFst) as W.
  apply (mk_node_cntok c st v 0 1 st' r WFst Ha C Hv (size_gt_0 c st WFst) (size_gt_1 c st WFst)); [| |exact X].
  - rewrite (topv_0 st W). exact Hv.
  - rewrite (topv_1 st W). pose proof VBOT_lt_VTOP. lia.
Qed.

Lemma ite_cntinv c st i t e st' r : adhoc c <= 2 -> WF c st -> CntInv c st ->
  i < size st -> t < size st -> e < size st -> ite c st i t e = Some (st', r) -> CntInv c st'.
Proof. intros Ha. unfold ite. apply ite_f_cntok. exact Ha. Qed.

Definition term_cnt_spec (c : cfg) (f : formula) : Prop :=
  forall st st' r, WF c st -> CntInv c st -> term c st f = Some (st', r) -> CntInv c st'.

Lemma term_bin_cntinv c (op : cfg -> store -> N -> N -> option (store * N)) g h :
  adhoc c <= 2 -> atoms_lt VBOT g -> atoms_lt VBOT h ->
  (forall st a b st' r, WF c st -> CntInv c st -> a < size st -> b < size st ->
     op c st a b = Some (st', r) -> CntInv c st') ->
  term_cnt_spec c g -> term_cnt_spec c h ->
  forall st st' r, WF c st -> CntInv c st ->
    (do (s1, t1) <- term c st g; do (s2, t2) <- term c s1 h; op c s2 t1 t2) = Some (st', r) -> CntInv c st'.
Proof.
  intros Ha Ag Ah Hop Cg Ch st st' r WFst C X.
  apply obind_inv in X. destruct X as ([s1 t1] & X1 & X).
  apply obind_inv in X. destruct X as ([s2 t2] & X2 & X).
  destruct (term_ok c g Ag st s1 t1 WFst X1) as (WF1 & _ & Ht1 & _).
  pose proof (Cg st s1 t1 WFst C X1) as C1.
  destruct (term_ok c h Ah s1 s2 t2 WF1 X2) as (WF2 & E2 & Ht2 & _).
  pose proof (Ch s1 s2 t2 WF1 C1 X2) as C2.
  apply (Hop s2 t1 t2 st' r WF2 C2 (extends_lt s1 s2 t1 E2 Ht1) Ht2 X).
Qed.

Lemma bnot_cntinv c st a st' r : adhoc c <= 2 -> WF c st -> CntInv c st -> a < size st ->
  bnot c st a = Some (st', r) -> CntInv c st'.
Proof.
  intros Ha WFst C Hs. unfold bnot.
  apply (ite_cntinv c st a 0 1 st' r Ha WFst C Hs (size_gt_0 c st WFst) (size_gt_1 c st WFst)).
Qed.

Lemma term_cntinv c f : adhoc c <= 2 -> atoms_lt VBOT f -> term_cnt_spec c f.
Proof.
  intros Ha. induction f; cbn [atoms_lt]; intros A st st' r WFst C X.
  - cbn [term] in X. inversion X; subst. exact C.
  - cbn [term] in X. inversion X; subst. exact C.
  - cbn [term] in X. inversion X as [V]. apply (variable_cntinv c st x st' r Ha WFst C A V).
  - cbn [term] in X. apply obind_inv in X. destruct X as ([s1 t1] & X1 & X).
    destruct (term_ok c f A st s1 t1 WFst X1) as (WF1 & _ & Ht1 & _).
    apply (bnot_cntinv c s1 t1 st' r Ha WF1 (IHf A st s1 t1 WFst C X1) Ht1 X).
  - destruct A as [A1 A2]. cbn [term] in X.
    apply (term_bin_cntinv c band f1 f2 Ha A1 A2) with (st := st) (r := r); auto.
    intros s a b s' r0 WFs Cs Ha0 Hb0. unfold band.
    apply (ite_cntinv c s a b 0 s' r0 Ha WFs Cs Ha0 Hb0 (size_gt_0 c s WFs)).
  - destruct A as [A1 A2]. cbn [term] in X.
    apply (term_bin_cntinv c bor f1 f2 Ha A1 A2) with (st := st) (r := r); auto.
    intros s a b s' r0 WFs Cs Ha0 Hb0. unfold bor.
    apply (ite_cntinv c s a 1 b s' r0 Ha WFs Cs Ha0 (size_gt_1 c s WFs) Hb0).
  - destruct A as [A1 A2]. cbn [term] in X.
    apply (term_bin_cntinv c bimp f1 f2 Ha A1 A2) with (st := st) (r := r); auto.
    intros s a b s' r0 WFs Cs Ha0 Hb0. unfold bimp.
    apply (ite_cntinv c s a b 1 s' r0 Ha WFs Cs Ha0 Hb0 (size_gt_1 c s WFs)).
  - destruct A as [A1 A2]. cbn [term] in X.
    apply (term_bin_cntinv c bxor f1 f2 Ha A1 A2) with (st := st) (r := r); auto.
    intros s a b s' r0 WFs Cs Ha0 Hb0 Y. unfold bxor in Y.
    apply obind_inv in Y. destruct Y as ([s1 nb] & Y1 & Y).
    destruct (bnot_ok c s b s1 nb WFs Hb0 Y1) as (WF1 & E1 & Hnb & _).
    pose proof (bnot_cntinv c s b s1 nb Ha WFs Cs Hb0 Y1) as C1.
    apply (ite_cntinv c s1 a nb b s' r0 Ha WF1 C1 (extends_lt s s1 a E1 Ha0) Hnb (extends_lt s s1 b E1 Hb0) Y).
  - destruct A as [A1 A2]. cbn [term] in X.
    apply (term_bin_cntinv c biff f1 f2 Ha A1 A2) with (st := st) (r := r); auto.
    intros s a b s' r0 WFs Cs Ha0 Hb0 Y. unfold biff in Y.
    apply obind_inv in Y. destruct Y as ([s1 nb] & Y1 & Y).
    destruct (bnot_ok c s b s1 nb WFs Hb0 Y1) as (WF1 & E1 & Hnb & _).
    pose proof (bnot_cntinv c s b s1 nb Ha WFs Cs Hb0 Y1) as C1.
    apply (ite_cntinv c s1 a b nb s' r0 Ha WF1 C1 (extends_lt s s1 a E1 Ha0) (extends_lt s s1 b E1 Hb0) Hnb Y).
Qed.

Lemma mk_vars_cntinv c : adhoc c <= 2 -> forall n st v, WF c st -> CntInv c st -> v + N.of_nat n <= VBOT ->
  CntInv c (mk_vars c st n v).
Proof.
  intros Ha. induction n as [|n IH]; intros st v WFst C Bn; cbn [mk_vars]; [exact C|].
  destruct (variable c st v) as [s1 r] eqn:V. cbn [fst].
  assert (Hv : v < VBOT) by lia.
  destruct (variable_ok c st v s1 r WFst Hv V) as (WF1 & _).
  apply IH; [exact WF1| |lia]. apply (variable_cntinv c st v s1 r Ha WFst C Hv V).
Qed.

Lemma compile_acs_cntinv c : adhoc c <= 2 -> forall fs st ac st' ac',
  Forall (fun pf => atoms_lt VBOT (snd pf)) fs -> WF c st -> CntInv c st ->
  compile_acs c st ac fs = Some (st', ac') -> CntInv c st'.
Proof.
  intros Ha. induction fs as [|[pos f] fs IH]; intros st ac st' ac' HA WFst C X.
  - cbn [compile_acs] in X. inversion X; subst. exact C.
  - cbn [compile_acs] in X. inversion HA as [|? ? Af HA']; subst. cbn [snd] in Af.
    apply obind_inv in X. destruct X as ([s1 t] & X1 & X).
    destruct (term_ok c f Af st s1 t WFst X1) as (WF1 & _).
    apply (IH s1 _ st' ac' HA' WF1 (term_cntinv c f Ha Af st s1 t WFst C X1) X).
Qed.

Theorem from_parser_cntok c n fs st ac : adhoc c <= 2 ->
  N.of_nat n <= VBOT -> Forall (fun pf => atoms_lt (N.of_nat n) (snd pf)) fs ->
  from_parser c n fs = Some (st, ac) -> CntInv c st /\ CntOK c st.
Proof.
  intros Ha B HA X. unfold from_parser in X.
  destruct (mk_vars_ok c n (init c) 0 (init_wf c) ltac:(lia)) as (WF0 & _).
  pose proof (mk_vars_cntinv c Ha n (init c) 0 (init_wf c) (init_cntinv c) ltac:(lia)) as C0.
  assert (HA' : Forall (fun pf => atoms_lt VBOT (snd pf)) fs).
  { eapply Forall_impl; [|exact HA]. intros pf. apply atoms_lt_mono. exact B. }
  pose proof (compile_acs_cntinv c Ha fs _ _ st ac HA' WF0 C0 X) as C.
  split; [exact C|apply C].
Qed.

(* ================================================================== *)
(** * the branching heuristics choose the same in all configurations *)

Lemma paths_ro_cfg_independent c1 c2 s1 s2 t :
  WF c1 s1 -> CntOK c1 s1 -> WF c2 s2 -> CntOK c2 s2 -> same_nodes s1 s2 -> t < size s1 ->
  paths_ro c1 s1 t = paths_ro c2 s2 t.
Proof.
  intros WF1 C1 WF2 C2 SN Ht. unfold paths_ro.
  assert (Ht2 : t < size s2) by (rewrite <- (sn_size s1 s2 SN); exact Ht).
  apply (queries_cfg_independent c1 c2 s1 s2 t t true true WF1 C1 WF2 C2 Ht Ht2).
  intros a. apply sn_den. exact SN.
Qed.

Lemma same_fun_refl_list s1 s2 l : same_nodes s1 s2 -> Forall (fun h => h < size s1) l ->
  Forall2 (same_fun s1 s2) l l.
Proof.
  intros SN H. induction H as [|h l Hh _ IH]; constructor; [|exact IH].
  split; [exact Hh|]. split; [rewrite <- (sn_size s1 s2 SN); exact Hh|]. intros a. apply sn_den. exact SN.
Qed.

(** [min_by] only looks at the comparison on the elements of the list, and picks one of them *)
Lemma min_by_ext_in {A} (cmp1 cmp2 : A -> A -> comparison) l :
  (forall x y, In x l -> In y l -> cmp1 x y = cmp2 x y) -> min_by cmp1 l = min_by cmp2 l.
Proof.
  destruct l as [|x r]; [reflexivity|]. intros H. cbn [min_by]. f_equal.
  assert (G : forall r' m, incl r' (x :: r) -> In m (x :: r) ->
    fold_left (fun m y => match cmp1 m y with Gt => y | _ => m end) r' m =
    fold_left (fun m y => match cmp2 m y with Gt => y | _ => m end) r' m).
  { induction r' as [|y r' IH]; intros m Hi Hm; [reflexivity|]. cbn [fold_left].
    assert (Hy : In y (x :: r)) by (apply Hi; left; reflexivity).
    rewrite (H m y Hm Hy).
    apply IH; [intros z Hz; apply Hi; right; exact Hz|]. destruct (cmp2 m y); assumption. }
  apply G; [apply incl_tl, incl_refl|left; reflexivity].
Qed.

Lemma fold_min_in {A} (cmp : A -> A -> comparison) : forall r m,
  In (fold_left (fun m y => match cmp m y with Gt => y | _ => m end) r m) (m :: r).
Proof.
  induction r as [|a r IH]; intros m; cbn [fold_left]; [left; reflexivity|].
  destruct (IH (match cmp m a with Gt => a | _ => m end)) as [E|I].
  - rewrite <- E. destruct (cmp m a); [left|left|right; left]; reflexivity.
  - right. right. exact I.
Qed.

Lemma min_by_In {A} (cmp : A -> A -> comparison) l m : min_by cmp l = Some m -> In m l.
Proof.
  destruct l as [|x r]; [discriminate|]. cbn [min_by]. intros E. inversion E. apply fold_min_in.
Qed.

Lemma heu_pick_ext (cmp1 cmp2 : nat * N -> nat * N -> comparison) (pr1 pr2 : N -> N * N) l :
  (forall x y, In x l -> In y l -> cmp1 x y = cmp2 x y) ->
  (forall i t, In (i, t) l -> pr1 t = pr2 t) ->
  match min_by cmp1 l with Some (i, t) => Some (i, b2t (mc_more_models (pr1 t))) | None => None end =
  match min_by cmp2 l with Some (i, t) => Some (i, b2t (mc_more_models (pr2 t))) | None => None end.
Proof.
  intros H1 H2. rewrite (min_by_ext_in cmp1 cmp2 l H1).
  destruct (min_by cmp2 l) as [[i t]|] eqn:M; [|reflexivity].
  rewrite (H2 i t (min_by_In _ _ _ M)). reflexivity.
Qed.

Section Heuristics.
  Variables (c1 c2 : cfg) (s1 s2 : store) (interp : list N).
  Hypothesis WF1 : WF c1 s1.
  Hypothesis C1 : CntOK c1 s1.
  Hypothesis WF2 : WF c2 s2.
  Hypothesis C2 : CntOK c2 s2.
  Hypothesis SN : same_nodes s1 s2.
  Hypothesis Hint : Forall (fun h => h < size s1) interp.

  Let impacts v := impact_cfg_independent c1 c2 s1 s2 interp interp v WF1 WF2
                     (same_fun_refl_list s1 s2 interp SN Hint).

  (** the comparison functions of the counting-guided search *)
  Lemma heu_a_cfg_independent l r : snd l < size s1 -> snd r < size s1 ->
    heu_a c1 s1 interp l r = heu_a c2 s2 interp l r.
  Proof.
    intros Hl Hr. unfold heu_a.
    rewrite (proj1 (impacts (N.of_nat (fst r)))), (proj1 (impacts (N.of_nat (fst l)))).
    rewrite (proj2 (impacts (N.of_nat (fst r)))), (proj2 (impacts (N.of_nat (fst l)))).
    rewrite (paths_ro_cfg_independent c1 c2 s1 s2 (snd l) WF1 C1 WF2 C2 SN Hl).
    rewrite (paths_ro_cfg_independent c1 c2 s1 s2 (snd r) WF1 C1 WF2 C2 SN Hr). reflexivity.
  Qed.

  Lemma heu_b_cfg_independent l r : snd l < size s1 -> snd r < size s1 ->
    heu_b c1 s1 interp l r = heu_b c2 s2 interp l r.
  Proof.
    intros Hl Hr. unfold heu_b.
    rewrite (proj1 (impacts (N.of_nat (fst r)))), (proj1 (impacts (N.of_nat (fst l)))).
    rewrite (paths_ro_cfg_independent c1 c2 s1 s2 (snd l) WF1 C1 WF2 C2 SN Hl).
    rewrite (paths_ro_cfg_independent c1 c2 s1 s2 (snd r) WF1 C1 WF2 C2 SN Hr). reflexivity.
  Qed.

  Lemma in_enum_bound p : In p (enum interp) -> snd p < size s1.
  Proof.
    intros Hp. unfold enum in Hp. destruct p as [i t]. apply in_combine_r in Hp. cbn [snd].
    apply (proj1 (Forall_forall _ _) Hint t Hp).
  Qed.

  Let undecided := filter (fun p : nat * N => negb (is_tv (snd p))) (enum interp).
  Lemma undecided_bound p : In p undecided -> snd p < size s1.
  Proof. intros Hp. apply filter_In in Hp. apply in_enum_bound, Hp. Qed.

  (** the branching heuristics of the nogood-learning search *)
  Theorem heu_mc_minpaths_maxvarimp_cfg_independent :
    heu_mc_minpaths_maxvarimp c1 s1 interp = heu_mc_minpaths_maxvarimp c2 s2 interp.
  Proof.
    unfold heu_mc_minpaths_maxvarimp. cbv zeta. fold undecided. apply heu_pick_ext.
    - intros x y Hx Hy.
      rewrite (paths_ro_cfg_independent c1 c2 s1 s2 (snd x) WF1 C1 WF2 C2 SN (undecided_bound x Hx)).
      rewrite (paths_ro_cfg_independent c1 c2 s1 s2 (snd y) WF1 C1 WF2 C2 SN (undecided_bound y Hy)).
      rewrite (proj1 (impacts (N.of_nat (fst x)))), (proj1 (impacts (N.of_nat (fst y)))). reflexivity.
    - intros i t Hin. apply (paths_ro_cfg_independent c1 c2 s1 s2 t WF1 C1 WF2 C2 SN (undecided_bound _ Hin)).
  Qed.

  Theorem heu_mc_maxvarimp_minpaths_cfg_independent :
    heu_mc_maxvarimp_minpaths c1 s1 interp = heu_mc_maxvarimp_minpaths c2 s2 interp.
  Proof.
    unfold heu_mc_maxvarimp_minpaths. cbv zeta. fold undecided. apply heu_pick_ext.
    - intros x y Hx Hy.
      rewrite (paths_ro_cfg_independent c1 c2 s1 s2 (snd x) WF1 C1 WF2 C2 SN (undecided_bound x Hx)).
      rewrite (paths_ro_cfg_independent c1 c2 s1 s2 (snd y) WF1 C1 WF2 C2 SN (undecided_bound y Hy)).
      rewrite (proj1 (impacts (N.of_nat (fst x)))), (proj1 (impacts (N.of_nat (fst y)))). reflexivity.
    - intros i t Hin. apply (paths_ro_cfg_independent c1 c2 s1 s2 t WF1 C1 WF2 C2 SN (undecided_bound _ Hin)).
  Qed.

  (** the choice of the counting-guided search: candidate selection by [min_by (heu ...)] *)
  Theorem count_choice_cfg_independent (cands : list (nat * N)) :
    (forall p, In p cands -> snd p < size s1) ->
    min_by (heu_a c1 s1 interp) cands = min_by (heu_a c2 s2 interp) cands /\
    min_by (heu_b c1 s1 interp) cands = min_by (heu_b c2 s2 interp) cands.
  Proof.
    intros Hc. split; apply min_by_ext_in; intros x y Hx Hy.
    - apply heu_a_cfg_independent; apply Hc; assumption.
    - apply heu_b_cfg_independent; apply Hc; assumption.
  Qed.
End Heuristics.

(** instance: right after [from_parser], under any two configurations with a meaningful value
    of [adhoc], the heuristics see the same store and choose the same *)
Corollary heuristics_after_from_parser c1 c2 n fs st1 ac1 st2 ac2 :
  adhoc c1 <= 2 -> adhoc c2 <= 2 ->
  N.of_nat n <= VBOT -> Forall (fun pf => atoms_lt (N.of_nat n) (snd pf)) fs ->
  from_parser c1 n fs = Some (st1, ac1) -> from_parser c2 n fs = Some (st2, ac2) ->
  ac1 = ac2 /\
  heu_mc_minpaths_maxvarimp c1 st1 ac1 = heu_mc_minpaths_maxvarimp c2 st2 ac2 /\
  heu_mc_maxvarimp_minpaths c1 st1 ac1 = heu_mc_maxvarimp_minpaths c2 st2 ac2.
Proof.
  intros A1 A2 B HA X1 X2.
  destruct (from_parser_sim c1 c2 n fs st1 ac1 st2 ac2 B HA X1 X2) as (<- & _ & (SN & _)).
  destruct (from_parser_ok c1 n fs st1 ac1 B HA X1) as (W1 & (O1 & _) & _).
  destruct (from_parser_ok c2 n fs st2 ac1 B HA X2) as (W2 & _).
  destruct (from_parser_cntok c1 n fs st1 ac1 A1 B HA X1) as (_ & K1).
  destruct (from_parser_cntok c2 n fs st2 ac1 A2 B HA X2) as (_ & K2).
  split; [reflexivity|]. split.
  - apply heu_mc_minpaths_maxvarimp_cfg_independent; assumption.
  - apply heu_mc_maxvarimp_minpaths_cfg_independent; assumption.
Qed.

Print Assumptions from_parser_cfg.
Print Assumptions grounded_cfg_independent.
Print Assumptions complete_cfg_independent.
Print Assumptions stable_cfg_independent.
Print Assumptions stable_with_prefilter_cfg_independent.
Print Assumptions bio_grounded_cfg_independent.
Print Assumptions bio_complete_cfg_independent.
Print Assumptions bio_stable_cfg_independent.
Print Assumptions bio_native_stable_cfg_independent.
Print Assumptions from_parser_sim.
Print Assumptions from_parser_cntok.
Print Assumptions heu_mc_minpaths_maxvarimp_cfg_independent.
Print Assumptions heu_mc_maxvarimp_minpaths_cfg_independent.
Print Assumptions count_choice_cfg_independent.
Print Assumptions heuristics_after_from_parser.
