(** C03, native back-end: [stability_check], [stable], [stable_with_prefilter],
    [stable_from_candidates] decide / enumerate exactly the stable models. *)
From Coq Require Import NArith List Bool Lia Arith.
From ADF Require Import Base.Maps Spec.Spec Spec.Theory Bdd.Store Bdd.WF Bdd.Node Bdd.Restrict Bdd.Ops
  Adf.Iter Adf.IterProofs Adf.Native Adf.NoGood Adf.NativeBase Adf.GroundedProofs Adf.CompleteProofs.
Import ListNotations.
Local Open Scope N_scope.

Definition all_tv (v : list N) : Prop := Forall (fun h => is_tv h = true) v.

(* ------------------------------------------------------------------ *)
(** * the reduct, computed by [apply_interp c true] *)

Lemma reduct_abs s ac v s1 red :
  Forall2 (fun h a => feq (den s1 h) (fun x => den s a (ovl true v 0 x))) red ac ->
  adf_eq (abs s1 red) (reduct (abs s ac) (interp_of v)).
Proof.
  unfold adf_eq, abs, reduct. induction 1 as [|h a red ac Hha _ IH]; cbn [map]; constructor; auto.
  intros x. rewrite Hha. apply den_ext. intros i. apply ovl_mask.
Qed.

(** the common core of [stable_pred] and [stability_check] *)
Lemma reduct_grounded c s ac v s1 red s2 grd :
  WF c s -> valid s ac -> Forall (supported (length ac)) (abs s ac) ->
  length v = length ac -> all_tv v ->
  apply_interp c true s ac v = Some (s1, red) -> grounded_internal c s1 red = Some (s2, grd) ->
  WF c s2 /\ extends s s2 /\ length grd = length ac /\
  (Stable (abs s ac) (interp_of v) <-> interp_of grd = interp_of v).
Proof.
  intros WFs V S HL TV X1 X2.
  destruct (apply_interp_ok c true v ac s s1 red WFs V X1) as (WF1 & E1 & V1 & D1).
  destruct (grounded_internal_exact c s1 red s2 grd WF1 V1 X2) as (WF2 & E2 & L2 & V2 & HG & _).
  pose proof (Forall2_len _ _ _ D1) as L1.
  split; [exact WF2|]. split; [eapply extends_trans; eauto|]. split; [lia|].
  assert (HG' : Grounded (reduct (abs s ac) (interp_of v)) (interp_of grd)).
  { eapply Grounded_feq; [|exact HG]. apply (reduct_abs s ac v s1 red D1). }
  apply (stable_iff_reduct_grounded (abs s ac) (interp_of v)); auto.
  - rewrite interp_of_length, abs_length. exact HL.
  - apply two_valued_interp_of. exact TV.
  - rewrite abs_length. exact S.
Qed.

Lemma reduct_grounded_total c s ac v :
  WF c s -> valid s ac ->
  exists s1 red s2 grd,
    apply_interp c true s ac v = Some (s1, red) /\ grounded_internal c s1 red = Some (s2, grd).
Proof.
  intros WFs V.
  destruct (apply_interp_total c true v ac s WFs V) as (s1 & red & X1).
  destruct (apply_interp_ok c true v ac s s1 red WFs V X1) as (WF1 & E1 & V1 & D1).
  destruct (grounded_internal_total c s1 red WF1 V1) as (s2 & grd & X2).
  exists s1, red, s2, grd. split; assumption.
Qed.

(* ------------------------------------------------------------------ *)
(** * [stability_check] *)

(** C03: the stability check on a two-valued interpretation *)
Theorem stability_check_iff c st ac v st' b :
  WF c st -> ac_ok st ac -> length v = length ac -> Forall (fun h => is_tv h = true) v ->
  stability_check c st ac v = Some (st', b) ->
  WF c st' /\ extends st st' /\ (b = true <-> Stable (abs st ac) (interp_of v)).
Proof.
  intros WFst [V S] HL TV X. unfold stability_check in X.
  apply obind_inv in X. destruct X as ([s1 red] & X1 & X).
  apply obind_inv in X. destruct X as ([s2 grd] & X2 & X). inversion X; subst s2 b. clear X.
  destruct (reduct_grounded c st ac v s1 red st' grd WFst V S HL TV X1 X2) as (WF' & E' & Lg & Hst).
  split; [exact WF'|]. split; [exact E'|].
  rewrite forallb_compare_iff by lia. symmetry. exact Hst.
Qed.

Theorem stability_check_total c st ac v :
  WF c st -> ac_ok st ac -> exists st' b, stability_check c st ac v = Some (st', b).
Proof.
  intros WFst [V _]. unfold stability_check.
  destruct (reduct_grounded_total c st ac v WFst V) as (s1 & red & s2 & grd & X1 & X2).
  rewrite X1. cbn [obind]. rewrite X2. cbn [obind]. eauto.
Qed.

(* ------------------------------------------------------------------ *)
(** * [stable_pred] *)

Lemma stable_pred_ok c s ac v s' b :
  WF c s -> valid s ac -> Forall (supported (length ac)) (abs s ac) ->
  length v = length ac -> all_tv v ->
  stable_pred c ac s v = Some (s', b) ->
  WF c s' /\ extends s s' /\ (b = true <-> Stable (abs s ac) (interp_of v)).
Proof.
  intros WFs V S HL TV X. unfold stable_pred in X.
  apply obind_inv in X. destruct X as ([s1 red] & X1 & X).
  apply obind_inv in X. destruct X as ([s2 grd] & X2 & X). inversion X; subst s2 b. clear X.
  destruct (reduct_grounded c s ac v s1 red s' grd WFs V S HL TV X1 X2) as (WF' & E' & Lg & Hst).
  split; [exact WF'|]. split; [exact E'|].
  rewrite all_compare_inf_iff by lia. rewrite Hst. split; intros H; symmetry; exact H.
Qed.

(** ... relative to an older store in which the ADF was given *)
Lemma stable_pred_rel c st ac s v s' b :
  WF c st -> ac_ok st ac -> WF c s -> extends st s -> length v = length ac -> all_tv v ->
  stable_pred c ac s v = Some (s', b) ->
  WF c s' /\ extends s s' /\ (b = true <-> Stable (abs st ac) (interp_of v)).
Proof.
  intros WFst [V S] WFs E HL TV X.
  pose proof (abs_extends c st s ac WFst E V) as EQ.
  destruct (stable_pred_ok c s ac v s' b WFs (valid_extends st s ac E V)
              (supported_adf_eq _ _ _ EQ S) HL TV X) as (WF' & E' & Hb).
  split; [exact WF'|]. split; [exact E'|]. rewrite Hb. split; apply Stable_feq.
  - apply adf_eq_sym. exact EQ.
  - exact EQ.
Qed.

Lemma stable_pred_total c s ac v :
  WF c s -> valid s ac -> exists s' b, stable_pred c ac s v = Some (s', b).
Proof.
  intros WFs V. unfold stable_pred.
  destruct (reduct_grounded_total c s ac v WFs V) as (s1 & red & s2 & grd & X1 & X2).
  rewrite X1. cbn [obind]. rewrite X2. cbn [obind]. eauto.
Qed.

(* ------------------------------------------------------------------ *)
(** * completions of a vector of handles vs. two-valued interpretations *)

Lemma completion2_length g w : completion2 g w -> length w = length g.
Proof. intros H. symmetry. apply (Forall2_len _ _ _ H). Qed.

Lemma completion2_all_tv g w : completion2 g w -> all_tv w.
Proof.
  unfold completion2, all_tv. induction 1 as [|x y g w Hxy _ IH]; constructor; auto.
  destruct (is_tv x) eqn:Tx.
  - subst y. exact Tx.
  - destruct Hxy as [-> | ->]; reflexivity.
Qed.

Lemma completion2_lift : forall g v, info_le (interp_of g) v -> TwoValued v ->
  exists w, completion2 g w /\ interp_of w = v.
Proof.
  unfold completion2, info_le, interp_of, TwoValued.
  induction g as [|x g IH]; intros v H TV; inversion H as [|? y ? v' Hxy Hr]; subst.
  - exists []. split; [constructor|reflexivity].
  - inversion TV as [|? ? Hy TV']; subst.
    destruct (IH v' Hr TV') as (w & Hw & Ew).
    exists (term_of y x :: w). cbn [map]. split.
    + constructor; [|exact Hw].
      destruct (handle_cases x) as [-> | [-> | [H0 H1]]].
      * rewrite is_tv_0. rewrite info_0 in Hxy. destruct Hxy as [Hx|<-]; [discriminate|reflexivity].
      * rewrite is_tv_1. rewrite info_1 in Hxy. destruct Hxy as [Hx|<-]; [discriminate|reflexivity].
      * rewrite is_tv_undec by assumption. destruct y; cbn [term_of]; auto. contradiction.
    + f_equal; [|exact Ew].
      destruct y; cbn [term_of]; auto. contradiction.
Qed.

Lemma interp_of_inj_tv : forall w w', all_tv w -> all_tv w' -> interp_of w = interp_of w' -> w = w'.
Proof.
  unfold all_tv, interp_of. induction w as [|x w IH]; intros [|y w'] H H' E; try discriminate E; auto.
  inversion H as [|? ? Hx Hw]; inversion H' as [|? ? Hy Hw']; subst.
  cbn [map] in E. inversion E as [[E1 E2]]. f_equal; [|apply IH; assumption].
  apply is_tv_true in Hx, Hy.
  destruct Hx as [-> | ->], Hy as [-> | ->]; auto; discriminate E1.
Qed.

(* ------------------------------------------------------------------ *)
(** * [stable_from_candidates] *)

(** C03: filtering given two-valued candidates.  [filtered P cands l]: [l] is [cands] with the
    elements violating [P] removed (order and multiplicity preserved). *)
Theorem stable_from_candidates_filtered c st ac cands st' l : WF c st -> ac_ok st ac ->
  Forall (fun v => length v = length ac /\ Forall (fun h => is_tv h = true) v) cands ->
  stable_from_candidates c st ac cands = Some (st', l) ->
  WF c st' /\ extends st st' /\
  filtered (fun v => Stable (abs st ac) (interp_of v)) cands l.
Proof.
  intros WFst Hok HQ X. unfold stable_from_candidates in X.
  set (I := fun s => WF c s /\ extends st s).
  set (Q := fun v : list N => length v = length ac /\ all_tv v).
  set (P := fun v : list N => Stable (abs st ac) (interp_of v)).
  assert (Hp : forall s x s' b, I s -> Q x -> stable_pred c ac s x = Some (s', b) ->
             I s' /\ extends s s' /\ (b = true <-> P x)).
  { intros s x s' b [WFs Es] [Lx Tx] Xp.
    destruct (stable_pred_rel c st ac s x s' b WFst Hok WFs Es Lx Tx Xp) as (WF' & E' & Hb).
    split; [split; [exact WF'|eapply extends_trans; eauto]|]. split; [exact E'|exact Hb]. }
  destruct (filter_st_ok I Q P _ Hp cands st st' l (conj WFst (extends_refl st)) HQ X)
    as ([WF' E0'] & E' & Hf).
  split; [exact WF'|]. split; [exact E'|exact Hf].
Qed.

Theorem stable_from_candidates_exact c st ac cands st' l : WF c st -> ac_ok st ac ->
  Forall (fun v => length v = length ac /\ Forall (fun h => is_tv h = true) v) cands ->
  stable_from_candidates c st ac cands = Some (st', l) ->
  WF c st' /\ extends st st' /\
  (forall v, In v l <-> (In v cands /\ Stable (abs st ac) (interp_of v))) /\
  subseq l cands /\ (NoDup cands -> NoDup l) /\
  (NoDup (map interp_of cands) -> NoDup (map interp_of l)).
Proof.
  intros WFst Hok HQ X.
  destruct (stable_from_candidates_filtered c st ac cands st' l WFst Hok HQ X) as (WF' & E' & Hf).
  split; [exact WF'|]. split; [exact E'|]. split; [|split; [|split]].
  - apply (filtered_In _ _ _ Hf).
  - apply (filtered_subseq _ _ _ Hf).
  - apply (filtered_NoDup _ _ _ Hf).
  - apply (filtered_map_NoDup _ interp_of _ _ Hf).
Qed.

Theorem stable_from_candidates_total c st ac cands : WF c st -> ac_ok st ac ->
  exists st' l, stable_from_candidates c st ac cands = Some (st', l).
Proof.
  intros WFst [V S]. unfold stable_from_candidates.
  apply (filter_st_total (fun s => WF c s /\ extends st s) (fun _ => True)).
  - intros s x [WFs Es] _. apply stable_pred_total; [exact WFs|apply (valid_extends st s ac Es V)].
  - intros s x s' b [WFs Es] _ Xp. unfold stable_pred in Xp.
    apply obind_inv in Xp. destruct Xp as ([s1 red] & X1 & Xp).
    apply obind_inv in Xp. destruct Xp as ([s2 grd] & X2 & Xp). inversion Xp; subst s2 b. clear Xp.
    destruct (apply_interp_ok c true x ac s s1 red WFs (valid_extends st s ac Es V) X1) as (WF1 & E1 & V1 & _).
    destruct (grounded_internal_exact c s1 red s' grd WF1 V1 X2) as (WF2 & E2 & _).
    split; [exact WF2|]. eapply extends_trans; [exact Es|]. eapply extends_trans; eauto.
  - split; [exact WFst|apply extends_refl].
  - apply Forall_forall. intros; exact I.
Qed.

(* ------------------------------------------------------------------ *)
(** * [stable] and [stable_with_prefilter] *)

(** shared enumeration argument: a store-threading predicate that decides stability on the
    two-valued completions of the grounded vector, filtered over [it2_collect g] *)
Lemma stable_enumeration c st ac s1 g p st' l :
  WF c st -> ac_ok st ac ->
  WF c s1 -> extends st s1 -> length g = length ac -> Grounded (abs st ac) (interp_of g) ->
  (forall s x s' b, WF c s -> extends st s -> length x = length ac -> all_tv x ->
     p s x = Some (s', b) -> WF c s' /\ extends s s' /\ (b = true <-> Stable (abs st ac) (interp_of x))) ->
  filter_st p s1 (it2_collect g) = Some (st', l) ->
  WF c st' /\ extends st st' /\ NoDup (map interp_of l) /\
  (forall v, In v (map interp_of l) <-> Stable (abs st ac) v).
Proof.
  intros WFst Hok WF1 E1 Lg HG Hpred X.
  destruct (two_val_iter_exact g) as (_ & ND & Hin & _). cbv zeta in *.
  set (I := fun s => WF c s /\ extends st s).
  set (Q := fun v : list N => length v = length ac /\ all_tv v).
  set (P := fun v : list N => Stable (abs st ac) (interp_of v)).
  assert (Hp : forall s x s' b, I s -> Q x -> p s x = Some (s', b) ->
             I s' /\ extends s s' /\ (b = true <-> P x)).
  { intros s x s' b [WFs Es] [Lx Tx] Xp.
    destruct (Hpred s x s' b WFs Es Lx Tx Xp) as (WF' & E' & Hb).
    split; [split; [exact WF'|eapply extends_trans; eauto]|]. split; [exact E'|exact Hb]. }
  assert (HQ : Forall Q (it2_collect g)).
  { apply Forall_forall. intros w Hw. apply Hin in Hw. split.
    - rewrite (completion2_length g w Hw). exact Lg.
    - apply (completion2_all_tv g w Hw). }
  destruct (filter_st_ok I Q P _ Hp (it2_collect g) s1 st' l (conj WF1 E1) HQ X) as ([WF' E0'] & E' & Hf).
  split; [exact WF'|]. split; [exact E0'|]. split.
  - apply (filtered_map_NoDup P interp_of _ _ Hf).
    apply NoDup_map_on; [exact ND|].
    intros x y Hx Hy. apply Hin in Hx, Hy.
    apply interp_of_inj_tv; eapply completion2_all_tv; eauto.
  - intros v. rewrite in_map_iff. split.
    + intros (w & <- & Hw). apply (filtered_In P _ _ Hf w) in Hw. apply Hw.
    + intros Sv. pose proof Sv as [[Cv TVv] _].
      pose proof (grounded_below _ _ _ HG Cv) as L.
      destruct (completion2_lift g v L TVv) as (w & Hw & Ew).
      exists w. split; [exact Ew|]. apply (filtered_In P _ _ Hf w). split.
      * apply Hin. exact Hw.
      * unfold P. rewrite Ew. exact Sv.
Qed.

(** C03: Adf::stable *)
Theorem stable_exact c st ac st' l : WF c st -> ac_ok st ac -> stable c st ac = Some (st', l) ->
  WF c st' /\ extends st st' /\ NoDup (map interp_of l) /\
  (forall v, In v (map interp_of l) <-> Stable (abs st ac) v).
Proof.
  intros WFst Hok X. unfold stable in X.
  apply obind_inv in X. destruct X as ([s1 g] & X1 & X).
  destruct (grounded_exact c st ac s1 g WFst Hok X1) as (WF1 & E1 & Lg & Vg & HG & _).
  apply (stable_enumeration c st ac s1 g (stable_pred c ac) st' l WFst Hok WF1 E1 Lg HG); [|exact X].
  intros s x s' b WFs Es Lx Tx Xp. apply (stable_pred_rel c st ac s x s' b WFst Hok WFs Es Lx Tx Xp).
Qed.

(** the prefilter is a necessary condition, so it does not change the answer *)
Lemma stable_pre_pred_rel c st ac s v s' b :
  WF c st -> ac_ok st ac -> WF c s -> extends st s -> length v = length ac -> all_tv v ->
  stable_pre_pred c ac s v = Some (s', b) ->
  WF c s' /\ extends s s' /\ (b = true <-> Stable (abs st ac) (interp_of v)).
Proof.
  intros WFst Hok WFs E HL TV X. pose proof Hok as [V S]. unfold stable_pre_pred in X.
  apply obind_inv in X. destruct X as ([s1 ok] & X1 & X).
  destruct (apc_complete c st ac s v s1 ok WFst V WFs E HL X1) as (WF1 & E1 & Hok1).
  destruct ok.
  - destruct (stable_pred_rel c st ac s1 v s' b WFst Hok WF1 (extends_trans _ _ _ E E1) HL TV X)
      as (WF' & E' & Hb).
    split; [exact WF'|]. split; [eapply extends_trans; eauto|exact Hb].
  - change (all_compare_inf [0] [1]) with false in X. inversion X; subst s1 b. clear X.
    split; [exact WF1|]. split; [exact E1|]. split; [discriminate|].
    intros [[Cv _] _]. apply Hok1 in Cv. discriminate Cv.
Qed.

(** C03: Adf::stable_with_prefilter *)
Theorem stable_with_prefilter_exact c st ac st' l :
  WF c st -> ac_ok st ac -> stable_with_prefilter c st ac = Some (st', l) ->
  WF c st' /\ extends st st' /\ NoDup (map interp_of l) /\
  (forall v, In v (map interp_of l) <-> Stable (abs st ac) v).
Proof.
  intros WFst Hok X. unfold stable_with_prefilter in X.
  apply obind_inv in X. destruct X as ([s1 g] & X1 & X).
  destruct (grounded_exact c st ac s1 g WFst Hok X1) as (WF1 & E1 & Lg & Vg & HG & _).
  apply (stable_enumeration c st ac s1 g (stable_pre_pred c ac) st' l WFst Hok WF1 E1 Lg HG); [|exact X].
  intros s x s' b WFs Es Lx Tx Xp. apply (stable_pre_pred_rel c st ac s x s' b WFst Hok WFs Es Lx Tx Xp).
Qed.

(** the two enumerations return the same models in the same order *)
Corollary stable_with_prefilter_same_models c st ac s1 l1 s2 l2 :
  WF c st -> ac_ok st ac -> stable c st ac = Some (s1, l1) -> stable_with_prefilter c st ac = Some (s2, l2) ->
  forall v, In v (map interp_of l1) <-> In v (map interp_of l2).
Proof.
  intros WFst Hok X1 X2 v.
  destruct (stable_exact c st ac s1 l1 WFst Hok X1) as (_ & _ & _ & H1).
  destruct (stable_with_prefilter_exact c st ac s2 l2 WFst Hok X2) as (_ & _ & _ & H2).
  rewrite H1, H2. reflexivity.
Qed.

(* ------------------------------------------------------------------ *)
(** * totality *)

Lemma stable_pre_pred_total c st ac s v :
  WF c st -> valid st ac -> WF c s -> extends st s -> length v = length ac ->
  exists s' b, stable_pre_pred c ac s v = Some (s', b).
Proof.
  intros WFst V WFs E HL. unfold stable_pre_pred.
  destruct (apc_total c v ac v s WFs (valid_extends st s ac E V)) as (s1 & ok & X1).
  rewrite X1. cbn [obind].
  destruct (apc_complete c st ac s v s1 ok WFst V WFs E HL X1) as (WF1 & E1 & _).
  destruct ok; [|eauto].
  apply stable_pred_total; [exact WF1|].
  apply (valid_extends st s1 ac (extends_trans _ _ _ E E1) V).
Qed.

Theorem stable_total c st ac : WF c st -> ac_ok st ac -> exists st' l, stable c st ac = Some (st', l).
Proof.
  intros WFst Hok. pose proof Hok as [V S]. unfold stable.
  destruct (grounded_total c st ac WFst Hok) as (s1 & g & X1). rewrite X1. cbn [obind].
  destruct (grounded_exact c st ac s1 g WFst Hok X1) as (WF1 & E1 & Lg & Vg & HG & _).
  destruct (two_val_iter_exact g) as (_ & _ & Hin & _). cbv zeta in Hin.
  apply (filter_st_total (fun s => WF c s /\ extends st s)
                         (fun v : list N => length v = length ac /\ all_tv v)).
  - intros s x [WFs Es] _. apply stable_pred_total; [exact WFs|apply (valid_extends st s ac Es V)].
  - intros s x s' b [WFs Es] [Lx Tx] Xp.
    destruct (stable_pred_rel c st ac s x s' b WFst Hok WFs Es Lx Tx Xp) as (WF' & E' & _).
    split; [exact WF'|eapply extends_trans; eauto].
  - split; assumption.
  - apply Forall_forall. intros w Hw. apply Hin in Hw. split.
    + rewrite (completion2_length g w Hw). exact Lg.
    + apply (completion2_all_tv g w Hw).
Qed.

Theorem stable_with_prefilter_total c st ac : WF c st -> ac_ok st ac ->
  exists st' l, stable_with_prefilter c st ac = Some (st', l).
Proof.
  intros WFst Hok. pose proof Hok as [V S]. unfold stable_with_prefilter.
  destruct (grounded_total c st ac WFst Hok) as (s1 & g & X1). rewrite X1. cbn [obind].
  destruct (grounded_exact c st ac s1 g WFst Hok X1) as (WF1 & E1 & Lg & Vg & HG & _).
  destruct (two_val_iter_exact g) as (_ & _ & Hin & _). cbv zeta in Hin.
  apply (filter_st_total (fun s => WF c s /\ extends st s)
                         (fun v : list N => length v = length ac /\ all_tv v)).
  - intros s x [WFs Es] [Lx _]. apply (stable_pre_pred_total c st ac s x WFst V WFs Es Lx).
  - intros s x s' b [WFs Es] [Lx Tx] Xp.
    destruct (stable_pre_pred_rel c st ac s x s' b WFst Hok WFs Es Lx Tx Xp) as (WF' & E' & _).
    split; [exact WF'|eapply extends_trans; eauto].
  - split; assumption.
  - apply Forall_forall. intros w Hw. apply Hin in Hw. split.
    + rewrite (completion2_length g w Hw). exact Lg.
    + apply (completion2_all_tv g w Hw).
Qed.

Print Assumptions stability_check_iff.
Print Assumptions stable_exact.
Print Assumptions stable_with_prefilter_exact.
Print Assumptions stable_from_candidates_exact.
Print Assumptions stable_total.
Print Assumptions stable_with_prefilter_total.
