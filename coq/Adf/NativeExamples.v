(** The hypotheses of the native back-end theorems are inhabited: [from_parser] produces
    well-formed stores and well-formed inputs ([ac_ok]) denoting the parsed formulas;
    worked examples by computation, connected to the specification by the theorems. *)
From Coq Require Import NArith List Bool Lia Arith.
From ADF Require Import Base.Maps Spec.Spec Spec.Theory Bdd.Store Bdd.WF Bdd.Node Bdd.Restrict Bdd.Ops
  Adf.Iter Adf.IterProofs Adf.Native Adf.NoGood Adf.NativeBase Adf.GroundedProofs Adf.CompleteProofs
  Adf.StableProofs.
Import ListNotations.
Local Open Scope N_scope.

(* ------------------------------------------------------------------ *)
(** * [term]: compilation of formulas *)

Fixpoint atoms_lt (n : N) (f : formula) : Prop :=
  match f with
  | FBot | FTop => True
  | FAtom x => x < n
  | FNot g => atoms_lt n g
  | FAnd g h | FOr g h | FImp g h | FXor g h | FIff g h => atoms_lt n g /\ atoms_lt n h
  end.

Lemma atoms_lt_mono n m f : n <= m -> atoms_lt n f -> atoms_lt m f.
Proof. intros L. induction f; cbn [atoms_lt]; try tauto. lia. Qed.

Lemma feval_supported n f : atoms_lt (N.of_nat n) f -> supported n (feval f).
Proof.
  induction f; cbn [atoms_lt]; intros A a b H; cbn [feval]; try reflexivity.
  - apply H. lia.
  - rewrite (IHf A a b H). reflexivity.
  - destruct A as [A1 A2]. rewrite (IHf1 A1 a b H), (IHf2 A2 a b H). reflexivity.
  - destruct A as [A1 A2]. rewrite (IHf1 A1 a b H), (IHf2 A2 a b H). reflexivity.
  - destruct A as [A1 A2]. rewrite (IHf1 A1 a b H), (IHf2 A2 a b H). reflexivity.
  - destruct A as [A1 A2]. rewrite (IHf1 A1 a b H), (IHf2 A2 a b H). reflexivity.
  - destruct A as [A1 A2]. rewrite (IHf1 A1 a b H), (IHf2 A2 a b H). reflexivity.
Qed.

Definition term_spec (c : cfg) (f : formula) : Prop :=
  forall st st' r, WF c st -> term c st f = Some (st', r) ->
    WF c st' /\ extends st st' /\ r < size st' /\ feq (den st' r) (feval f).

Lemma term_bin c (op : cfg -> store -> N -> N -> option (store * N)) (sem : bool -> bool -> bool) g h :
  (forall st a b st' r, WF c st -> a < size st -> b < size st -> op c st a b = Some (st', r) ->
     WF c st' /\ extends st st' /\ r < size st' /\ feq (den st' r) (fun x => sem (den st a x) (den st b x))) ->
  term_spec c g -> term_spec c h ->
  forall st st' r, WF c st ->
    (do (s1, t1) <- term c st g; do (s2, t2) <- term c s1 h; op c s2 t1 t2) = Some (st', r) ->
    WF c st' /\ extends st st' /\ r < size st' /\
    feq (den st' r) (fun x => sem (feval g x) (feval h x)).
Proof.
  intros Hop Hg Hh st st' r WFst X.
  apply obind_inv in X. destruct X as ([s1 t1] & X1 & X).
  apply obind_inv in X. destruct X as ([s2 t2] & X2 & X).
  destruct (Hg st s1 t1 WFst X1) as (WF1 & E1 & Ht1 & D1).
  destruct (Hh s1 s2 t2 WF1 X2) as (WF2 & E2 & Ht2 & D2).
  destruct (Hop s2 t1 t2 st' r WF2 (extends_lt s1 s2 t1 E2 Ht1) Ht2 X) as (WF' & E' & Hr & D').
  split; [exact WF'|]. split; [eapply extends_trans; [exact E1|eapply extends_trans; eauto]|].
  split; [exact Hr|]. intros x. rewrite D'.
  rewrite (extends_den_stable c s1 s2 t1 WF1 E2 Ht1 x), D1, D2. reflexivity.
Qed.

Lemma term_ok c f : atoms_lt VBOT f -> term_spec c f.
Proof.
  induction f; cbn [atoms_lt]; intros A st st' r WFst X.
  - cbn [term] in X. inversion X; subst. split; [exact WFst|]. split; [apply extends_refl|].
    split; [apply (size_gt_0 c st' WFst)|intros a; reflexivity].
  - cbn [term] in X. inversion X; subst. split; [exact WFst|]. split; [apply extends_refl|].
    split; [apply (size_gt_1 c st' WFst)|intros a; reflexivity].
  - cbn [term] in X. inversion X as [X']. apply (variable_ok c st x st' r WFst A X').
  - cbn [term] in X. apply obind_inv in X. destruct X as ([s1 t1] & X1 & X).
    destruct (IHf A st s1 t1 WFst X1) as (WF1 & E1 & Ht1 & D1).
    destruct (bnot_ok c s1 t1 st' r WF1 Ht1 X) as (WF' & E' & Hr & D').
    split; [exact WF'|]. split; [eapply extends_trans; eauto|]. split; [exact Hr|].
    intros a. rewrite D', D1. reflexivity.
  - destruct A as [A1 A2]. apply (term_bin c band andb f1 f2 (band_ok c) (IHf1 A1) (IHf2 A2) st st' r WFst X).
  - destruct A as [A1 A2]. apply (term_bin c bor orb f1 f2 (bor_ok c) (IHf1 A1) (IHf2 A2) st st' r WFst X).
  - destruct A as [A1 A2]. apply (term_bin c bimp implb f1 f2 (bimp_ok c) (IHf1 A1) (IHf2 A2) st st' r WFst X).
  - destruct A as [A1 A2]. apply (term_bin c bxor xorb f1 f2 (bxor_ok c) (IHf1 A1) (IHf2 A2) st st' r WFst X).
  - destruct A as [A1 A2]. apply (term_bin c biff Bool.eqb f1 f2 (biff_ok c) (IHf1 A1) (IHf2 A2) st st' r WFst X).
Qed.

(* ------------------------------------------------------------------ *)
(** * [from_parser] *)

Lemma mk_vars_ok c : forall n st v, WF c st -> v + N.of_nat n <= VBOT ->
  WF c (mk_vars c st n v) /\ extends st (mk_vars c st n v).
Proof.
  induction n as [|n IH]; intros st v WFst B.
  - cbn [mk_vars]. split; [exact WFst|apply extends_refl].
  - cbn [mk_vars]. destruct (variable c st v) as [s1 r] eqn:Xv.
    assert (Hv : v < VBOT) by lia.
    destruct (variable_ok c st v s1 r WFst Hv Xv) as (WF1 & E1 & _).
    cbn [fst]. destruct (IH s1 (v + 1) WF1 ltac:(lia)) as (WF' & E').
    split; [exact WF'|eapply extends_trans; eauto].
Qed.

Lemma set_nth_length {A} (l : list A) i x : length (set_nth l i x) = length l.
Proof. revert i. induction l as [|y l IH]; intros [|i]; cbn [set_nth length]; auto. Qed.

Lemma Forall_set_nth {A} (P : A -> Prop) l i x : Forall P l -> P x -> Forall P (set_nth l i x).
Proof.
  intros H Px. revert i. induction H as [|y l Py Hl IH]; intros [|i]; cbn [set_nth]; constructor; auto.
Qed.

Lemma Forall2_set_nth {A B} (R : A -> B -> Prop) l l' i x y :
  Forall2 R l l' -> R x y -> Forall2 R (set_nth l i x) (set_nth l' i y).
Proof.
  intros H Rxy. revert i. induction H as [|a b l l' Rab Hl IH]; intros [|i]; cbn [set_nth]; constructor; auto.
Qed.

(** the ADF denoted by a list of (position, formula) facts *)
Definition sem_facts (D : adf) (fs : list (nat * formula)) : adf :=
  fold_left (fun D pf => set_nth D (fst pf) (feval (snd pf))) fs D.
Definition sem_from_parser (n : nat) (fs : list (nat * formula)) : adf :=
  sem_facts (repeat (fun _ => false) n) fs.

Definition entry_ok (n : nat) (st : store) (h : N) : Prop := h < size st /\ supported n (den st h).

Lemma entry_ok_extends c n st st' h : WF c st -> extends st st' -> entry_ok n st h -> entry_ok n st' h.
Proof.
  intros WFst E [Hh S]. split; [apply (extends_lt st st' h E Hh)|].
  eapply supported_feq; [|exact S]. apply feq_sym. apply (extends_den_stable c st st' h WFst E Hh).
Qed.

Lemma compile_acs_ok c n : N.of_nat n <= VBOT ->
  forall fs st ac D st' ac', WF c st -> Forall (entry_ok n st) ac ->
  Forall2 (fun h f => feq (den st h) f) ac D ->
  Forall (fun pf => atoms_lt (N.of_nat n) (snd pf)) fs ->
  compile_acs c st ac fs = Some (st', ac') ->
  WF c st' /\ extends st st' /\ Forall (entry_ok n st') ac' /\ length ac' = length ac /\
  Forall2 (fun h f => feq (den st' h) f) ac' (sem_facts D fs).
Proof.
  intros B. induction fs as [|[pos f] fs IH]; intros st ac D st' ac' WFst Hac HD HA X.
  - cbn [compile_acs] in X. inversion X; subst.
    split; [exact WFst|]. split; [apply extends_refl|]. split; [exact Hac|]. split; [reflexivity|exact HD].
  - cbn [compile_acs] in X. inversion HA as [|? ? Af HA']; subst. cbn [snd] in Af.
    apply obind_inv in X. destruct X as ([s1 t] & X1 & X).
    destruct (term_ok c f (atoms_lt_mono _ _ f B Af) st s1 t WFst X1) as (WF1 & E1 & Ht & Dt).
    assert (Hac1 : Forall (entry_ok n s1) (set_nth ac pos t)).
    { apply Forall_set_nth.
      - eapply Forall_impl; [|exact Hac]. intros h. apply (entry_ok_extends c n st s1 h WFst E1).
      - split; [exact Ht|]. eapply supported_feq; [apply feq_sym; exact Dt|].
        apply feval_supported. exact Af. }
    assert (HD1 : Forall2 (fun h g => feq (den s1 h) g) (set_nth ac pos t) (set_nth D pos (feval f))).
    { apply Forall2_set_nth; [|exact Dt].
      eapply Forall2_impl_Forall; [exact Hac| |exact HD].
      intros h g [Hh _] Hd x. cbv beta in *.
      rewrite (extends_den_stable c st s1 h WFst E1 Hh x). apply Hd. }
    destruct (IH s1 _ _ st' ac' WF1 Hac1 HD1 HA' X) as (WF' & E' & Hac' & L' & HD').
    split; [exact WF'|]. split; [eapply extends_trans; eauto|]. split; [exact Hac'|].
    split; [rewrite L'; apply set_nth_length|exact HD'].
Qed.

(** every ADF built by [from_parser] is a well-formed input of the semantics functions and
    denotes the ADF of its formulas *)
Theorem from_parser_ok c n fs st ac :
  N.of_nat n <= VBOT -> Forall (fun pf => atoms_lt (N.of_nat n) (snd pf)) fs ->
  from_parser c n fs = Some (st, ac) ->
  WF c st /\ ac_ok st ac /\ length ac = n /\ adf_eq (abs st ac) (sem_from_parser n fs).
Proof.
  intros B HA X. unfold from_parser in X.
  destruct (mk_vars_ok c n (init c) 0 (init_wf c) ltac:(lia)) as (WF0 & E0).
  set (s0 := mk_vars c (init c) n 0) in *.
  assert (Hac0 : Forall (entry_ok n s0) (repeat 0 n)).
  { apply Forall_repeat. split; [apply (size_gt_0 c s0 WF0)|]. intros a b _. reflexivity. }
  assert (HD0 : Forall2 (fun h f => feq (den s0 h) f) (repeat 0 n) (repeat (fun _ => false) n)).
  { generalize s0. clear. intros s. induction n as [|n IHn]; cbn [repeat]; constructor; [intros a; reflexivity|exact IHn]. }
  destruct (compile_acs_ok c n B fs s0 _ _ st ac WF0 Hac0 HD0 HA X) as (WF' & E' & Hac' & L' & HD').
  rewrite repeat_length in L'.
  split; [exact WF'|]. split; [|split; [exact L'|]].
  - split.
    + eapply Forall_impl; [|exact Hac']. intros h [Hh _]. exact Hh.
    + rewrite L'. unfold abs. apply Forall_forall. intros g Hg. apply in_map_iff in Hg.
      destruct Hg as (h & <- & Hh). rewrite Forall_forall in Hac'. apply (Hac' h Hh).
  - unfold adf_eq, abs, sem_from_parser. apply Forall2_map_l. exact HD'.
Qed.

(* ------------------------------------------------------------------ *)
(** * Example 1: a <- not b, b <- not a *)

Definition ex1 : list (nat * formula) := [(0%nat, FNot (FAtom 1)); (1%nat, FNot (FAtom 0))].

Definition with_adf {A} (c : cfg) (n : nat) (fs : list (nat * formula))
  (k : store -> list N -> option A) : option A :=
  match from_parser c n fs with Some (st, ac) => k st ac | None => None end.

Definition run_grounded c n fs :=
  with_adf c n fs (fun st ac => option_map (fun r => interp_of (snd r)) (grounded c st ac)).
Definition run_complete c n fs :=
  with_adf c n fs (fun st ac => option_map (fun r => map interp_of (snd r)) (complete c st ac)).
Definition run_stable c n fs :=
  with_adf c n fs (fun st ac => option_map (fun r => map interp_of (snd r)) (stable c st ac)).
Definition run_stable_pre c n fs :=
  with_adf c n fs (fun st ac => option_map (fun r => map interp_of (snd r)) (stable_with_prefilter c st ac)).
Definition run_stability_check c n fs v :=
  with_adf c n fs (fun st ac => option_map snd (stability_check c st ac v)).
Definition run_from_candidates c n fs cands :=
  with_adf c n fs (fun st ac => option_map (fun r => map interp_of (snd r)) (stable_from_candidates c st ac cands)).

(** reading a computed run back (generic, no computation involved) *)
Lemma with_adf_inv {A} c n fs (k : store -> list N -> option A) r :
  with_adf c n fs k = Some r -> exists st ac, from_parser c n fs = Some (st, ac) /\ k st ac = Some r.
Proof.
  unfold with_adf. destruct (from_parser c n fs) as [[st ac]|]; [|discriminate]. eauto.
Qed.

Lemma run_grounded_inv c n fs r : run_grounded c n fs = Some r ->
  exists st ac st' g, from_parser c n fs = Some (st, ac) /\ grounded c st ac = Some (st', g) /\ interp_of g = r.
Proof.
  intros H. apply with_adf_inv in H. destruct H as (st & ac & X & H).
  destruct (grounded c st ac) as [[st' g]|] eqn:Y; [|discriminate]. cbn [option_map snd] in H. inversion H; subst.
  exists st, ac, st', g. auto.
Qed.

Lemma run_complete_inv c n fs r : run_complete c n fs = Some r ->
  exists st ac st' l, from_parser c n fs = Some (st, ac) /\ complete c st ac = Some (st', l) /\ map interp_of l = r.
Proof.
  intros H. apply with_adf_inv in H. destruct H as (st & ac & X & H).
  destruct (complete c st ac) as [[st' l]|] eqn:Y; [|discriminate]. cbn [option_map snd] in H. inversion H; subst.
  exists st, ac, st', l. auto.
Qed.

Lemma run_stable_inv c n fs r : run_stable c n fs = Some r ->
  exists st ac st' l, from_parser c n fs = Some (st, ac) /\ stable c st ac = Some (st', l) /\ map interp_of l = r.
Proof.
  intros H. apply with_adf_inv in H. destruct H as (st & ac & X & H).
  destruct (stable c st ac) as [[st' l]|] eqn:Y; [|discriminate]. cbn [option_map snd] in H. inversion H; subst.
  exists st, ac, st', l. auto.
Qed.

Example ex1_grounded : run_grounded cfg_default 2 ex1 = Some [U; U].
Proof. vm_compute. reflexivity. Qed.

Example ex1_complete : run_complete cfg_default 2 ex1 = Some [[U; U]; [T; F]; [F; T]].
Proof. vm_compute. reflexivity. Qed.

Example ex1_stable : run_stable cfg_default 2 ex1 = Some [[F; T]; [T; F]].
Proof. vm_compute. reflexivity. Qed.

Example ex1_stable_pre : run_stable_pre cfg_default 2 ex1 = Some [[F; T]; [T; F]].
Proof. vm_compute. reflexivity. Qed.

Example ex1_stability_check :
  run_stability_check cfg_default 2 ex1 [1; 0] = Some true /\
  run_stability_check cfg_default 2 ex1 [1; 1] = Some false.
Proof. vm_compute. split; reflexivity. Qed.

Example ex1_from_candidates :
  run_from_candidates cfg_default 2 ex1 [[1; 1]; [1; 0]; [0; 0]; [0; 1]] = Some [[T; F]; [F; T]].
Proof. vm_compute. split; reflexivity. Qed.

(** the same outputs for the other feature combinations *)
Example ex1_other_cfgs :
  run_stable (mkCfg 0 false) 2 ex1 = Some [[F; T]; [T; F]] /\
  run_stable (mkCfg 2 true) 2 ex1 = Some [[F; T]; [T; F]] /\
  run_complete (mkCfg 0 false) 2 ex1 = Some [[U; U]; [T; F]; [F; T]].
Proof. vm_compute. repeat split. Qed.

Lemma ex1_atoms : Forall (fun pf => atoms_lt (N.of_nat 2) (snd pf)) ex1.
Proof. repeat constructor. Qed.

Lemma bound2 : N.of_nat 2 <= VBOT.
Proof. discriminate. Qed.

(** the specification-level ADF of example 1 is [exD2] of Spec/Theory.v *)
Lemma ex1_sem : sem_from_parser 2 ex1 = exD2.
Proof. reflexivity. Qed.

(** end to end: the model's run of [stable], read through [stable_exact], determines the stable
    models of the mathematical ADF *)
Example ex1_stable_models : forall v, Stable exD2 v <-> (v = [F; T] \/ v = [T; F]).
Proof.
  intros v. destruct (run_stable_inv _ _ _ _ ex1_stable) as (st & ac & st' & l & X & Y & R').
  destruct (from_parser_ok cfg_default 2 ex1 st ac bound2 ex1_atoms X) as (WFst & Hok & _ & EQ).
  rewrite ex1_sem in EQ.
  destruct (stable_exact cfg_default st ac st' l WFst Hok Y) as (_ & _ & _ & Hin).
  rewrite R' in Hin. split.
  - intros S. apply (Stable_feq _ _ v (adf_eq_sym _ _ EQ)) in S. apply Hin in S.
    cbn [In] in S. destruct S as [<-|[<-|[]]]; auto.
  - intros H. apply (Stable_feq _ _ v EQ). apply Hin. cbn [In]. destruct H as [->| ->]; auto.
Qed.

Example ex1_complete_models : forall v, Complete exD2 v <-> (v = [U; U] \/ v = [F; T] \/ v = [T; F]).
Proof.
  intros v. destruct (run_complete_inv _ _ _ _ ex1_complete) as (st & ac & st' & l & X & Y & R').
  destruct (from_parser_ok cfg_default 2 ex1 st ac bound2 ex1_atoms X) as (WFst & Hok & _ & EQ).
  rewrite ex1_sem in EQ.
  destruct (complete_exact cfg_default st ac st' l WFst Hok Y) as (_ & _ & _ & Hin & _).
  rewrite R' in Hin. split.
  - intros S. apply (Complete_feq _ _ v (adf_eq_sym _ _ EQ)) in S. apply Hin in S.
    cbn [In] in S. destruct S as [<-|[<-|[<-|[]]]]; auto.
  - intros H. apply (Complete_feq _ _ v EQ). apply Hin. cbn [In]. destruct H as [->|[->| ->]]; auto.
Qed.

Example ex1_grounded_model : Grounded exD2 [U; U].
Proof.
  destruct (run_grounded_inv _ _ _ _ ex1_grounded) as (st & ac & st' & g & X & Y & R').
  destruct (from_parser_ok cfg_default 2 ex1 st ac bound2 ex1_atoms X) as (WFst & Hok & _ & EQ).
  rewrite ex1_sem in EQ.
  destruct (grounded_exact cfg_default st ac st' g WFst Hok Y) as (_ & _ & _ & _ & HG & _).
  rewrite R' in HG. apply (Grounded_feq _ _ _ EQ HG).
Qed.

(* ------------------------------------------------------------------ *)
(** * Example 2: self-support and a chain.
    s0 <- s0 ; s1 <- s0 or not s2 ; s2 <- not s1 ; s3 <- top ; s4 <- s3 and not s0 *)

Definition ex2 : list (nat * formula) :=
  [ (0%nat, FAtom 0);
    (1%nat, FOr (FAtom 0) (FNot (FAtom 2)));
    (2%nat, FNot (FAtom 1));
    (3%nat, FTop);
    (4%nat, FAnd (FAtom 3) (FNot (FAtom 0))) ].

Example ex2_grounded : run_grounded cfg_default 5 ex2 = Some [U; U; U; T; U].
Proof. vm_compute. reflexivity. Qed.

(** the two-valued models with s0 = T are not stable (s0 supports itself) *)
Example ex2_stable : run_stable cfg_default 5 ex2 = Some [[F; F; T; T; T]; [F; T; F; T; T]].
Proof. vm_compute. reflexivity. Qed.

Example ex2_stable_pre : run_stable_pre cfg_default 5 ex2 = run_stable cfg_default 5 ex2.
Proof. vm_compute. reflexivity. Qed.

Example ex2_complete :
  run_complete cfg_default 5 ex2 =
  Some [[U; U; U; T; U]; [U; T; F; T; U]; [T; T; F; T; F]; [F; U; U; T; T]; [F; T; F; T; T]; [F; F; T; T; T]].
Proof. vm_compute. reflexivity. Qed.

Example ex2_stability_check :
  run_stability_check cfg_default 5 ex2 [1; 1; 0; 1; 0] = Some false /\
  run_stability_check cfg_default 5 ex2 [0; 1; 0; 1; 1] = Some true.
Proof. vm_compute. split; reflexivity. Qed.

Lemma ex2_atoms : Forall (fun pf => atoms_lt (N.of_nat 5) (snd pf)) ex2.
Proof. unfold ex2. repeat constructor. Qed.

Lemma bound5 : N.of_nat 5 <= VBOT.
Proof. discriminate. Qed.

Example ex2_stable_models : forall v,
  Stable (sem_from_parser 5 ex2) v <-> (v = [F; F; T; T; T] \/ v = [F; T; F; T; T]).
Proof.
  intros v. destruct (run_stable_inv _ _ _ _ ex2_stable) as (st & ac & st' & l & X & Y & R').
  destruct (from_parser_ok cfg_default 5 ex2 st ac bound5 ex2_atoms X) as (WFst & Hok & _ & EQ).
  destruct (stable_exact cfg_default st ac st' l WFst Hok Y) as (_ & _ & _ & Hin).
  rewrite R' in Hin. split.
  - intros S. apply (Stable_feq _ _ v (adf_eq_sym _ _ EQ)) in S. apply Hin in S.
    cbn [In] in S. destruct S as [<-|[<-|[]]]; auto.
  - intros H. apply (Stable_feq _ _ v EQ). apply Hin. cbn [In]. destruct H as [->| ->]; auto.
Qed.

Print Assumptions from_parser_ok.
Print Assumptions ex1_stable_models.
