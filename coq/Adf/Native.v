(** Executable model of lib/src/adf.rs (native back-end): compilation of formulas,
    grounded_internal, complete, stable and its variants, stability_check, the
    counting-guided search.  The store is threaded explicitly; [None] = fuel exhausted. *)
From Coq Require Import NArith List Bool.
From ADF Require Import Base.Maps Spec.Spec Bdd.Store Adf.Iter.
Import ListNotations.
Local Open Scope N_scope.

Notation "'do' p <- e ; k" := (obind e (fun p => k))
  (at level 200, p pattern, e at level 100, k at level 200, right associativity).

(** Adf::term — formulas are already resolved to variable numbers (the dictionary lookup
    of [Formula::Atom] is modelled in Front/Parser.v) *)
Fixpoint term (c : cfg) (st : store) (f : formula) : option (store * N) :=
  match f with
  | FBot => Some (st, 0)
  | FTop => Some (st, 1)
  | FAtom x => Some (variable c st x)
  | FNot g => do (s1, t1) <- term c st g; bnot c s1 t1
  | FAnd g h => do (s1, t1) <- term c st g; do (s2, t2) <- term c s1 h; band c s2 t1 t2
  | FOr g h => do (s1, t1) <- term c st g; do (s2, t2) <- term c s1 h; bor c s2 t1 t2
  | FIff g h => do (s1, t1) <- term c st g; do (s2, t2) <- term c s1 h; biff c s2 t1 t2
  | FXor g h => do (s1, t1) <- term c st g; do (s2, t2) <- term c s1 h; bxor c s2 t1 t2
  | FImp g h => do (s1, t1) <- term c st g; do (s2, t2) <- term c s1 h; bimp c s2 t1 t2
  end.

(** Adf::from_parser: [n] statements, [fs] = (target position, formula) in insertion order *)
Fixpoint mk_vars (c : cfg) (st : store) (n : nat) (v : N) : store :=
  match n with O => st | S k => mk_vars c (fst (variable c st v)) k (v + 1) end.
Fixpoint compile_acs (c : cfg) (st : store) (ac : list N) (fs : list (nat * formula))
  : option (store * list N) :=
  match fs with
  | [] => Some (st, ac)
  | (pos, f) :: r => do (s1, t) <- term c st f; compile_acs c s1 (set_nth ac pos t) r
  end.
Definition from_parser (c : cfg) (n : nat) (fs : list (nat * formula)) : option (store * list N) :=
  compile_acs c (mk_vars c (init c) n 0) (repeat 0 n) fs.

(** the fold "restrict acc by every decided position of the interpretation";
    [only_false]: only positions that are BOT (the reduct) *)
Fixpoint fold_restrict (c : cfg) (only_false : bool) (st : store) (acc : N)
  (interp : list N) (idx : N) : option (store * N) :=
  match interp with
  | [] => Some (st, acc)
  | t :: r =>
    if is_tv t && (negb only_false || negb (is_true t)) then
      do (s1, acc') <- restrict c st acc idx (is_true t);
      fold_restrict c only_false s1 acc' r (idx + 1)
    else fold_restrict c only_false st acc r (idx + 1)
  end.

(** Adf::apply_interpretation *)
Fixpoint apply_interp (c : cfg) (only_false : bool) (st : store) (ac interp : list N)
  : option (store * list N) :=
  match ac with
  | [] => Some (st, [])
  | a :: r =>
    do (s1, a') <- fold_restrict c only_false st a interp 0;
    do (s2, r') <- apply_interp c only_false s1 r interp;
    Some (s2, a' :: r')
  end.

(** one pass of the loop body of grounded_internal: every undecided entry is restricted by the
    snapshot [cur]; [tv] counts the constants *)
Fixpoint ground_round (c : cfg) (st : store) (cur l : list N) (tv : N)
  : option (store * list N * N) :=
  match l with
  | [] => Some (st, [], tv)
  | a :: r =>
    if is_tv a then
      do (s1, r', tv') <- ground_round c st cur r tv; Some (s1, a :: r', tv')
    else
      do (s1, a') <- fold_restrict c false st a cur 0;
      do (s2, r', tv') <- ground_round c s1 cur r (if is_tv a' then tv + 1 else tv);
      Some (s2, a' :: r', tv')
  end.

Fixpoint grounded_loop (c : cfg) (fuel : nat) (st : store) (interp : list N) (tvals : N)
  : option (store * list N) :=
  match fuel with
  | O => None
  | S f =>
    do (s1, new, tv') <- ground_round c st interp interp tvals;
    if tv' =? tvals then Some (s1, new) else grounded_loop c f s1 new tv'
  end.

Definition count_tv (l : list N) : N := N.of_nat (length (filter is_tv l)).

Definition grounded_internal (c : cfg) (st : store) (interp : list N) : option (store * list N) :=
  grounded_loop c (S (S (length interp))) st interp (count_tv interp).

Definition grounded (c : cfg) (st : store) (ac : list N) := grounded_internal c st ac.

(** Term::compare_inf *)
Definition compare_inf (a b : N) : bool :=
  eqb (is_tv a) (is_tv b) && eqb (is_true a) (is_true b).
(** Term::no_inf_inconsistency *)
Definition no_inf_inconsistency (a b : N) : bool :=
  if compare_inf a b then true else negb (is_tv a).

Fixpoint all_compare_inf (a b : list N) : bool :=   (* zip + all *)
  match a, b with
  | x :: r, y :: s => compare_inf x y && all_compare_inf r s
  | _, _ => true
  end.

(** Adf::stability_check *)
Definition stability_check (c : cfg) (st : store) (ac interp : list N) : option (store * bool) :=
  do (s1, red) <- apply_interp c true st ac interp;
  do (s2, grd) <- grounded_internal c s1 red;
  (* for (idx, grd) in grd.iter().enumerate(): compare with interpretation[idx] *)
  Some (s2, forallb (fun p => compare_inf (fst p) (snd p)) (combine grd interp)).

(** filter over an iterator whose predicate mutates the store *)
Fixpoint filter_st {A} (p : store -> A -> option (store * bool)) (st : store) (l : list A)
  : option (store * list A) :=
  match l with
  | [] => Some (st, [])
  | x :: r =>
    do (s1, b) <- p st x;
    do (s2, r') <- filter_st p s1 r;
    Some (s2, if b then x :: r' else r')
  end.

(** Adf::stable *)
Definition stable_pred (c : cfg) (ac : list N) (st : store) (interp : list N) : option (store * bool) :=
  do (s1, red) <- apply_interp c true st ac interp;
  do (s2, grd) <- grounded_internal c s1 red;
  Some (s2, all_compare_inf interp grd).
Definition stable (c : cfg) (st : store) (ac : list N) : option (store * list (list N)) :=
  do (s1, g) <- grounded c st ac;
  filter_st (stable_pred c ac) s1 (it2_collect g).

(** the ".all(...)" with short-circuit of complete / stable_with_prefilter:
    position [i] is consistent iff compare_inf(interp[i], ac[i] restricted by interp) *)
Fixpoint all_positions_consistent (c : cfg) (st : store) (acs its interp : list N)
  : option (store * bool) :=
  match acs, its with
  | a :: ar, it :: ir =>
    do (s1, a') <- fold_restrict c false st a interp 0;
    if compare_inf it a' then all_positions_consistent c s1 ar ir interp
    else Some (s1, false)
  | _, _ => Some (st, true)
  end.

(** Adf::complete *)
Definition complete (c : cfg) (st : store) (ac : list N) : option (store * list (list N)) :=
  do (s1, g) <- grounded c st ac;
  filter_st (fun s v => all_positions_consistent c s ac v v) s1 (it3_collect g).

(** Adf::stable_with_prefilter (rejected candidates become the dummy pair ([BOT],[TOP])) *)
Definition stable_pre_pred (c : cfg) (ac : list N) (st : store) (interp : list N)
  : option (store * bool) :=
  do (s1, ok) <- all_positions_consistent c st ac interp interp;
  if ok then stable_pred c ac s1 interp
  else Some (s1, all_compare_inf [0] [1]).
Definition stable_with_prefilter (c : cfg) (st : store) (ac : list N) :=
  do (s1, g) <- grounded c st ac;
  filter_st (stable_pre_pred c ac) s1 (it2_collect g).

(** Adf::stable_bdd_representation: candidates come from the other back-end *)
Definition stable_from_candidates (c : cfg) (st : store) (ac : list N) (cands : list (list N)) :=
  filter_st (stable_pred c ac) st cands.
