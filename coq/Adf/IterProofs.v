(** Exactness of the two odometers modelled in Adf/Iter.v. *)
From Coq Require Import NArith List Bool Lia Arith.
From ADF Require Import Bdd.Store Adf.Iter.
Import ListNotations.
Local Open Scope N_scope.

(* ------------------------------------------------------------------ *)
(** * Statements' vocabulary *)

Definition nundec (v : list N) : nat := length (filter (fun x => negb (is_tv x)) v).
(* w is a total completion of v: decided positions unchanged, undecided ones become 0 or 1 *)
Definition completion2 (v w : list N) : Prop :=
  Forall2 (fun x y => if is_tv x then y = x else (y = 0 \/ y = 1)) v w.
(* w refines v: decided positions unchanged, undecided ones stay as they are or become 0 or 1 *)
Definition refinement3 (v w : list N) : Prop :=
  Forall2 (fun x y => if is_tv x then y = x else (y = 0 \/ y = 1 \/ y = x)) v w.

Fixpoint it2_run (n : nat) (s : it2) : it2 * list (option (list N)) :=
  match n with
  | O => (s, [])
  | S m => let (s', o) := it2_next s in
           let (s'', os) := it2_run m s' in (s'', o :: os)
  end.

Fixpoint it3_run (n : nat) (s : it3) : it3 * list (option (list N)) :=
  match n with
  | O => (s, [])
  | S m => let (s', o) := it3_next s in
           let (s'', os) := it3_run m s' in (s'', o :: os)
  end.

(* ------------------------------------------------------------------ *)
(** * Generic list facts *)

Lemma NoDup_map_on {A B} (f : A -> B) (l : list A) :
  NoDup l -> (forall x y, In x l -> In y l -> f x = f y -> x = y) -> NoDup (map f l).
Proof.
  induction 1 as [|a l Hn Hd IH]; intros Hinj; cbn [map]; constructor.
  - intros Hin. apply in_map_iff in Hin. destruct Hin as [y [Hy Hiny]].
    assert (y = a) by (apply Hinj; [right; exact Hiny | left; reflexivity | exact Hy]).
    subst. contradiction.
  - apply IH. intros x y Hx Hy. apply Hinj; right; assumption.
Qed.

Lemma rev_inj {A} (a b : list A) : rev a = rev b -> a = b.
Proof. intros H. rewrite <- (rev_involutive a), <- (rev_involutive b), H. reflexivity. Qed.

Lemma filter_map_S (f : nat -> bool) (l : list nat) :
  filter f (map S l) = map S (filter (fun i => f (S i)) l).
Proof.
  induction l as [|a l IH]; cbn [map filter]; [reflexivity|].
  destruct (f (S a)); cbn [map]; rewrite IH; reflexivity.
Qed.

Lemma combine_app {A B} (l1 l2 : list A) (c1 c2 : list B) :
  length l1 = length c1 ->
  combine (l1 ++ l2) (c1 ++ c2) = combine l1 c1 ++ combine l2 c2.
Proof.
  revert c1. induction l1 as [|a l1 IH]; intros [|c c1] H; cbn in H; try discriminate.
  - reflexivity.
  - cbn [app combine]. rewrite IH by congruence. reflexivity.
Qed.

Lemma map_const_repeat {A B} (b : B) (l : list A) : map (fun _ => b) l = repeat b (length l).
Proof. induction l; cbn [map length repeat]; congruence. Qed.

Lemma Forall_repeat {A} (P : A -> Prop) a n : P a -> Forall P (repeat a n).
Proof. intros H. induction n; cbn [repeat]; constructor; assumption. Qed.

(** take the answers up to the first [None] *)
Fixpoint take_some {A} (l : list (option A)) : list A :=
  match l with
  | Some x :: r => x :: take_some r
  | _ => []
  end.

Lemma take_some_app {A} (l : list A) (m : nat) :
  take_some (map Some l ++ repeat None m) = l.
Proof.
  induction l as [|a l IH]; cbn [map app take_some].
  - destruct m; reflexivity.
  - rewrite IH. reflexivity.
Qed.

(** a non-empty list in which each element is mapped to its successor, the last one to [None] *)
Fixpoint chain {A} (f : A -> option A) (l : list A) : Prop :=
  match l with
  | [] => False
  | x :: r => match r with
              | [] => f x = None
              | y :: _ => f x = Some y /\ chain f r
              end
  end.

(* ------------------------------------------------------------------ *)
(** * Digit lists: base 3, counted down *)

Definition blk3 (r : list N) : list (list N) := [2 :: r; 1 :: r; 0 :: r].
Fixpoint all3 (k : nat) : list (list N) :=
  match k with
  | O => [[]]
  | S k => flat_map blk3 (all3 k)
  end.

Definition dig3 (x : N) : Prop := x = 0 \/ x = 1 \/ x = 2.

Lemma all3_length k : length (all3 k) = Nat.pow 3 k.
Proof.
  induction k; [reflexivity|].
  cbn [all3]. change (Nat.pow 3 (S k)) with (3 * Nat.pow 3 k)%nat. rewrite <- IHk.
  generalize (all3 k). intros l. induction l as [|a l IH]; [reflexivity|].
  cbn [flat_map]. rewrite app_length, IH. cbn [blk3 length]. lia.
Qed.

Lemma all3_In k d : In d (all3 k) <-> length d = k /\ Forall dig3 d.
Proof.
  revert d. induction k; intros d; cbn [all3].
  - split.
    + intros [<-|[]]. split; [reflexivity|constructor].
    + intros [H _]. destruct d; [left; reflexivity|discriminate].
  - rewrite in_flat_map. split.
    + intros [r [Hr Hd]]. apply IHk in Hr. destruct Hr as [Hl Hf].
      unfold blk3 in Hd. cbn [In] in Hd.
      destruct Hd as [<-|[<-|[<-|[]]]]; (split; [cbn [length]; congruence|]);
        constructor; unfold dig3; auto.
    + intros [Hl Hf]. destruct d as [|x r]; [discriminate|].
      exists r. inversion Hf; subst. split.
      * apply IHk. split; [cbn [length] in Hl; congruence|assumption].
      * unfold blk3; cbn [In]. unfold dig3 in *. intuition subst; auto.
Qed.

Lemma all3_NoDup k : NoDup (all3 k).
Proof.
  induction k; cbn [all3].
  - constructor; [intros []|constructor].
  - revert IHk. generalize (all3 k). intros l. induction 1 as [|a l Hn Hd IH]; cbn [flat_map].
    + constructor.
    + unfold blk3 at 1. cbn [app].
      assert (Hnot : forall c, ~ In (c :: a) (flat_map blk3 l)).
      { intros c Hin. apply in_flat_map in Hin. destruct Hin as [r [Hr Hin]].
        unfold blk3 in Hin; cbn [In] in Hin.
        destruct Hin as [E|[E|[E|[]]]]; inversion E; subst; contradiction. }
      constructor; [|constructor; [|constructor]]; cbn [In]; try assumption.
      * intros [E|[E|E]]; [discriminate E|discriminate E|exact (Hnot _ E)].
      * intros [E|E]; [discriminate E|exact (Hnot _ E)].
      * apply Hnot.
Qed.

Lemma all3_hd k : exists rest, all3 k = repeat 2 k :: rest.
Proof.
  induction k; cbn [all3 repeat].
  - eexists; reflexivity.
  - destruct IHk as [rest ->]. cbn [flat_map blk3 app]. eexists; reflexivity.
Qed.

Lemma all3_chain k : chain decrement_vec (all3 k).
Proof.
  induction k; cbn [all3].
  - reflexivity.
  - revert IHk. generalize (all3 k). intros l. induction l as [|x l IH]; [intros []|].
    intros H. cbn [flat_map]. unfold blk3 at 1. cbn [app].
    cbn [chain] in H. destruct l as [|y l].
    + cbn [flat_map app chain]. repeat split.
      cbn [decrement_vec]. change (0 <? 0) with false. cbv iota. rewrite H. reflexivity.
    + destruct H as [H1 H2]. specialize (IH H2).
      cbn [flat_map] in *. unfold blk3 at 1. unfold blk3 at 1 in IH. cbn [app] in *.
      cbn [chain] in *. repeat split; try apply IH.
      cbn [decrement_vec]. change (0 <? 0) with false. cbv iota. rewrite H1. reflexivity.
Qed.

(* ------------------------------------------------------------------ *)
(** * Digit lists: base 2, counted up *)

Fixpoint incr (d : list N) : option (list N) :=
  match d with
  | [] => None
  | x :: r => if x =? 0 then Some (1 :: r) else option_map (cons 0) (incr r)
  end.

Definition blk2 (r : list N) : list (list N) := [0 :: r; 1 :: r].
Fixpoint all2 (k : nat) : list (list N) :=
  match k with
  | O => [[]]
  | S k => flat_map blk2 (all2 k)
  end.

Definition dig2 (x : N) : Prop := x = 0 \/ x = 1.

Lemma all2_length k : length (all2 k) = Nat.pow 2 k.
Proof.
  induction k; [reflexivity|].
  cbn [all2]. change (Nat.pow 2 (S k)) with (2 * Nat.pow 2 k)%nat. rewrite <- IHk.
  generalize (all2 k). intros l. induction l as [|a l IH]; [reflexivity|].
  cbn [flat_map]. rewrite app_length, IH. cbn [blk2 length]. lia.
Qed.

Lemma all2_In k d : In d (all2 k) <-> length d = k /\ Forall dig2 d.
Proof.
  revert d. induction k; intros d; cbn [all2].
  - split.
    + intros [<-|[]]. split; [reflexivity|constructor].
    + intros [H _]. destruct d; [left; reflexivity|discriminate].
  - rewrite in_flat_map. split.
    + intros [r [Hr Hd]]. apply IHk in Hr. destruct Hr as [Hl Hf].
      unfold blk2 in Hd. cbn [In] in Hd.
      destruct Hd as [<-|[<-|[]]]; (split; [cbn [length]; congruence|]);
        constructor; unfold dig2; auto.
    + intros [Hl Hf]. destruct d as [|x r]; [discriminate|].
      exists r. inversion Hf; subst. split.
      * apply IHk. split; [cbn [length] in Hl; congruence|assumption].
      * unfold blk2; cbn [In]. unfold dig2 in *. intuition subst; auto.
Qed.

Lemma all2_NoDup k : NoDup (all2 k).
Proof.
  induction k; cbn [all2].
  - constructor; [intros []|constructor].
  - revert IHk. generalize (all2 k). intros l. induction 1 as [|a l Hn Hd IH]; cbn [flat_map].
    + constructor.
    + unfold blk2 at 1. cbn [app].
      assert (Hnot : forall c, ~ In (c :: a) (flat_map blk2 l)).
      { intros c Hin. apply in_flat_map in Hin. destruct Hin as [r [Hr Hin]].
        unfold blk2 in Hin; cbn [In] in Hin.
        destruct Hin as [E|[E|[]]]; inversion E; subst; contradiction. }
      constructor; [|constructor]; cbn [In]; try assumption.
      * intros [E|E]; [discriminate E|exact (Hnot _ E)].
      * apply Hnot.
Qed.

Lemma all2_hd k : exists rest, all2 k = repeat 0 k :: rest.
Proof.
  induction k; cbn [all2 repeat].
  - eexists; reflexivity.
  - destruct IHk as [rest ->]. cbn [flat_map blk2 app]. eexists; reflexivity.
Qed.

Lemma all2_chain k : chain incr (all2 k).
Proof.
  induction k; cbn [all2].
  - reflexivity.
  - revert IHk. generalize (all2 k). intros l. induction l as [|x l IH]; [intros []|].
    intros H. cbn [flat_map]. unfold blk2 at 1. cbn [app].
    cbn [chain] in H. destruct l as [|y l].
    + cbn [flat_map app chain]. repeat split.
      cbn [incr]. change (1 =? 0) with false. cbv iota. rewrite H. reflexivity.
    + destruct H as [H1 H2]. specialize (IH H2).
      cbn [flat_map] in *. unfold blk2 at 1. unfold blk2 at 1 in IH. cbn [app] in *.
      cbn [chain] in *. repeat split; try apply IH.
      cbn [incr]. change (1 =? 0) with false. cbv iota. rewrite H1. reflexivity.
Qed.

(* ------------------------------------------------------------------ *)
(** * The undecided positions, structurally *)

Lemma is_tv_false x : is_tv x = false -> x <> 0 /\ x <> 1.
Proof. unfold is_tv. intros H. apply N.leb_gt in H. lia. Qed.

Lemma undec_indexes_cons x v :
  undec_indexes (x :: v) =
  map S (undec_indexes v) ++ (if is_tv x then [] else [0%nat]).
Proof.
  unfold undec_indexes. cbn [length]. rewrite <- cons_seq, <- seq_shift.
  cbn [filter]. rewrite filter_map_S. cbn [nth].
  destruct (is_tv x); cbn [negb rev].
  - rewrite app_nil_r, map_rev. reflexivity.
  - rewrite map_rev. reflexivity.
Qed.

Lemma undec_indexes_nil : undec_indexes [] = [].
Proof. reflexivity. Qed.

Lemma undec_indexes_length v : length (undec_indexes v) = nundec v.
Proof.
  induction v as [|x v IH]; [reflexivity|].
  rewrite undec_indexes_cons, app_length, map_length, IH.
  unfold nundec. cbn [filter]. destruct (is_tv x); cbn [negb length]; lia.
Qed.

Lemma nundec_cons x v :
  nundec (x :: v) = if is_tv x then nundec v else S (nundec v).
Proof. unfold nundec. cbn [filter]. destruct (is_tv x); reflexivity. Qed.

(* ------------------------------------------------------------------ *)
(** * Three-valued: rendering a digit list *)

Definition g3 (d x : N) : N := if d =? 0 then 0 else if d =? 1 then 1 else x.

(** put the digits [ds] (in ascending position order) on the undecided positions *)
Fixpoint fill3 (v ds : list N) : list N :=
  match v with
  | [] => []
  | x :: r =>
    if is_tv x then x :: fill3 r ds
    else match ds with
         | d :: ds' => g3 d x :: fill3 r ds'
         | [] => x :: fill3 r []
         end
  end.

Definition rstep (orig : list N) (r : list N) (p : nat * N) : list N :=
  let '(i, d) := p in
  set_nth r i (if d =? 0 then 0 else if d =? 1 then 1 else nth i orig 0).

Lemma it3_render_eq orig idx cur :
  it3_render orig idx cur = fold_left (rstep orig) (combine idx cur) orig.
Proof. reflexivity. Qed.

Lemma rstep_shift x orig idx cur a acc :
  fold_left (rstep (x :: orig)) (combine (map S idx) cur) (a :: acc) =
  a :: fold_left (rstep orig) (combine idx cur) acc.
Proof.
  revert cur acc. induction idx as [|i idx IH]; intros cur acc; [reflexivity|].
  destruct cur as [|c cur]; [reflexivity|].
  cbn [map combine fold_left]. unfold rstep at 2. cbn [set_nth nth].
  rewrite IH. reflexivity.
Qed.

Lemma render_fill3 v : forall ds, length ds = nundec v ->
  it3_render v (undec_indexes v) (rev ds) = fill3 v ds.
Proof.
  induction v as [|x v IH]; intros ds Hl.
  - destruct ds; [reflexivity|discriminate].
  - rewrite it3_render_eq, undec_indexes_cons. rewrite nundec_cons in Hl.
    cbn [fill3]. destruct (is_tv x) eqn:Hx.
    + rewrite app_nil_r, rstep_shift. rewrite <- it3_render_eq, IH by assumption. reflexivity.
    + destruct ds as [|d ds]; [discriminate|]. cbn [rev].
      rewrite combine_app by (rewrite map_length, rev_length, undec_indexes_length;
                              cbn [length] in Hl; lia).
      rewrite fold_left_app, rstep_shift. rewrite <- it3_render_eq, IH
        by (cbn [length] in Hl; lia).
      reflexivity.
Qed.

Lemma fill3_refines v : forall ds, length ds = nundec v -> Forall dig3 ds ->
  refinement3 v (fill3 v ds).
Proof.
  unfold refinement3. induction v as [|x v IH]; intros ds Hl Hd; cbn [fill3].
  - constructor.
  - rewrite nundec_cons in Hl. destruct (is_tv x) eqn:Hx.
    + constructor; [rewrite Hx; reflexivity|apply IH; assumption].
    + destruct ds as [|d ds]; [discriminate|]. inversion Hd; subst.
      constructor; [|apply IH; [cbn [length] in Hl; lia|assumption]].
      rewrite Hx. unfold dig3 in *. unfold g3. intuition subst; cbn; auto.
Qed.

Lemma refines_fill3 v w : refinement3 v w ->
  exists ds, length ds = nundec v /\ Forall dig3 ds /\ fill3 v ds = w.
Proof.
  unfold refinement3. induction 1 as [|x y v w Hxy Hf IH].
  - exists []. repeat split. constructor.
  - destruct IH as [ds [Hl [Hd He]]]. rewrite nundec_cons. cbn [fill3].
    destruct (is_tv x) eqn:Hx.
    + exists ds. subst. repeat split; assumption.
    + apply is_tv_false in Hx. destruct Hxy as [-> | [-> | ->]].
      * exists (0 :: ds). repeat split; [cbn [length]; lia|constructor; unfold dig3; auto|].
        cbn [g3]. rewrite He. reflexivity.
      * exists (1 :: ds). repeat split; [cbn [length]; lia|constructor; unfold dig3; auto|].
        rewrite He. reflexivity.
      * exists (2 :: ds). repeat split; [cbn [length]; lia|constructor; unfold dig3; auto|].
        rewrite He. reflexivity.
Qed.

Lemma fill3_inj v : forall ds ds', length ds = nundec v -> length ds' = nundec v ->
  Forall dig3 ds -> Forall dig3 ds' -> fill3 v ds = fill3 v ds' -> ds = ds'.
Proof.
  induction v as [|x v IH]; intros ds ds' Hl Hl' Hd Hd' He.
  - destruct ds, ds'; try discriminate; reflexivity.
  - rewrite nundec_cons in Hl, Hl'. cbn [fill3] in He. destruct (is_tv x) eqn:Hx.
    + inversion He. apply IH; assumption.
    + destruct ds as [|d ds], ds' as [|d' ds']; try discriminate.
      inversion He as [[E1 E2]]. inversion Hd; inversion Hd'; subst.
      apply is_tv_false in Hx.
      f_equal.
      * unfold dig3, g3 in *. intuition subst; cbn in E1; congruence.
      * apply IH; try assumption; cbn [length] in *; lia.
Qed.

Lemma fill3_twos v ds : Forall (eq 2) ds -> fill3 v ds = v.
Proof.
  revert ds. induction v as [|x v IH]; intros ds Hd; cbn [fill3]; [reflexivity|].
  destruct (is_tv x).
  - rewrite IH by assumption. reflexivity.
  - destruct ds as [|d ds].
    + rewrite IH by constructor. reflexivity.
    + inversion Hd; subst. rewrite IH by assumption. reflexivity.
Qed.

(* ------------------------------------------------------------------ *)
(** * Three-valued: the iterator *)

Lemma it3_collect_run n s : it3_collect_f n s = take_some (snd (it3_run n s)).
Proof.
  revert s. induction n as [|n IH]; intros s; [reflexivity|].
  cbn [it3_collect_f it3_run]. destruct (it3_next s) as [s' o].
  specialize (IH s'). destruct (it3_run n s') as [s'' os]. cbn [snd] in *.
  destruct o; cbn [take_some]; [rewrite IH|]; reflexivity.
Qed.

Lemma it3_run_done orig idx n :
  snd (it3_run n (mkIt3 orig idx None true)) = repeat None n.
Proof.
  induction n as [|n IH]; [reflexivity|].
  cbn [it3_run]. unfold it3_next at 1. cbn [i3_started i3_cur].
  destruct (it3_run n (mkIt3 orig idx None true)) as [s'' os]. cbn [snd] in *.
  rewrite IH. reflexivity.
Qed.

Lemma it3_run_chain orig idx : forall rest d n,
  chain decrement_vec (d :: rest) ->
  snd (it3_run n (mkIt3 orig idx (Some d) true)) =
  map Some (map (it3_render orig idx) (firstn n rest)) ++ repeat None (n - length rest).
Proof.
  induction rest as [|d' rest IH]; intros d n H.
  - destruct n as [|n]; [reflexivity|]. cbn [chain] in H.
    cbn [it3_run]. unfold it3_next at 1. cbn [i3_started i3_cur i3_orig i3_idx]. rewrite H.
    cbn [i3_cur].
    pose proof (it3_run_done orig idx n) as Hd.
    destruct (it3_run n (mkIt3 orig idx None true)) as [s'' os]. cbn [snd] in *.
    rewrite Hd. rewrite firstn_nil. cbn [map app length]. rewrite Nat.sub_0_r. reflexivity.
  - destruct n as [|n]; [reflexivity|]. cbn [chain] in H. destruct H as [H1 H2].
    cbn [it3_run]. unfold it3_next at 1. cbn [i3_started i3_cur i3_orig i3_idx]. rewrite H1.
    cbn [i3_cur i3_orig i3_idx].
    specialize (IH d' n H2).
    destruct (it3_run n (mkIt3 orig idx (Some d') true)) as [s'' os]. cbn [snd] in *.
    rewrite IH. cbn [firstn map app length Nat.sub]. reflexivity.
Qed.

Lemma it3_run_new v n :
  snd (it3_run n (it3_new v)) =
  map Some (map (it3_render v (undec_indexes v)) (firstn n (all3 (nundec v))))
  ++ repeat None (n - Nat.pow 3 (nundec v)).
Proof.
  rewrite <- (all3_length (nundec v)).
  pose proof (all3_chain (nundec v)) as Hc.
  destruct (all3_hd (nundec v)) as [rest Hr]. rewrite Hr in *.
  destruct n as [|n]; [reflexivity|].
  cbn [it3_run]. unfold it3_new. unfold it3_next at 1.
  cbn [i3_started i3_cur i3_orig i3_idx].
  rewrite map_const_repeat, undec_indexes_length.
  pose proof (it3_run_chain v (undec_indexes v) rest _ n Hc) as H.
  destruct (it3_run n _) as [s'' os]. cbn [snd] in *.
  rewrite H. cbn [firstn map app length Nat.sub]. reflexivity.
Qed.

Lemma it3_collect_all v :
  it3_collect v = map (it3_render v (undec_indexes v)) (all3 (nundec v)).
Proof.
  unfold it3_collect. rewrite it3_collect_run, it3_run_new, undec_indexes_length.
  rewrite firstn_all2 by (rewrite all3_length; lia).
  apply take_some_app.
Qed.

Lemma it3_collect_fill v :
  it3_collect v = map (fun d => fill3 v (rev d)) (all3 (nundec v)).
Proof.
  rewrite it3_collect_all. apply map_ext_in. intros d Hd.
  apply all3_In in Hd. destruct Hd as [Hl _].
  rewrite <- (rev_involutive d) at 1. apply render_fill3. rewrite rev_length. exact Hl.
Qed.

Theorem three_val_iter_exact : forall v,
  let l := it3_collect v in
  length l = Nat.pow 3 (nundec v) /\ NoDup l /\ (forall w, In w l <-> refinement3 v w) /\
  hd_error l = Some v.
Proof.
  intros v l. subst l. rewrite it3_collect_fill. repeat split.
  - rewrite map_length. apply all3_length.
  - apply NoDup_map_on; [apply all3_NoDup|].
    intros x y Hx Hy He. apply all3_In in Hx, Hy. destruct Hx as [Hx1 Hx2], Hy as [Hy1 Hy2].
    apply rev_inj. apply (fill3_inj v); try (rewrite rev_length; assumption);
      try (apply Forall_rev; assumption). exact He.
  - intros Hin. apply in_map_iff in Hin. destruct Hin as [d [<- Hd]].
    apply all3_In in Hd. destruct Hd as [Hl Hd].
    apply fill3_refines; [rewrite rev_length; assumption|apply Forall_rev; assumption].
  - intros Hr. apply refines_fill3 in Hr. destruct Hr as [ds [Hl [Hd <-]]].
    apply in_map_iff. exists (rev ds). split; [rewrite rev_involutive; reflexivity|].
    apply all3_In. split; [rewrite rev_length; assumption|apply Forall_rev; assumption].
  - destruct (all3_hd (nundec v)) as [rest ->]. cbn [map hd_error]. f_equal.
    apply fill3_twos. apply Forall_rev. apply Forall_repeat. reflexivity.
Qed.

Theorem it3_stream : forall v n, (n >= Nat.pow 3 (nundec v))%nat ->
  snd (it3_run n (it3_new v)) =
  map Some (it3_collect v) ++ repeat None (n - Nat.pow 3 (nundec v)).
Proof.
  intros v n Hn. rewrite it3_run_new, it3_collect_all.
  rewrite firstn_all2 by (rewrite all3_length; lia). reflexivity.
Qed.

(* ------------------------------------------------------------------ *)
(** * Two-valued: vectors as digit lists *)

Fixpoint fill2 (v ds : list N) : list N :=
  match v with
  | [] => []
  | x :: r =>
    if is_tv x then x :: fill2 r ds
    else match ds with
         | d :: ds' => d :: fill2 r ds'
         | [] => x :: fill2 r []
         end
  end.

Lemma fill2_completes v : forall ds, length ds = nundec v -> Forall dig2 ds ->
  completion2 v (fill2 v ds).
Proof.
  unfold completion2. induction v as [|x v IH]; intros ds Hl Hd; cbn [fill2].
  - constructor.
  - rewrite nundec_cons in Hl. destruct (is_tv x) eqn:Hx.
    + constructor; [rewrite Hx; reflexivity|apply IH; assumption].
    + destruct ds as [|d ds]; [discriminate|]. inversion Hd; subst.
      constructor; [|apply IH; [cbn [length] in Hl; lia|assumption]].
      rewrite Hx. assumption.
Qed.

Lemma completes_fill2 v w : completion2 v w ->
  exists ds, length ds = nundec v /\ Forall dig2 ds /\ fill2 v ds = w.
Proof.
  unfold completion2. induction 1 as [|x y v w Hxy Hf IH].
  - exists []. repeat split. constructor.
  - destruct IH as [ds [Hl [Hd He]]]. rewrite nundec_cons. cbn [fill2].
    destruct (is_tv x) eqn:Hx.
    + exists ds. subst. repeat split; assumption.
    + exists (y :: ds). repeat split; [cbn [length]; lia|constructor; assumption|].
      rewrite He. reflexivity.
Qed.

Lemma fill2_inj v : forall ds ds', length ds = nundec v -> length ds' = nundec v ->
  fill2 v ds = fill2 v ds' -> ds = ds'.
Proof.
  induction v as [|x v IH]; intros ds ds' Hl Hl' He.
  - destruct ds, ds'; try discriminate; reflexivity.
  - rewrite nundec_cons in Hl, Hl'. cbn [fill2] in He. destruct (is_tv x) eqn:Hx.
    + inversion He. apply IH; assumption.
    + destruct ds as [|d ds], ds' as [|d' ds']; try discriminate.
      inversion He as [[E1 E2]]. f_equal.
      apply IH; try assumption; cbn [length] in *; lia.
Qed.

Lemma fill2_zeros v : forall ds, length ds = nundec v -> Forall (eq 0) ds ->
  fill2 v ds = map (fun x => if negb (is_tv x) then 0 else x) v.
Proof.
  induction v as [|x v IH]; intros ds Hl Hd; cbn [fill2 map]; [reflexivity|].
  rewrite nundec_cons in Hl. destruct (is_tv x); cbn [negb].
  - rewrite IH by assumption. reflexivity.
  - destruct ds as [|d ds]; [discriminate|]. inversion Hd; subst.
    rewrite IH by (try assumption; cbn [length] in Hl; lia). reflexivity.
Qed.

(* ------------------------------------------------------------------ *)
(** * Two-valued: one step on the vector is [incr] on the digits *)

Definition set0 (r : list N) (a : nat) : list N := set_nth r a 0.

Definition step2 (cur : list N) (idx : list nat) : option (list N) :=
  match find_bot cur idx 0 with
  | Some (pos, at_) => Some (fold_left set0 (firstn pos idx) (set_nth cur at_ 1))
  | None => None
  end.

Lemma find_bot_shift a cur idx : forall p,
  find_bot (a :: cur) (map S idx) p =
  option_map (fun pa => (fst pa, S (snd pa))) (find_bot cur idx p).
Proof.
  induction idx as [|i idx IH]; intros p; [reflexivity|].
  cbn [map find_bot nth]. destruct (nth i cur 2 =? 0); [reflexivity|apply IH].
Qed.

Lemma find_bot_bound cur idx : forall p pos at_,
  find_bot cur idx p = Some (pos, at_) -> (p <= pos < p + length idx)%nat.
Proof.
  induction idx as [|i idx IH]; intros p pos at_ H; [discriminate|].
  cbn [find_bot] in H. cbn [length]. destruct (nth i cur 2 =? 0).
  - inversion H; subst. lia.
  - apply IH in H. lia.
Qed.

Lemma find_bot_app cur l1 l2 : forall p,
  find_bot cur (l1 ++ l2) p =
  match find_bot cur l1 p with
  | Some r => Some r
  | None => find_bot cur l2 (p + length l1)
  end.
Proof.
  induction l1 as [|i l1 IH]; intros p.
  - cbn [app find_bot length]. rewrite Nat.add_0_r. reflexivity.
  - cbn [app find_bot length]. destruct (nth i cur 2 =? 0); [reflexivity|].
    rewrite IH. replace (S p + length l1)%nat with (p + S (length l1))%nat by lia. reflexivity.
Qed.

Lemma fold0_shift a l : forall c,
  fold_left set0 (map S l) (a :: c) = a :: fold_left set0 l c.
Proof.
  induction l as [|i l IH]; intros c; [reflexivity|].
  cbn [map fold_left]. unfold set0 at 2. cbn [set_nth]. rewrite IH. reflexivity.
Qed.

Lemma step2_shift a cur idx :
  step2 (a :: cur) (map S idx) = option_map (cons a) (step2 cur idx).
Proof.
  unfold step2. rewrite find_bot_shift.
  destruct (find_bot cur idx 0) as [[pos at_]|]; [|reflexivity].
  cbn [option_map fst snd set_nth]. rewrite firstn_map, fold0_shift. reflexivity.
Qed.

Lemma step2_snoc c cur idx :
  step2 (c :: cur) (map S idx ++ [0%nat]) =
  match step2 cur idx with
  | Some r => Some (c :: r)
  | None => if c =? 0 then Some (1 :: fold_left set0 idx cur) else None
  end.
Proof.
  unfold step2. rewrite find_bot_app, find_bot_shift.
  destruct (find_bot cur idx 0) as [[pos at_]|] eqn:E.
  - apply find_bot_bound in E.
    cbn [option_map fst snd set_nth]. rewrite firstn_app, map_length.
    replace (pos - length idx)%nat with 0%nat by lia. cbn [firstn]. rewrite app_nil_r.
    rewrite firstn_map, fold0_shift. reflexivity.
  - cbn [option_map find_bot nth]. destruct (c =? 0); [|reflexivity].
    cbn [Nat.add set_nth]. rewrite firstn_app, Nat.sub_diag, firstn_all. cbn [firstn].
    rewrite app_nil_r, fold0_shift. reflexivity.
Qed.

Lemma incr_snoc c : forall d1,
  incr (d1 ++ [c]) =
  match incr d1 with
  | Some d' => Some (d' ++ [c])
  | None => if c =? 0 then Some (repeat 0 (length d1) ++ [1]) else None
  end.
Proof.
  induction d1 as [|x d1 IH].
  - cbn [app incr length repeat]. destruct (c =? 0); reflexivity.
  - cbn [app incr length repeat]. destruct (x =? 0); [reflexivity|].
    rewrite IH. destruct (incr d1); cbn [option_map]; [reflexivity|].
    destruct (c =? 0); reflexivity.
Qed.

Lemma incr_length d : forall d', incr d = Some d' -> length d' = length d.
Proof.
  induction d as [|x d IH]; intros d' H; [discriminate|].
  cbn [incr] in H. destruct (x =? 0).
  - inversion H; reflexivity.
  - destruct (incr d) as [d0|]; [|discriminate]. cbn [option_map] in H.
    inversion H; subst. cbn [length]. rewrite (IH d0); reflexivity.
Qed.

Lemma reset_fill2 v : forall ds zs, length ds = nundec v -> length zs = nundec v ->
  Forall (eq 0) zs ->
  fold_left set0 (undec_indexes v) (fill2 v ds) = fill2 v zs.
Proof.
  induction v as [|x v IH]; intros ds zs Hl Hz Hf.
  - reflexivity.
  - rewrite undec_indexes_cons. rewrite nundec_cons in Hl, Hz. cbn [fill2].
    destruct (is_tv x).
    + rewrite app_nil_r, fold0_shift, (IH ds zs) by assumption. reflexivity.
    + destruct ds as [|d ds]; [discriminate|]. destruct zs as [|z zs]; [discriminate|].
      inversion Hf; subst. cbn [length] in *.
      rewrite fold_left_app, fold0_shift, (IH ds zs) by (try assumption; lia).
      reflexivity.
Qed.

Lemma step2_fill v : forall ds, length ds = nundec v ->
  step2 (fill2 v ds) (undec_indexes v) =
  option_map (fun d' => fill2 v (rev d')) (incr (rev ds)).
Proof.
  induction v as [|x v IH]; intros ds Hl.
  - destruct ds; [reflexivity|discriminate].
  - rewrite undec_indexes_cons. rewrite nundec_cons in Hl.
    cbn [fill2]. destruct (is_tv x) eqn:Hx.
    + rewrite app_nil_r, step2_shift, IH by assumption.
      destruct (incr (rev ds)); reflexivity.
    + destruct ds as [|c ds]; [discriminate|]. cbn [length] in Hl.
      rewrite step2_snoc, IH by lia. cbn [rev]. rewrite incr_snoc.
      destruct (incr (rev ds)) as [d'|]; cbn [option_map].
      * rewrite rev_app_distr. cbn [rev app]. reflexivity.
      * destruct (c =? 0); [|reflexivity]. cbn [option_map].
        rewrite rev_app_distr. cbn [rev app]. f_equal. f_equal.
        apply reset_fill2.
        -- lia.
        -- rewrite rev_length, repeat_length, rev_length. lia.
        -- apply Forall_rev, Forall_repeat. reflexivity.
Qed.

(* ------------------------------------------------------------------ *)
(** * Two-valued: the iterator *)

Lemma it2_next_started idx cur :
  it2_next (mkIt2 idx (Some cur) true) =
  match step2 cur idx with
  | Some r => (mkIt2 idx (Some r) true, Some r)
  | None => (mkIt2 idx None true, None)
  end.
Proof.
  unfold it2_next, step2. cbn [i2_started i2_cur i2_idx].
  destruct (find_bot cur idx 0) as [[pos at_]|]; reflexivity.
Qed.

Lemma it2_collect_run n s : it2_collect_f n s = take_some (snd (it2_run n s)).
Proof.
  revert s. induction n as [|n IH]; intros s; [reflexivity|].
  cbn [it2_collect_f it2_run]. destruct (it2_next s) as [s' o].
  specialize (IH s'). destruct (it2_run n s') as [s'' os]. cbn [snd] in *.
  destruct o; cbn [take_some]; [rewrite IH|]; reflexivity.
Qed.

Lemma it2_run_done idx n :
  snd (it2_run n (mkIt2 idx None true)) = repeat None n.
Proof.
  induction n as [|n IH]; [reflexivity|].
  cbn [it2_run]. unfold it2_next at 1. cbn [i2_started i2_cur].
  destruct (it2_run n (mkIt2 idx None true)) as [s'' os]. cbn [snd] in *.
  rewrite IH. reflexivity.
Qed.

Definition out2 (v d : list N) : list N := fill2 v (rev d).

Lemma it2_run_chain v : forall rest d n,
  length d = nundec v ->
  chain incr (d :: rest) ->
  snd (it2_run n (mkIt2 (undec_indexes v) (Some (out2 v d)) true)) =
  map Some (map (out2 v) (firstn n rest)) ++ repeat None (n - length rest).
Proof.
  induction rest as [|d' rest IH]; intros d n Hl H.
  - destruct n as [|n]; [reflexivity|]. cbn [chain] in H.
    cbn [it2_run]. rewrite it2_next_started. unfold out2 at 1.
    rewrite step2_fill by (rewrite rev_length; exact Hl). rewrite rev_involutive, H.
    cbn [option_map].
    pose proof (it2_run_done (undec_indexes v) n) as Hd.
    destruct (it2_run n _) as [s'' os]. cbn [snd] in *.
    rewrite Hd. rewrite firstn_nil. cbn [map app length]. rewrite Nat.sub_0_r. reflexivity.
  - destruct n as [|n]; [reflexivity|]. cbn [chain] in H. destruct H as [H1 H2].
    cbn [it2_run]. rewrite it2_next_started. unfold out2 at 1.
    rewrite step2_fill by (rewrite rev_length; exact Hl). rewrite rev_involutive, H1.
    cbn [option_map].
    assert (Hl' : length d' = nundec v) by (rewrite (incr_length _ _ H1); exact Hl).
    specialize (IH d' n Hl' H2). fold (out2 v d').
    destruct (it2_run n _) as [s'' os]. cbn [snd] in *.
    rewrite IH. cbn [firstn map app length Nat.sub]. reflexivity.
Qed.

Lemma it2_run_new v n :
  snd (it2_run n (it2_new v)) =
  map Some (map (out2 v) (firstn n (all2 (nundec v))))
  ++ repeat None (n - Nat.pow 2 (nundec v)).
Proof.
  rewrite <- (all2_length (nundec v)).
  pose proof (all2_chain (nundec v)) as Hc.
  destruct (all2_hd (nundec v)) as [rest Hr]. rewrite Hr in *.
  destruct n as [|n]; [reflexivity|].
  assert (Hz : map (fun x => if negb (is_tv x) then 0 else x) v = out2 v (repeat 0 (nundec v))).
  { symmetry. apply fill2_zeros.
    - rewrite rev_length, repeat_length. reflexivity.
    - apply Forall_rev, Forall_repeat. reflexivity. }
  cbn [it2_run]. unfold it2_new. unfold it2_next at 1.
  cbn [i2_started i2_cur i2_idx]. rewrite Hz.
  pose proof (it2_run_chain v rest _ n (repeat_length _ _) Hc) as H.
  destruct (it2_run n _) as [s'' os]. cbn [snd] in *.
  rewrite H. cbn [firstn map app length Nat.sub]. reflexivity.
Qed.

Lemma it2_collect_all v : it2_collect v = map (out2 v) (all2 (nundec v)).
Proof.
  unfold it2_collect. rewrite it2_collect_run, it2_run_new, undec_indexes_length.
  rewrite firstn_all2 by (rewrite all2_length; lia).
  apply take_some_app.
Qed.

Theorem two_val_iter_exact : forall v,
  let l := it2_collect v in
  length l = Nat.pow 2 (nundec v) /\ NoDup l /\ (forall w, In w l <-> completion2 v w) /\
  hd_error l = Some (map (fun x => if is_tv x then x else 0) v).
Proof.
  intros v l. subst l. rewrite it2_collect_all. unfold out2. repeat split.
  - rewrite map_length. apply all2_length.
  - apply NoDup_map_on; [apply all2_NoDup|].
    intros x y Hx Hy He. apply all2_In in Hx, Hy. destruct Hx as [Hx1 Hx2], Hy as [Hy1 Hy2].
    apply rev_inj. apply (fill2_inj v); try (rewrite rev_length; assumption). exact He.
  - intros Hin. apply in_map_iff in Hin. destruct Hin as [d [<- Hd]].
    apply all2_In in Hd. destruct Hd as [Hl Hd].
    apply fill2_completes; [rewrite rev_length; assumption|apply Forall_rev; assumption].
  - intros Hr. apply completes_fill2 in Hr. destruct Hr as [ds [Hl [Hd <-]]].
    apply in_map_iff. exists (rev ds). split; [rewrite rev_involutive; reflexivity|].
    apply all2_In. split; [rewrite rev_length; assumption|apply Forall_rev; assumption].
  - destruct (all2_hd (nundec v)) as [rest ->]. cbn [map hd_error]. f_equal.
    rewrite fill2_zeros.
    + apply map_ext. intros x. destruct (is_tv x); reflexivity.
    + rewrite rev_length, repeat_length. reflexivity.
    + apply Forall_rev, Forall_repeat. reflexivity.
Qed.

Theorem it2_stream : forall v n, (n >= Nat.pow 2 (nundec v))%nat ->
  snd (it2_run n (it2_new v)) =
  map Some (it2_collect v) ++ repeat None (n - Nat.pow 2 (nundec v)).
Proof.
  intros v n Hn. rewrite it2_run_new, it2_collect_all.
  rewrite firstn_all2 by (rewrite all2_length; lia). reflexivity.
Qed.

(* ------------------------------------------------------------------ *)
(** * Non-vacuity *)

(** all decided: k = 0, exactly one element, the vector itself *)
Example it2_all_decided : it2_collect [1; 0; 0; 1] = [[1; 0; 0; 1]].
Proof. vm_compute. reflexivity. Qed.
Example it3_all_decided : it3_collect [1; 0; 0; 1] = [[1; 0; 0; 1]].
Proof. vm_compute. reflexivity. Qed.

(** undecided positions at both ends *)
Example it2_both_ends :
  it2_collect [5; 1; 0; 7] = [[0; 1; 0; 0]; [0; 1; 0; 1]; [1; 1; 0; 0]; [1; 1; 0; 1]].
Proof. vm_compute. reflexivity. Qed.
Example it3_both_ends :
  it3_collect [5; 1; 0; 7] =
  [[5; 1; 0; 7]; [5; 1; 0; 1]; [5; 1; 0; 0];
   [1; 1; 0; 7]; [1; 1; 0; 1]; [1; 1; 0; 0];
   [0; 1; 0; 7]; [0; 1; 0; 1]; [0; 1; 0; 0]].
Proof. vm_compute. reflexivity. Qed.

(** the stream really ends: after the 2^2 (resp. 3^2) answers only [None] *)
Example it2_both_ends_stream :
  snd (it2_run 7 (it2_new [5; 1; 0; 7])) =
  [Some [0; 1; 0; 0]; Some [0; 1; 0; 1]; Some [1; 1; 0; 0]; Some [1; 1; 0; 1];
   None; None; None].
Proof. vm_compute. reflexivity. Qed.
Example it3_all_decided_stream :
  snd (it3_run 3 (it3_new [1; 0; 0; 1])) = [Some [1; 0; 0; 1]; None; None].
Proof. vm_compute. reflexivity. Qed.

Print Assumptions two_val_iter_exact.
Print Assumptions three_val_iter_exact.
Print Assumptions it2_stream.
Print Assumptions it3_stream.
