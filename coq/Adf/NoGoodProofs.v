(** Proofs about the executable model of lib/src/nogoods.rs (Adf/NoGood.v):
    the store never forgets an added nogood (all three duplicate-elimination modes),
    unit conclusions are sound, a conflict is reported only when no total extension of the
    interpretation avoids all stored nogoods and always when the interpretation matches a
    stored nogood, and the conclusion closure is sound and total with the fuel of the model. *)
From Coq Require Import NArith List Bool Lia Arith.
From ADF Require Import Spec.Spec Bdd.Store Adf.NoGood.
Import ListNotations.

(* ------------------------------------------------------------------ *)
(** * Specification vocabulary *)

Definition matches (g : ng) (a : nat -> bool) : Prop :=
  forall i, (ngat g i = T -> a i = true) /\ (ngat g i = F -> a i = false).
Definition stored (s : ngstore) : list ng := concat (buckets s).
Definition excluded (G : list ng) (a : nat -> bool) : Prop := exists g, In g G /\ matches g a.
Definition avoids (G : list ng) (a : nat -> bool) : Prop := forall g, In g G -> ~ matches g a.
(** bucket discipline: bucket i holds nogoods with exactly i+1 assigned positions *)
Definition buckets_ok (s : ngstore) : Prop :=
  forall i b, nth_error (buckets s) i = Some b -> Forall (fun g => ng_len g = S i) b.
(** I is contained in R *)
Definition ng_sub (I R : ng) : Prop := forall i, ngat I i <> U -> ngat R i = ngat I i.

(* ------------------------------------------------------------------ *)
(** * Generic list lemmas *)

Lemma tv_eqb_eq x y : tv_eqb x y = true <-> x = y.
Proof. destruct x, y; simpl; split; congruence. Qed.

Lemma tv_eqb_refl x : tv_eqb x x = true.
Proof. destruct x; reflexivity. Qed.

Lemma active_true x : active x = true <-> x <> U.
Proof. destruct x; unfold active; simpl; split; congruence. Qed.

Lemma active_false x : active x = false <-> x = U.
Proof. destruct x; unfold active; simpl; split; congruence. Qed.

Lemma nth_nth_error {A} (l : list A) i d :
  nth i l d = match nth_error l i with Some x => x | None => d end.
Proof. revert i; induction l; destruct i; simpl; auto. Qed.

Lemma forallb_nth {A} (f : A -> bool) l d :
  f d = true -> (forallb f l = true <-> forall i, f (nth i l d) = true).
Proof.
  intros Hd; split.
  - intros H i. destruct (lt_dec i (length l)) as [L|L].
    + rewrite forallb_forall in H. apply H, nth_In, L.
    + rewrite nth_overflow by lia. exact Hd.
  - intros H. apply forallb_forall. intros x Hx.
    destruct (In_nth _ _ d Hx) as [i [_ E]]. rewrite <- E. apply H.
Qed.

Lemma existsb_nth {A} (f : A -> bool) l d :
  f d = false -> (existsb f l = true <-> exists i, f (nth i l d) = true).
Proof.
  intros Hd; split.
  - intros H. apply existsb_exists in H. destruct H as [x [Hx Hf]].
    destruct (In_nth _ _ d Hx) as [i [_ E]]. exists i. now rewrite E.
  - intros [i H]. apply existsb_exists.
    destruct (lt_dec i (length l)) as [L|L].
    + exists (nth i l d). split; auto using nth_In.
    + rewrite nth_overflow in H by lia. congruence.
Qed.

Lemma filter_singleton {A} (f : A -> bool) l x :
  filter f l = [x] -> f x = true /\ In x l /\ forall y, In y l -> f y = true -> y = x.
Proof.
  intros H.
  assert (Hx : In x (filter f l)) by (rewrite H; now left).
  apply filter_In in Hx. destruct Hx as [Hx Hf]. repeat split; auto.
  intros y Hy Hfy.
  assert (Hy' : In y (filter f l)) by (apply filter_In; auto).
  rewrite H in Hy'. destruct Hy' as [E|[]]. now symmetry.
Qed.

Lemma filter_nil {A} (f : A -> bool) l :
  filter f l = [] -> forall y, In y l -> f y = false.
Proof.
  intros H y Hy. destruct (f y) eqn:E; auto.
  assert (Hy' : In y (filter f l)) by (apply filter_In; auto).
  rewrite H in Hy'. destruct Hy'.
Qed.

Lemma nth_error_combine_seq {A} (l : list A) k n :
  nth_error (combine (seq k (length l)) l) n = option_map (fun x => (k + n, x)) (nth_error l n).
Proof.
  revert k n; induction l as [|x l IH]; intros k n.
  - destruct n; reflexivity.
  - destruct n; simpl.
    + now rewrite Nat.add_0_r.
    + rewrite IH. now rewrite Nat.add_succ_r.
Qed.

Lemma in_combine_seq0 {A} (l : list A) i x :
  In (i, x) (combine (seq 0 (length l)) l) <-> nth_error l i = Some x.
Proof.
  split.
  - intros H. apply In_nth_error in H. destruct H as [n H].
    rewrite nth_error_combine_seq in H. destruct (nth_error l n) eqn:E; simpl in H; try discriminate.
    inversion H; subst. exact E.
  - intros H. apply nth_error_In with (n := i). rewrite nth_error_combine_seq, H. reflexivity.
Qed.

Lemma in_concat_nth {A} (l : list (list A)) x :
  In x (concat l) <-> exists i b, nth_error l i = Some b /\ In x b.
Proof.
  rewrite in_concat. split.
  - intros [b [Hb Hx]]. apply In_nth_error in Hb. destruct Hb as [i Hi]. eauto.
  - intros [i [b [Hi Hx]]]. exists b. split; auto. eapply nth_error_In; eauto.
Qed.

Lemma in_filter_map {A B} (f : A -> option B) l y :
  In y (filter_map f l) <-> exists x, In x l /\ f x = Some y.
Proof.
  induction l as [|x l IH]; simpl.
  - split; [intros [] | intros [x [[] _]]].
  - destruct (f x) eqn:E; simpl; rewrite IH; split.
    + intros [H|[z [Hz Hf]]]; [subst; eauto | eauto].
    + intros [z [[H|H] Hf]]; [subst; left; congruence | right; eauto].
    + intros [z [Hz Hf]]; eauto.
    + intros [z [[H|H] Hf]]; [subst; congruence | eauto].
Qed.

Lemma nth_error_upd_nth {A} (l : list A) i f j :
  nth_error (upd_nth l i f) j =
  if Nat.eqb j i then option_map f (nth_error l j) else nth_error l j.
Proof.
  revert i j; induction l as [|x l IH]; intros i j.
  - simpl. destruct i; destruct (Nat.eqb j _); destruct j; reflexivity.
  - destruct i, j; simpl; auto.
Qed.

Lemma length_upd_nth {A} (l : list A) i f : length (upd_nth l i f) = length l.
Proof. revert i; induction l; destruct i; simpl; auto. Qed.

Lemma in_concat_upd_nth {A} (l : list (list A)) i g x :
  In x (concat (upd_nth l i (fun b => b ++ [g]))) <-> In x (concat l) \/ (x = g /\ i < length l).
Proof.
  rewrite !in_concat_nth. split.
  - intros [j [b [Hj Hx]]]. rewrite nth_error_upd_nth in Hj.
    destruct (Nat.eqb_spec j i) as [->|N].
    + destruct (nth_error l i) as [b0|] eqn:E; simpl in Hj; try discriminate.
      inversion Hj; subst. apply in_app_or in Hx. destruct Hx as [Hx|[Hx|[]]].
      * left; eauto.
      * right. split; auto. apply nth_error_Some. congruence.
    + left; eauto.
  - intros [[j [b [Hj Hx]]] | [-> Hi]].
    + exists j. destruct (Nat.eqb_spec j i) as [->|N].
      * exists (b ++ [g]). rewrite nth_error_upd_nth, Nat.eqb_refl, Hj. split; auto.
        apply in_or_app; auto.
      * exists b. rewrite nth_error_upd_nth. destruct (Nat.eqb_spec j i); try contradiction. auto.
    + destruct (nth_error l i) as [b0|] eqn:E.
      * exists i, (b0 ++ [g]). rewrite nth_error_upd_nth, Nat.eqb_refl, E. split; auto.
        apply in_or_app; right; now left.
      * apply nth_error_None in E. lia.
Qed.

(* ------------------------------------------------------------------ *)
(** * ngat, zip_pad and the pointwise characterisations *)

Lemma ngat_nil i : ngat [] i = U.
Proof. destruct i; reflexivity. Qed.

Lemma ngat_cons_0 x g : ngat (x :: g) 0 = x.
Proof. reflexivity. Qed.

Lemma ngat_cons_S x g i : ngat (x :: g) (S i) = ngat g i.
Proof. reflexivity. Qed.

Lemma ngat_overflow g i : length g <= i -> ngat g i = U.
Proof. intros; unfold ngat; now apply nth_overflow. Qed.

Lemma ngat_tl g i : ngat (tl g) i = ngat g (S i).
Proof. destruct g; simpl; auto using ngat_nil. Qed.

Lemma zip_pad_nth a b i : nth i (zip_pad a b) (U, U) = (ngat a i, ngat b i).
Proof.
  revert b i; induction a as [|x r IH]; intros b i.
  - simpl zip_pad. rewrite ngat_nil.
    transitivity (nth i (map (fun y => (U, y)) b) ((fun y => (U, y)) U)); [reflexivity|].
    now rewrite map_nth.
  - destruct b as [|y s]; destruct i; simpl zip_pad; try reflexivity.
    + simpl nth. rewrite IH. now rewrite !ngat_nil.
    + simpl nth. now rewrite IH.
Qed.

Lemma zip_pad_length a b : length (zip_pad a b) = Nat.max (length a) (length b).
Proof.
  revert b; induction a as [|x r IH]; intros b.
  - simpl. now rewrite map_length.
  - destruct b; simpl; rewrite IH; simpl; lia.
Qed.

Lemma forallb_zip f a b :
  f (U, U) = true -> (forallb f (zip_pad a b) = true <-> forall i, f (ngat a i, ngat b i) = true).
Proof.
  intros H. rewrite (forallb_nth f _ (U, U) H).
  split; intros K i; specialize (K i); now rewrite zip_pad_nth in *.
Qed.

Lemma existsb_zip f a b :
  f (U, U) = false -> (existsb f (zip_pad a b) = true <-> exists i, f (ngat a i, ngat b i) = true).
Proof.
  intros H. rewrite (existsb_nth f _ (U, U) H).
  split; intros [i K]; exists i; now rewrite zip_pad_nth in *.
Qed.

(** is_violating x y: x is contained in y *)
Lemma is_violating_spec x y :
  is_violating x y = true <-> forall i, ngat x i <> U -> ngat y i = ngat x i.
Proof.
  unfold is_violating. rewrite forallb_zip by reflexivity.
  split; intros H i; specialize (H i); simpl in *;
    destruct (ngat x i), (ngat y i); simpl in *; try congruence; try reflexivity;
    try (exfalso; assert (E : U = T \/ U = F \/ T = F \/ F = T) by (first [left; apply H; congruence | right; left; apply H; congruence | right; right; left; apply H; congruence | right; right; right; apply H; congruence]); destruct E as [E|[E|[E|E]]]; discriminate).
Qed.

Lemma is_violating_sub x y : is_violating x y = true <-> ng_sub x y.
Proof. apply is_violating_spec. Qed.

Lemma is_contradicting_spec x y :
  is_contradicting x y = true <->
  exists i, ngat x i <> U /\ ngat y i <> U /\ ngat x i <> ngat y i.
Proof.
  unfold is_contradicting. rewrite existsb_zip by reflexivity.
  split; intros [i H]; exists i; simpl in *;
    destruct (ngat x i), (ngat y i); simpl in *; try discriminate; try reflexivity;
    repeat split; try congruence; destruct H as [H1 [H2 H3]]; congruence.
Qed.

Lemma is_contradicting_false x y :
  is_contradicting x y = false ->
  forall i, ngat x i <> U -> ngat y i <> U -> ngat x i = ngat y i.
Proof.
  intros H i Hx Hy. destruct (is_contradicting x y) eqn:E; try discriminate.
  destruct (ngat x i) eqn:Ex, (ngat y i) eqn:Ey; try congruence; exfalso;
  (assert (K : is_contradicting x y = true)
    by (apply is_contradicting_spec; exists i; rewrite Ex, Ey; repeat split; congruence));
  congruence.
Qed.

Lemma ng_eqb_spec a b : ng_eqb a b = true <-> forall i, ngat a i = ngat b i.
Proof.
  unfold ng_eqb. rewrite forallb_zip by reflexivity.
  split; intros H i; specialize (H i); simpl in *.
  - now apply tv_eqb_eq.
  - now apply tv_eqb_eq.
Qed.

Lemma ngat_disjunction a b i : ngat (disjunction a b) i = tv_or (ngat a i) (ngat b i).
Proof.
  pose proof (map_nth (fun p => tv_or (fst p) (snd p)) (zip_pad a b) (U, U) i) as H.
  rewrite zip_pad_nth in H. exact H.
Qed.

(* ------------------------------------------------------------------ *)
(** * ng_len *)

Lemma ng_len_step g : ng_len g = (if active (ngat g 0) then 1 else 0) + ng_len (tl g).
Proof.
  destruct g as [|x r]; [reflexivity|].
  rewrite ngat_cons_0. unfold ng_len; simpl. destruct (active x); reflexivity.
Qed.

Lemma ng_len_zero g : (forall i, ngat g i = U) -> ng_len g = 0.
Proof.
  induction g as [|x r IH]; intros H; [reflexivity|].
  rewrite ng_len_step. simpl tl. rewrite IH by (intros i; apply (H (S i))).
  rewrite (H 0). reflexivity.
Qed.

Lemma ng_len_zero_inv g : ng_len g = 0 -> forall i, ngat g i = U.
Proof.
  induction g as [|x r IH]; intros H i; [apply ngat_nil|].
  rewrite ng_len_step in H. simpl tl in H. rewrite ngat_cons_0 in H.
  destruct (active x) eqn:E; try discriminate.
  destruct i; [now apply active_false | apply IH; simpl in H; exact H].
Qed.

(** a nogood contained in another has at most as many literals *)
Lemma ng_len_sub g : forall I, ng_sub g I -> ng_len g <= ng_len I.
Proof.
  induction g as [|x r IH]; intros I H.
  - unfold ng_len; simpl; lia.
  - rewrite (ng_len_step (x :: r)), (ng_len_step I). simpl tl. rewrite ngat_cons_0.
    assert (Hr : ng_len r <= ng_len (tl I)).
    { apply IH. intros i Hi. rewrite ngat_tl. apply (H (S i)). exact Hi. }
    destruct (active x) eqn:E.
    + apply active_true in E. rewrite (H 0) by (simpl; exact E).
      rewrite ngat_cons_0. apply active_true in E. rewrite E. lia.
    + destruct (active (ngat I 0)); lia.
Qed.

Lemma is_violating_len g I : is_violating g I = true -> ng_len g <= ng_len I.
Proof. intros H. apply ng_len_sub. now apply is_violating_sub. Qed.

(* ------------------------------------------------------------------ *)
(** * matches: monotonicity and decidability *)

Lemma matches_sub x R a : ng_sub x R -> matches R a -> matches x a.
Proof.
  intros S M i. destruct (M i) as [MT MF].
  split; intros E; [apply MT | apply MF]; rewrite (S i); congruence.
Qed.

Lemma ng_sub_refl x : ng_sub x x.
Proof. intros i _; reflexivity. Qed.

Lemma ng_sub_trans x y z : ng_sub x y -> ng_sub y z -> ng_sub x z.
Proof.
  intros A B i Hi. rewrite <- (A i Hi). apply B. rewrite (A i Hi). exact Hi.
Qed.

Lemma matches_ext x y a : (forall i, ngat x i = ngat y i) -> matches x a -> matches y a.
Proof. intros E M i. rewrite <- (E i). apply M. Qed.

Fixpoint matchb (g : ng) (a : nat -> bool) : bool :=
  match g with
  | [] => true
  | x :: r => (match x with T => a 0 | F => negb (a 0) | U => true end) && matchb r (fun i => a (S i))
  end.

Lemma matchb_spec g : forall a, matchb g a = true <-> matches g a.
Proof.
  induction g as [|x r IH]; intros a.
  - simpl. split; auto. intros _ i. rewrite ngat_nil. split; discriminate.
  - simpl. rewrite andb_true_iff, IH. split.
    + intros [H0 Hr] i. destruct i.
      * rewrite ngat_cons_0. destruct x; split; try discriminate; intros _; auto.
        now apply negb_true_iff in H0.
      * rewrite ngat_cons_S. apply (Hr i).
    + intros M. split.
      * destruct (M 0) as [MT MF]. rewrite ngat_cons_0 in *.
        destruct x; auto. rewrite MF; auto.
      * intros i. apply (M (S i)).
Qed.

Lemma matches_dec g a : {matches g a} + {~ matches g a}.
Proof.
  destruct (matchb g a) eqn:E.
  - left. now apply matchb_spec.
  - right. intros M. apply matchb_spec in M. congruence.
Qed.

Lemma excluded_or_avoids G a : excluded G a \/ avoids G a.
Proof.
  induction G as [|g G IH].
  - right. intros g [].
  - destruct (matches_dec g a) as [M|M].
    + left. exists g. split; auto. now left.
    + destruct IH as [[x [Hx Mx]]|A].
      * left. exists x. split; auto. now right.
      * right. intros x [<-|Hx]; auto.
Qed.

Lemma excluded_not_avoids G a : excluded G a -> avoids G a -> False.
Proof. intros [g [Hg M]] A. exact (A g Hg M). Qed.

(* ------------------------------------------------------------------ *)
(** * conclude *)

Lemma in_zi (z : list (tv * tv)) i p :
  In (i, p) (combine (seq 0 (length z)) z) <-> i < length z /\ nth i z (U, U) = p.
Proof.
  rewrite in_combine_seq0. split.
  - intros H. split.
    + apply nth_error_Some. congruence.
    + rewrite nth_nth_error, H. reflexivity.
  - intros [L E]. rewrite nth_nth_error in E.
    destruct (nth_error z i) eqn:K; [congruence|]. apply nth_error_None in K. lia.
Qed.

Lemma conclude_spec x I p b :
  conclude x I = Some (p, b) ->
  ngat x p = (if b then F else T) /\ ngat I p = U /\
  forall i, i <> p -> ngat x i <> U -> ngat I i = ngat x i.
Proof.
  unfold conclude.
  set (z := zip_pad x I).
  set (zi := combine (seq 0 (length z)) z).
  destruct (filter _ zi) as [|[pos [x0 y0]] [|? ?]] eqn:E1; try discriminate.
  destruct (filter (fun p0 => active (fst (snd p0)) && active (snd (snd p0)) && _) zi) eqn:E2;
    try discriminate.
  intros H; inversion H; subst pos b; clear H.
  apply filter_singleton in E1. destruct E1 as [Hf [Hin Huniq]].
  simpl in Hf. apply andb_true_iff in Hf. destruct Hf as [Hx0 Hy0].
  apply negb_true_iff, active_false in Hy0. apply active_true in Hx0.
  apply in_zi in Hin. destruct Hin as [Lp Ep]. unfold z in Ep. rewrite zip_pad_nth in Ep.
  injection Ep as Ex Ey.
  split; [| split].
  - rewrite Ex. destruct x0; simpl; congruence.
  - congruence.
  - intros i Hip Hxi.
    assert (Li : i < length z).
    { destruct (lt_dec i (length z)) as [L|L]; auto. exfalso.
      assert (K : nth i z (U, U) = (U, U)) by (apply nth_overflow; lia).
      unfold z in K. rewrite zip_pad_nth in K. congruence. }
    assert (Hi : In (i, (ngat x i, ngat I i)) zi).
    { apply in_zi. split; auto. unfold z. apply zip_pad_nth. }
    destruct (ngat I i) eqn:EI.
    + destruct (ngat x i) eqn:EX; try congruence; exfalso;
        pose proof (filter_nil _ _ E2 _ Hi) as K; simpl in K; discriminate.
    + destruct (ngat x i) eqn:EX; try congruence; exfalso;
        pose proof (filter_nil _ _ E2 _ Hi) as K; simpl in K; discriminate.
    + exfalso. apply Hip.
      assert (K : (i, (ngat x i, U)) = (p, (x0, y0))).
      { apply Huniq; auto. simpl. apply active_true in Hxi. rewrite Hxi. reflexivity. }
      congruence.
Qed.

(** the unit conclusion holds in every assignment that extends I and avoids x *)
Lemma conclude_sound x I p b a :
  conclude x I = Some (p, b) -> matches I a -> ~ matches x a -> a p = b.
Proof.
  intros C M NM. apply conclude_spec in C. destruct C as [Cp [_ Co]].
  destruct (Bool.bool_dec (a p) b) as [E|E]; auto. exfalso. apply NM. intros i.
  destruct (Nat.eq_dec i p) as [->|N].
  - rewrite Cp. destruct b, (a p); split; congruence.
  - destruct (M i) as [MT MF]. split; intros K.
    + apply MT. rewrite (Co i N); congruence.
    + apply MF. rewrite (Co i N); congruence.
Qed.

(* ------------------------------------------------------------------ *)
(** * ng_set, pairs_to_ng, try_from_pair_iter *)

Lemma ngat_ng_set i : forall g x j, ngat (ng_set g i x) j = if Nat.eqb j i then x else ngat g j.
Proof.
  induction i as [|i IH]; intros g x j.
  - destruct g, j; simpl ng_set; try reflexivity.
    rewrite ngat_cons_S, !ngat_nil. reflexivity.
  - destruct g as [|y r], j as [|j]; simpl ng_set; try reflexivity.
    + rewrite ngat_cons_S, IH. simpl Nat.eqb. now rewrite !ngat_nil.
    + rewrite ngat_cons_S, IH. reflexivity.
Qed.

Definition lit (b : bool) : tv := if b then T else F.

Lemma pairs_to_ng_spec l : forall acc r,
  pairs_to_ng acc l = Some r ->
  (forall i, ngat acc i <> U -> ngat r i = ngat acc i) /\
  (forall i b, In (i, b) l -> ngat r i = lit b) /\
  (forall i, ngat r i <> U -> ngat r i = ngat acc i \/ exists b, In (i, b) l /\ ngat r i = lit b).
Proof.
  induction l as [|[p b] l IH]; intros acc r H.
  - simpl in H. inversion H; subst. repeat split; auto. intros i b [].
  - simpl in H.
    destruct (active (ngat acc p) && (if b then negb (tv_eqb (ngat acc p) T) else tv_eqb (ngat acc p) T)) eqn:G;
      try discriminate.
    assert (Hold : ngat acc p = U \/ ngat acc p = lit b).
    { destruct (ngat acc p), b; simpl in G; auto; discriminate. }
    clear G. apply IH in H. destruct H as [H1 [H2 H3]].
    fold (lit b) in H1, H2, H3.
    assert (Hp : ngat r p = lit b).
    { apply (eq_trans (H1 p ltac:(rewrite ngat_ng_set, Nat.eqb_refl; destruct b; discriminate))).
      now rewrite ngat_ng_set, Nat.eqb_refl. }
    split; [| split].
    + intros i Hi. destruct (Nat.eq_dec i p) as [->|N].
      * rewrite Hp. destruct Hold; congruence.
      * rewrite H1; rewrite ngat_ng_set; destruct (Nat.eqb_spec i p); try contradiction; auto.
    + intros i b0 [E|Hin].
      * inversion E; subst. exact Hp.
      * now apply H2.
    + intros i Hi. destruct (H3 i Hi) as [E|[b0 [Hin E]]].
      * rewrite ngat_ng_set in E. destruct (Nat.eqb_spec i p) as [->|N].
        -- right. exists b. split; auto. now left.
        -- now left.
      * right. exists b0. split; auto. now right.
Qed.

(** the result of try_from_pair_iter assigns exactly the given pairs *)
Lemma try_from_pair_iter_spec l r :
  try_from_pair_iter l = Some r ->
  l <> [] /\
  (forall i b, In (i, b) l -> ngat r i = lit b) /\
  (forall i, ngat r i <> U -> exists b, In (i, b) l /\ ngat r i = lit b).
Proof.
  intros H.
  assert (Hl : l <> []) by (destruct l; [discriminate | congruence]).
  assert (H' : pairs_to_ng [] l = Some r) by (destruct l; [discriminate | exact H]).
  apply pairs_to_ng_spec in H'. destruct H' as [_ [H2 H3]].
  repeat split; auto.
  intros i Hi. destruct (H3 i Hi) as [E|E]; auto. rewrite ngat_nil in E. congruence.
Qed.

Lemma try_from_pair_iter_matches l r a :
  try_from_pair_iter l = Some r -> (forall p b, In (p, b) l -> a p = b) -> matches r a.
Proof.
  intros H Hl. apply try_from_pair_iter_spec in H. destruct H as [_ [_ H3]].
  intros i. split; intros E.
  - destruct (H3 i) as [b [Hin Eb]]; [congruence|]. rewrite (Hl _ _ Hin).
    destruct b; simpl in Eb; congruence.
  - destruct (H3 i) as [b [Hin Eb]]; [congruence|]. rewrite (Hl _ _ Hin).
    destruct b; simpl in Eb; congruence.
Qed.

(* ------------------------------------------------------------------ *)
(** * The store: ngs_new and add_ng *)

Lemma ngs_new_ok n : buckets_ok (ngs_new n) /\ stored (ngs_new n) = [].
Proof.
  split.
  - intros i b H. apply nth_error_In in H. simpl in H. apply repeat_spec in H. subst. constructor.
  - unfold stored; simpl. induction n; simpl; auto.
Qed.

Lemma stored_repeat_nil n m : stored (mkNS (repeat [] n) m) = [].
Proof. unfold stored; simpl. induction n; simpl; auto. Qed.

Lemma buckets_ok_mode bs m m' : buckets_ok (mkNS bs m) -> buckets_ok (mkNS bs m').
Proof. intros H; exact H. Qed.

(** the bucket filtering of the Subsume mode *)
Definition sub_filter (idx : nat) (g : ng) (l : list (list ng)) : list (list ng) :=
  map (fun p => if Nat.leb idx (fst p)
                then filter (fun x => negb (is_violating g x)) (snd p)
                else snd p)
      (combine (seq 0 (length l)) l).

Lemma nth_error_sub_filter idx g l i :
  nth_error (sub_filter idx g l) i =
  option_map (fun b => if Nat.leb idx i then filter (fun x => negb (is_violating g x)) b else b)
             (nth_error l i).
Proof.
  unfold sub_filter. rewrite nth_error_map, nth_error_combine_seq.
  destruct (nth_error l i); reflexivity.
Qed.

Lemma length_sub_filter idx g l : length (sub_filter idx g l) = length l.
Proof.
  unfold sub_filter. rewrite map_length, combine_length, seq_length. lia.
Qed.

Lemma in_sub_filter idx g l x :
  In x (concat (sub_filter idx g l)) -> In x (concat l).
Proof.
  rewrite !in_concat_nth. intros [i [b [Hi Hx]]]. rewrite nth_error_sub_filter in Hi.
  destruct (nth_error l i) as [b0|] eqn:E; simpl in Hi; try discriminate.
  inversion Hi; subst. exists i, b0. split; auto.
  destruct (Nat.leb idx i); auto. apply filter_In in Hx. tauto.
Qed.

Lemma sub_filter_in idx g l x :
  In x (concat l) -> is_violating g x = false -> In x (concat (sub_filter idx g l)).
Proof.
  rewrite !in_concat_nth. intros [i [b [Hi Hx]]] Hv.
  eexists i, _. rewrite nth_error_sub_filter, Hi. split; [reflexivity|].
  destruct (Nat.leb idx i); auto. apply filter_In. rewrite Hv. auto.
Qed.

Lemma buckets_ok_upd bs m idx g :
  buckets_ok (mkNS bs m) -> ng_len g = S idx ->
  buckets_ok (mkNS (upd_nth bs idx (fun b => b ++ [g])) m).
Proof.
  intros Hok Hg i b H. simpl in H. rewrite nth_error_upd_nth in H.
  destruct (Nat.eqb_spec i idx) as [->|N].
  - destruct (nth_error bs idx) as [b0|] eqn:E; simpl in H; try discriminate.
    inversion H; subst. apply Forall_app. split.
    + exact (Hok idx b0 E).
    + constructor; auto.
  - exact (Hok i b H).
Qed.

Lemma buckets_ok_sub_filter bs m idx g :
  buckets_ok (mkNS bs m) -> buckets_ok (mkNS (sub_filter idx g bs) m).
Proof.
  intros Hok i b H. simpl in H. rewrite nth_error_sub_filter in H.
  destruct (nth_error bs i) as [b0|] eqn:E; simpl in H; try discriminate.
  inversion H; subst. pose proof (Hok i b0 E) as K.
  destruct (Nat.leb idx i); auto.
  rewrite Forall_forall in *. intros x Hx. apply filter_In in Hx. apply K. tauto.
Qed.

(** add_ng unfolded into its four outcomes *)
Lemma add_ng_cases s g s' :
  add_ng s g = Some s' ->
  (ng_len g = 0 /\ s' = s) \/
  exists idx, ng_len g = S idx /\ idx < length (buckets s) /\
   ( (s' = mkNS (upd_nth (buckets s) idx (fun b => b ++ [g])) (dup s) /\
      (dup s = DNone \/
       (dup s = DEquiv /\ existsb (fun x => ng_eqb x g) (nth idx (buckets s) []) = false)))
   \/ (s' = s /\ dup s = DEquiv /\ existsb (fun x => ng_eqb x g) (nth idx (buckets s) []) = true)
   \/ (s' = s /\ dup s = DSubsume /\
       existsb (fun b => existsb (fun x => is_violating x g) b) (firstn (S idx) (buckets s)) = true)
   \/ (s' = mkNS (upd_nth (sub_filter idx g (buckets s)) idx (fun b => b ++ [g])) (dup s) /\
       dup s = DSubsume /\
       existsb (fun b => existsb (fun x => is_violating x g) b) (firstn (S idx) (buckets s)) = false)).
Proof.
  unfold add_ng. destruct (ng_len g) as [|idx] eqn:L.
  - intros H; inversion H; auto.
  - destruct (Nat.leb (length (buckets s)) idx) eqn:B; try discriminate.
    apply Nat.leb_gt in B. intros H. right. exists idx. split; auto. split; auto.
    destruct (dup s) eqn:D.
    + inversion H. left. auto.
    + destruct (existsb _ (nth idx (buckets s) [])) eqn:E; inversion H.
      * right; left. auto.
      * left. auto.
    + destruct (existsb _ (firstn (S idx) (buckets s))) eqn:E; inversion H.
      * right; right; left. auto.
      * right; right; right. auto.
Qed.

Lemma add_ng_ok s g s' :
  buckets_ok s -> add_ng s g = Some s' ->
  buckets_ok s' /\ dup s' = dup s /\ length (buckets s') = length (buckets s).
Proof.
  intros Hok H. destruct s as [bs m].
  apply add_ng_cases in H.
  destruct H as [[_ ->] | [idx [L [B [[-> _] | [[-> _] | [[-> _] | [-> _]]]]]]]]; simpl in *; auto.
  - split; [| split]; auto.
    + now apply buckets_ok_upd.
    + apply length_upd_nth.
  - split; [| split]; auto.
    + apply buckets_ok_upd; auto. now apply buckets_ok_sub_filter.
    + now rewrite length_upd_nth, length_sub_filter.
Qed.

Lemma add_ng_empty_ignored s g : ng_len g = O -> add_ng s g = Some s.
Proof. intros H. unfold add_ng. now rewrite H. Qed.

Lemma in_nth_in_concat {A} (l : list (list A)) idx x : In x (nth idx l []) -> In x (concat l).
Proof.
  intros H. apply in_concat. exists (nth idx l []). split; auto.
  destruct (lt_dec idx (length l)) as [L|L].
  - now apply nth_In.
  - rewrite nth_overflow in H by lia. destruct H.
Qed.

Lemma in_firstn_in_concat {A} (l : list (list A)) n b x : In b (firstn n l) -> In x b -> In x (concat l).
Proof.
  intros Hb Hx. apply in_concat. exists b. split; auto.
  rewrite <- (firstn_skipn n l). apply in_or_app. now left.
Qed.

(** nothing is forgotten, in all three modes; the bucket discipline is not even needed *)
Theorem add_ng_excluded_gen s g s' :
  add_ng s g = Some s' -> ng_len g <> O ->
  forall a, excluded (stored s') a <-> (excluded (stored s) a \/ matches g a).
Proof.
  intros H Hne a. destruct s as [bs m]. apply add_ng_cases in H.
  destruct H as [[Z _] | [idx [L [B H]]]]; [contradiction|]. simpl in *.
  destruct H as [[-> _] | [[-> [_ E]] | [[-> [_ E]] | [-> [_ E]]]]]; unfold stored; simpl.
  - (* plain insertion *)
    split.
    + intros [x [Hx M]]. apply in_concat_upd_nth in Hx. destruct Hx as [Hx|[-> _]].
      * left. exists x. auto.
      * now right.
    + intros [[x [Hx M]] | M].
      * exists x. split; auto. apply in_concat_upd_nth. now left.
      * exists g. split; auto. apply in_concat_upd_nth. now right.
  - (* Equiv: an equal nogood is stored *)
    split; [now left|]. intros [K|M]; auto.
    apply existsb_exists in E. destruct E as [x [Hx Ex]].
    exists x. split.
    + eapply in_nth_in_concat; eauto.
    + apply matches_ext with (x := g); auto. intros i. symmetry.
      revert i. now apply ng_eqb_spec.
  - (* Subsume: a stored subset of g *)
    split; [now left|]. intros [K|M]; auto.
    apply existsb_exists in E. destruct E as [b [Hb Eb]].
    apply existsb_exists in Eb. destruct Eb as [x [Hx Ex]].
    exists x. split.
    + exact (in_firstn_in_concat bs (S idx) b x Hb Hx).
    + apply matches_sub with (R := g); auto. now apply is_violating_sub.
  - (* Subsume: supersets of g are dropped, g is inserted *)
    split.
    + intros [x [Hx M]]. apply in_concat_upd_nth in Hx. destruct Hx as [Hx|[-> _]].
      * left. exists x. split; auto. eapply in_sub_filter; eauto.
      * now right.
    + assert (Hg : In g (concat (upd_nth (sub_filter idx g bs) idx (fun b => b ++ [g])))).
      { apply in_concat_upd_nth. right. split; auto. now rewrite length_sub_filter. }
      intros [[x [Hx M]] | M].
      * destruct (is_violating g x) eqn:V.
        -- exists g. split; auto. apply matches_sub with (R := x); auto. now apply is_violating_sub.
        -- exists x. split; auto. apply in_concat_upd_nth. left. now apply sub_filter_in.
      * exists g. split; auto.
Qed.

Theorem add_ng_excluded s g s' :
  buckets_ok s -> add_ng s g = Some s' -> ng_len g <> O ->
  forall a, excluded (stored s') a <-> (excluded (stored s) a \/ matches g a).
Proof. intros _. apply add_ng_excluded_gen. Qed.

(** the ignored empty nogood matches every assignment: the side condition is necessary *)
Lemma empty_ng_matches_all g a : ng_len g = O -> matches g a.
Proof.
  intros H i. rewrite (ng_len_zero_inv g H i). split; discriminate.
Qed.

(** a sequence of additions *)
Fixpoint add_all (s : ngstore) (l : list ng) : option ngstore :=
  match l with
  | [] => Some s
  | g :: r => match add_ng s g with Some s' => add_all s' r | None => None end
  end.

Lemma add_all_ok l : forall s s',
  buckets_ok s -> add_all s l = Some s' ->
  buckets_ok s' /\ dup s' = dup s /\ length (buckets s') = length (buckets s).
Proof.
  induction l as [|g l IH]; intros s s' Hok H; simpl in H.
  - inversion H; subst; auto.
  - destruct (add_ng s g) as [s1|] eqn:E; try discriminate.
    destruct (add_ng_ok _ _ _ Hok E) as [Hok1 [D1 L1]].
    destruct (IH _ _ Hok1 H) as [Hok' [D' L']]. repeat split; auto; congruence.
Qed.

Lemma add_all_excluded l : forall s s',
  Forall (fun g => ng_len g <> O) l -> add_all s l = Some s' ->
  forall a, excluded (stored s') a <-> (excluded (stored s) a \/ excluded l a).
Proof.
  induction l as [|g l IH]; intros s s' HF H a; simpl in H.
  - inversion H; subst. split; auto. intros [K|[x [[] _]]]; auto.
  - destruct (add_ng s g) as [s1|] eqn:E; try discriminate.
    inversion HF; subst.
    rewrite (IH _ _ H3 H a), (add_ng_excluded_gen _ _ _ E H2 a).
    split.
    + intros [[K|M]|[x [Hx M]]]; auto.
      * right. exists g. split; auto. now left.
      * right. exists x. split; auto. now right.
    + intros [K|[x [[<-|Hx] M]]]; auto. right. exists x. auto.
Qed.

Theorem add_seq_excluded n m l s' :
  Forall (fun g => ng_len g <> O) l ->
  add_all (mkNS (buckets (ngs_new n)) m) l = Some s' ->
  forall a, excluded (stored s') a <-> excluded l a.
Proof.
  intros HF H a. rewrite (add_all_excluded _ _ _ HF H a). simpl.
  rewrite stored_repeat_nil. split; auto. intros [[x [[] _]]|K]; auto.
Qed.

Lemma add_seq_ok n m l s' :
  add_all (mkNS (buckets (ngs_new n)) m) l = Some s' ->
  buckets_ok s' /\ dup s' = m /\ length (buckets s') = n.
Proof.
  intros H. apply add_all_ok in H.
  - simpl in H. now rewrite repeat_length in H.
  - apply buckets_ok_mode with (m := DEquiv). apply ngs_new_ok.
Qed.

(* ------------------------------------------------------------------ *)
(** * conclusions *)

Definition cstep (acc : option ng) (c : ng) : option ng :=
  match acc with
  | None => None
  | Some a => if is_contradicting c a then None else Some (disjunction a c)
  end.

(** the scanned buckets and the per-bucket conclusions *)
Definition sel_of (s : ngstore) (g : ng) : list (list ng) :=
  map snd (filter (fun p => Nat.leb (fst p) (ng_len g))
                  (combine (seq 0 (length (buckets s))) (buckets s))).
Definition concl_of (s : ngstore) (g : ng) : list ng :=
  filter_map (fun b => try_from_pair_iter (filter_map (fun x => conclude x g) b)) (sel_of s g).

Lemma conclusions_eq s g :
  conclusions s g =
  match fold_left cstep (concl_of s g) (Some g) with
  | None => None
  | Some result =>
    if existsb (fun b => existsb (fun x => is_violating x result || is_violating x g) b) (sel_of s g)
    then None else Some result
  end.
Proof. reflexivity. Qed.

Lemma in_sel_of s g b : In b (sel_of s g) <-> exists i, nth_error (buckets s) i = Some b /\ i <= ng_len g.
Proof.
  unfold sel_of. rewrite in_map_iff. split.
  - intros [[i b0] [E H]]. simpl in E; subst b0. apply filter_In in H. destruct H as [H L].
    apply in_combine_seq0 in H. simpl in L. apply Nat.leb_le in L. eauto.
  - intros [i [H L]]. exists (i, b). split; auto. apply filter_In. split.
    + now apply in_combine_seq0.
    + simpl. now apply Nat.leb_le.
Qed.

Lemma sel_of_stored s g b x : In b (sel_of s g) -> In x b -> In x (stored s).
Proof.
  intros Hb Hx. apply in_sel_of in Hb. destruct Hb as [i [Hi _]].
  apply in_concat_nth. eauto.
Qed.

Lemma tv_or_matches x y (a : nat -> bool) i :
  ((x = T -> a i = true) /\ (x = F -> a i = false)) ->
  ((y = T -> a i = true) /\ (y = F -> a i = false)) ->
  ((tv_or x y = T -> a i = true) /\ (tv_or x y = F -> a i = false)).
Proof.
  intros [A1 A2] [B1 B2]. destruct x, y; simpl; split; intros E; try discriminate; auto.
Qed.

Lemma disjunction_matches x y a : matches x a -> matches y a -> matches (disjunction x y) a.
Proof.
  intros A B i. rewrite ngat_disjunction. apply tv_or_matches; auto.
Qed.

Lemma disjunction_sub x y : is_contradicting y x = false -> ng_sub x (disjunction x y).
Proof.
  intros H i Hi. rewrite ngat_disjunction.
  pose proof (is_contradicting_false _ _ H i) as K.
  destruct (ngat x i) eqn:Ex, (ngat y i) eqn:Ey; simpl; try reflexivity; try congruence;
    exfalso; assert (Q : ngat y i = ngat x i) by (rewrite Ex, Ey; apply K; congruence);
    rewrite Ex, Ey in Q; discriminate.
Qed.

Lemma contradicting_matches x y a : is_contradicting x y = true -> matches x a -> matches y a -> False.
Proof.
  intros H A B. apply is_contradicting_spec in H. destruct H as [i [Hx [Hy Hd]]].
  destruct (A i) as [A1 A2], (B i) as [B1 B2].
  destruct (ngat x i), (ngat y i); try congruence.
  - rewrite A1 in B2; auto. discriminate B2; auto.
  - rewrite A2 in B1; auto. discriminate B1; auto.
Qed.

Lemma fold_cstep_none l : fold_left cstep l None = None.
Proof. induction l; simpl; auto. Qed.

Lemma fold_cstep_inv (P : ng -> Prop) l : forall g,
  P g ->
  (forall acc c, In c l -> P acc -> is_contradicting c acc = false -> P (disjunction acc c)) ->
  match fold_left cstep l (Some g) with
  | Some R => P R
  | None => exists acc c, In c l /\ P acc /\ is_contradicting c acc = true
  end.
Proof.
  induction l as [|c l IH]; intros g Hg Hstep; simpl.
  - exact Hg.
  - destruct (is_contradicting c g) eqn:E.
    + rewrite fold_cstep_none. exists g, c. repeat split; auto; now left.
    + specialize (IH (disjunction g c)).
      destruct (fold_left cstep l (Some (disjunction g c))).
      * apply IH.
        -- apply Hstep; auto. now left.
        -- intros acc c0 Hc. apply Hstep. now right.
      * destruct IH as [acc [c0 [Hc [Pa Ec]]]].
        -- apply Hstep; auto. now left.
        -- intros acc c0 Hc. apply Hstep. now right.
        -- exists acc, c0. repeat split; auto; now right.
Qed.

(** every per-bucket conclusion holds in every total extension of I avoiding the store *)
Lemma concl_of_matches s I c a :
  In c (concl_of s I) -> matches I a -> avoids (stored s) a -> matches c a.
Proof.
  intros Hc M A. unfold concl_of in Hc. apply in_filter_map in Hc.
  destruct Hc as [b [Hb Hc]].
  apply (try_from_pair_iter_matches _ _ _ Hc).
  intros p v Hp. apply in_filter_map in Hp. destruct Hp as [x [Hx Cx]].
  apply (conclude_sound x I p v a Cx M).
  apply A. eapply sel_of_stored; eauto.
Qed.

Definition concl_inv (s : ngstore) (I acc : ng) : Prop :=
  ng_sub I acc /\ forall a, matches I a -> avoids (stored s) a -> matches acc a.

Lemma concl_inv_fold s I :
  match fold_left cstep (concl_of s I) (Some I) with
  | Some R => concl_inv s I R
  | None => exists acc c, In c (concl_of s I) /\ concl_inv s I acc /\ is_contradicting c acc = true
  end.
Proof.
  apply fold_cstep_inv.
  - split; [apply ng_sub_refl | auto].
  - intros acc c Hc [S M] E. split.
    + eapply ng_sub_trans; [exact S|]. now apply disjunction_sub.
    + intros a Ma Aa. apply disjunction_matches; auto.
      eapply concl_of_matches; eauto.
Qed.

(** deductions are sound (the bucket discipline is not needed here) *)
Theorem conclusions_sound_gen s I R :
  conclusions s I = Some R ->
  ng_sub I R /\ forall a, matches I a -> avoids (stored s) a -> matches R a.
Proof.
  rewrite conclusions_eq. pose proof (concl_inv_fold s I) as H.
  destruct (fold_left cstep (concl_of s I) (Some I)) as [r|]; try discriminate.
  destruct (existsb _ (sel_of s I)); try discriminate.
  intros E; inversion E; subst. exact H.
Qed.

Theorem conclusions_sound s I R :
  buckets_ok s -> conclusions s I = Some R ->
  ng_sub I R /\ forall a, matches I a -> avoids (stored s) a -> matches R a.
Proof. intros _. apply conclusions_sound_gen. Qed.

(** a conflict is only reported when no total extension of I avoids all stored nogoods *)
Theorem conflict_sound_gen s I :
  conclusions s I = None -> forall a, matches I a -> excluded (stored s) a.
Proof.
  rewrite conclusions_eq. pose proof (concl_inv_fold s I) as H. intros E a M.
  destruct (excluded_or_avoids (stored s) a) as [X|A]; auto. exfalso.
  destruct (fold_left cstep (concl_of s I) (Some I)) as [r|].
  - destruct H as [S Hr].
    destruct (existsb _ (sel_of s I)) eqn:X; try discriminate.
    apply existsb_exists in X. destruct X as [b [Hb X]].
    apply existsb_exists in X. destruct X as [x [Hx X]].
    apply (A x (sel_of_stored _ _ _ _ Hb Hx)).
    apply orb_true_iff in X. destruct X as [X|X]; apply is_violating_sub in X.
    + apply matches_sub with (R := r); auto.
    + apply matches_sub with (R := I); auto.
  - destruct H as [acc [c [Hc [[S Hacc] Ec]]]].
    apply (contradicting_matches c acc a Ec).
    + eapply concl_of_matches; eauto.
    + auto.
Qed.

Theorem conflict_sound s I :
  buckets_ok s -> conclusions s I = None ->
  forall a, matches I a -> excluded (stored s) a.
Proof. intros _. apply conflict_sound_gen. Qed.

(** and it is always reported when I itself matches a stored nogood *)
Theorem conflict_on_match s I g :
  buckets_ok s -> In g (stored s) -> is_violating g I = true -> conclusions s I = None.
Proof.
  intros Hok Hg V. rewrite conclusions_eq.
  destruct (fold_left cstep (concl_of s I) (Some I)) as [r|]; auto.
  unfold stored in Hg. apply in_concat_nth in Hg. destruct Hg as [i [b [Hi Hgb]]].
  assert (Hb : In b (sel_of s I)).
  { apply in_sel_of. exists i. split; auto.
    pose proof (Hok i b Hi) as F. rewrite Forall_forall in F. specialize (F g Hgb).
    apply is_violating_len in V. lia. }
  assert (X : existsb (fun b => existsb (fun x => is_violating x r || is_violating x I) b) (sel_of s I) = true).
  { apply existsb_exists. exists b. split; auto.
    apply existsb_exists. exists g. split; auto. rewrite V. apply orb_true_r. }
  now rewrite X.
Qed.

(* ------------------------------------------------------------------ *)
(** * update_term_vec *)

Lemma info_0 : info 0%N = F. Proof. reflexivity. Qed.
Lemma info_1 : info 1%N = T. Proof. reflexivity. Qed.
Lemma info_2 : info 2%N = U. Proof. reflexivity. Qed.
Lemma is_tv_0 : is_tv 0%N = true. Proof. reflexivity. Qed.
Lemma is_tv_1 : is_tv 1%N = true. Proof. reflexivity. Qed.
Lemma is_tv_2 : is_tv 2%N = false. Proof. reflexivity. Qed.

Lemma info_term_of x t : info (term_of x t) = match x with U => info t | _ => x end.
Proof. destruct x; reflexivity. Qed.

Lemma ngat_of_terms v i : ngat (ng_of_terms v) i = info (nth i v 2%N).
Proof.
  unfold ngat, ng_of_terms. rewrite <- info_2. apply map_nth.
Qed.

Lemma utv_nth_error g v i :
  nth_error (fst (update_term_vec g v)) i = option_map (term_of (ngat g i)) (nth_error v i).
Proof.
  unfold update_term_vec. simpl fst. rewrite nth_error_map, nth_error_combine_seq.
  destruct (nth_error v i); reflexivity.
Qed.

Lemma utv_length g v : length (fst (update_term_vec g v)) = length v.
Proof.
  unfold update_term_vec. simpl fst. rewrite map_length, combine_length, seq_length. lia.
Qed.

Lemma utv_nth g v i :
  nth i (fst (update_term_vec g v)) 2%N =
  if Nat.ltb i (length v) then term_of (ngat g i) (nth i v 2%N) else 2%N.
Proof.
  rewrite !nth_nth_error, utv_nth_error.
  destruct (Nat.ltb_spec i (length v)) as [L|L].
  - destruct (nth_error v i) eqn:E; [reflexivity|]. apply nth_error_None in E. lia.
  - apply nth_error_None in L. rewrite L. reflexivity.
Qed.

(** the new vector, seen as a nogood: the positions assigned by g (inside the vector) are
    overwritten, the others are kept *)
Lemma ngat_utv g v i :
  ngat (ng_of_terms (fst (update_term_vec g v))) i =
  if Nat.ltb i (length v) && active (ngat g i) then ngat g i else ngat (ng_of_terms v) i.
Proof.
  rewrite !ngat_of_terms, utv_nth.
  destruct (Nat.ltb_spec i (length v)) as [L|L]; simpl.
  - rewrite info_term_of. destruct (ngat g i); reflexivity.
  - rewrite nth_overflow by lia. reflexivity.
Qed.

(** number of undecided positions *)
Fixpoint undec (v : list N) : nat :=
  match v with
  | [] => 0
  | t :: r => (if is_tv t then 0 else 1) + undec r
  end.

Lemma undec_le_length v : undec v <= length v.
Proof. induction v as [|t r IH]; simpl; [lia|]. destruct (is_tv t); lia. Qed.

Lemma utv_measure_gen g v : forall k,
  undec (map (fun p => term_of (ngat g (fst p)) (snd p)) (combine (seq k (length v)) v)) +
  (if existsb (fun p => active (ngat g (fst p)) && negb (is_tv (snd p))) (combine (seq k (length v)) v)
   then 1 else 0) <= undec v.
Proof.
  induction v as [|t r IH]; intros k; simpl; [lia|].
  specialize (IH (S k)).
  destruct (existsb _ (combine (seq (S k) (length r)) r));
  destruct (ngat g k); simpl term_of; simpl active;
    rewrite ?is_tv_0, ?is_tv_1; destruct (is_tv t); simpl; lia.
Qed.

(** every updating round decides at least one more position *)
Lemma utv_measure g v :
  undec (fst (update_term_vec g v)) + (if snd (update_term_vec g v) then 1 else 0) <= undec v.
Proof. apply (utv_measure_gen g v 0). Qed.

(* ------------------------------------------------------------------ *)
(** * conclusion_closure *)

Lemma closure_loop_total s : forall fuel cur,
  undec cur < fuel -> exists r, closure_loop fuel s cur = Some r.
Proof.
  induction fuel as [|f IH]; intros cur H; [lia|].
  cbn [closure_loop]. destruct (conclusions s (ng_of_terms cur)) as [val|]; [|eauto].
  pose proof (utv_measure val cur) as M.
  destruct (update_term_vec val cur) as [cur' upd]. simpl in M.
  destruct upd; [|eauto]. apply IH. lia.
Qed.

(** the fuel S (length v) suffices *)
Theorem closure_total s v : exists r, conclusion_closure s v = Some r.
Proof.
  unfold conclusion_closure.
  destruct (conclusions s (ng_of_terms v)) as [val|]; [|eauto].
  pose proof (utv_measure val v) as M.
  destruct (update_term_vec val v) as [r upd]. simpl in M.
  destruct upd; [|eauto]. apply closure_loop_total.
  pose proof (undec_le_length v). lia.
Qed.

Definition closure_inv (s : ngstore) (v cur : list N) : Prop :=
  length cur = length v /\
  ng_sub (ng_of_terms v) (ng_of_terms cur) /\
  (forall i, is_tv (nth i cur 2%N) = false -> nth i cur 2%N = nth i v 2%N) /\
  (forall a, matches (ng_of_terms v) a -> avoids (stored s) a -> matches (ng_of_terms cur) a).

Lemma closure_inv_refl s v : closure_inv s v v.
Proof. split; [| split; [| split]]; auto. apply ng_sub_refl. Qed.

Lemma closure_inv_step s v cur val :
  closure_inv s v cur -> conclusions s (ng_of_terms cur) = Some val ->
  closure_inv s v (fst (update_term_vec val cur)).
Proof.
  intros [HL [HS [HK HM]]] C. apply conclusions_sound_gen in C. destruct C as [CS CM].
  split; [| split; [| split]].
  - rewrite utv_length. exact HL.
  - eapply ng_sub_trans; [exact HS|]. intros i Hi. rewrite ngat_utv.
    destruct (Nat.ltb i (length cur) && active (ngat val i)); auto.
  - intros i Hi. rewrite utv_nth in *.
    destruct (Nat.ltb_spec i (length cur)) as [L|L].
    + destruct (ngat val i); simpl term_of in *;
        rewrite ?is_tv_0, ?is_tv_1 in Hi; try discriminate. now apply HK.
    + rewrite nth_overflow by lia. reflexivity.
  - intros a Ma Aa i. rewrite ngat_utv.
    destruct (Nat.ltb i (length cur) && active (ngat val i)).
    + apply (CM a); auto.
    + apply (HM a); auto.
Qed.

Lemma closure_loop_sound s v : forall fuel cur r,
  closure_loop fuel s cur = Some r -> closure_inv s v cur ->
  match r with
  | CInconsistent => forall a, matches (ng_of_terms v) a -> excluded (stored s) a
  | CNoUpdate => False
  | CUpdate w => closure_inv s v w
  end.
Proof.
  induction fuel as [|f IH]; intros cur r H Inv; [discriminate|].
  cbn [closure_loop] in H. destruct (conclusions s (ng_of_terms cur)) as [val|] eqn:C.
  - pose proof (closure_inv_step s v cur val Inv C) as Inv'.
    destruct (update_term_vec val cur) as [cur' upd]. simpl in Inv'.
    destruct upd.
    + eapply IH; eauto.
    + inversion H; subst. exact Inv'.
  - inversion H; subst. intros a Ma.
    destruct (excluded_or_avoids (stored s) a) as [X|A]; auto.
    apply (conflict_sound_gen s _ C a).
    destruct Inv as [_ [_ [_ HM]]]. auto.
Qed.

Theorem closure_sound s v :
  buckets_ok s -> forall r, conclusion_closure s v = Some r ->
  match r with
  | CInconsistent => forall a, matches (ng_of_terms v) a -> excluded (stored s) a
  | CNoUpdate => True
  | CUpdate w => length w = length v /\ ng_sub (ng_of_terms v) (ng_of_terms w) /\
                 (forall i, is_tv (nth i v 2%N) = false -> is_tv (nth i w 2%N) = false ->
                            nth i w 2%N = nth i v 2%N) /\
                 forall a, matches (ng_of_terms v) a -> avoids (stored s) a -> matches (ng_of_terms w) a
  end.
Proof.
  intros _ r H. unfold conclusion_closure in H.
  destruct (conclusions s (ng_of_terms v)) as [val|] eqn:C.
  - pose proof (closure_inv_step s v v val (closure_inv_refl s v) C) as Inv'.
    destruct (update_term_vec val v) as [cur' upd]. simpl in Inv'.
    destruct upd.
    + pose proof (closure_loop_sound s v _ _ _ H Inv') as K.
      destruct r; auto. destruct K as [K1 [K2 [K3 K4]]].
      split; [| split; [| split]]; auto.
    + inversion H; subst. exact Logic.I.
  - inversion H; subst. intros a Ma. apply (conflict_sound_gen s _ C a Ma).
Qed.

(** closure_loop never answers CNoUpdate, conclusion_closure answers it exactly when the first
    round decides nothing new *)
Lemma closure_loop_not_noupdate s : forall fuel cur, closure_loop fuel s cur <> Some CNoUpdate.
Proof.
  induction fuel as [|f IH]; intros cur; cbn [closure_loop]; [discriminate|].
  destruct (conclusions s (ng_of_terms cur)); [|discriminate].
  destruct (update_term_vec n cur) as [c u]. destruct u; [apply IH | discriminate].
Qed.

(* ------------------------------------------------------------------ *)
(** * Non-vacuity *)

(** a store holding [T;T] and [T;T;T]: both buckets derive "position 1 is false" from [T;U;T];
    the same literal derived twice is not a conflict *)
Definition ex_store : option ngstore :=
  match add_ng (ngs_new 3) [T; T] with
  | Some s1 => add_ng s1 [T; T; T]
  | None => None
  end.

Example ex_store_buckets :
  option_map buckets ex_store = Some [[]; [[T; T]]; [[T; T; T]]].
Proof. vm_compute. reflexivity. Qed.

Example ex_conclusions :
  match ex_store with Some s => conclusions s [T; U; T] | None => None end = Some [T; F; T].
Proof. vm_compute. reflexivity. Qed.

Example ex_conflict :
  match ex_store with Some s => conclusions s [T; T; U] | None => Some [] end = None.
Proof. vm_compute. reflexivity. Qed.

Example ex_closure :
  match ex_store with Some s => conclusion_closure s [1; 5; 1]%N | None => None end
  = Some (CUpdate [1; 0; 1]%N).
Proof. vm_compute. reflexivity. Qed.

Example ex_closure_noupdate :
  match ex_store with Some s => conclusion_closure s [0; 5; 7]%N | None => None end
  = Some CNoUpdate.
Proof. vm_compute. reflexivity. Qed.

Example ex_closure_inconsistent :
  match ex_store with Some s => conclusion_closure s [1; 1; 7]%N | None => None end
  = Some CInconsistent.
Proof. vm_compute. reflexivity. Qed.

(** Subsume: [T] makes [T;T] redundant, and a later [T] evicts a stored [T;T] *)
Example ex_subsume_keeps :
  option_map buckets (add_all (mkNS (buckets (ngs_new 3)) DSubsume) [[T]; [T; T]])
  = Some [[[T]]; []; []].
Proof. vm_compute. reflexivity. Qed.

Example ex_subsume_evicts :
  option_map buckets (add_all (mkNS (buckets (ngs_new 3)) DSubsume) [[T; T]; [U; F; T]; [T]])
  = Some [[[T]]; [[U; F; T]]; []].
Proof. vm_compute. reflexivity. Qed.

(** Equiv: trailing inactive positions do not make a nogood different *)
Example ex_equiv_dedup :
  option_map buckets (add_all (ngs_new 3) [[T; F]; [T; F; U]; [T; T]])
  = Some [[]; [[T; F]; [T; T]]; []].
Proof. vm_compute. reflexivity. Qed.

(** a nogood larger than the store makes add_ng fail (the Rust code panics) *)
Example ex_too_large : add_ng (ngs_new 2) [T; T; T] = None.
Proof. vm_compute. reflexivity. Qed.

(** the empty nogood is ignored although it matches everything: the side condition of
    add_ng_excluded is necessary *)
Example ex_empty_ignored :
  add_ng (ngs_new 2) [U; U] = Some (ngs_new 2) /\ matches [U; U] (fun _ => true) /\
  ~ excluded (stored (ngs_new 2)) (fun _ => true).
Proof.
  split; [reflexivity|]. split.
  - apply empty_ng_matches_all. reflexivity.
  - intros [g [[] _]].
Qed.

Print Assumptions add_ng_excluded.
Print Assumptions add_seq_excluded.
Print Assumptions conclusions_sound.
Print Assumptions conflict_sound.
Print Assumptions conflict_on_match.
Print Assumptions closure_sound.
Print Assumptions closure_total.
