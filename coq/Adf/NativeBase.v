(** Proofs about the model of lib/src/adf.rs (native back-end), part 1:
    abstraction of a vector of handles to an ADF, the restriction folds
    ([fold_restrict], [apply_interp]), [compare_inf], [filter_st], and the invariance of
    the specification under pointwise equality of acceptance functions. *)
From Coq Require Import NArith List Bool Lia Arith.
From ADF Require Import Base.Maps Spec.Spec Spec.Theory Bdd.Store Bdd.WF Bdd.Node Bdd.Restrict Bdd.Ops
  Adf.Iter Adf.IterProofs Adf.Native Adf.NoGood.
Import ListNotations.
Local Open Scope N_scope.

(* ------------------------------------------------------------------ *)
(** * Abstraction *)

Definition interp_of (l : list N) : interp := map info l.
Definition abs (st : store) (ac : list N) : adf := map (den st) ac.
Definition valid (st : store) (l : list N) : Prop := Forall (fun h => h < size st) l.
(* well-formed input of the semantics functions *)
Definition ac_ok (st : store) (ac : list N) : Prop :=
  Forall (fun h => h < size st) ac /\ Forall (supported (length ac)) (abs st ac).

Lemma interp_of_length l : length (interp_of l) = length l.
Proof. apply map_length. Qed.
Lemma abs_length st ac : length (abs st ac) = length ac.
Proof. apply map_length. Qed.

(* ------------------------------------------------------------------ *)
(** * [info], [is_tv], [is_true], [compare_inf] *)

Lemma info_0 : info 0 = F. Proof. reflexivity. Qed.
Lemma info_1 : info 1 = T. Proof. reflexivity. Qed.
Lemma info_undec h : h <> 0 -> h <> 1 -> info h = U.
Proof.
  intros H0 H1. unfold info.
  destruct (N.eqb_spec h 0) as [?|_]; [contradiction|].
  destruct (N.eqb_spec h 1) as [?|_]; [contradiction|]. reflexivity.
Qed.

Lemma handle_cases h : h = 0 \/ h = 1 \/ (h <> 0 /\ h <> 1).
Proof. lia. Qed.

Lemma is_tv_0 : is_tv 0 = true. Proof. reflexivity. Qed.
Lemma is_tv_1 : is_tv 1 = true. Proof. reflexivity. Qed.
Lemma is_tv_undec h : h <> 0 -> h <> 1 -> is_tv h = false.
Proof. intros H0 H1. unfold is_tv. apply N.leb_gt. lia. Qed.
Lemma is_tv_true h : is_tv h = true -> h = 0 \/ h = 1.
Proof. unfold is_tv. intros H. apply N.leb_le in H. lia. Qed.
Lemma is_tv_le h : is_tv h = true -> h <= 1.
Proof. unfold is_tv. intros H. apply N.leb_le in H. exact H. Qed.
Lemma is_true_0 : is_true 0 = false. Proof. reflexivity. Qed.
Lemma is_true_1 : is_true 1 = true. Proof. reflexivity. Qed.
Lemma is_true_undec h : h <> 1 -> is_true h = false.
Proof. intros H. unfold is_true. apply N.eqb_neq. exact H. Qed.

Lemma info_T h : info h = T <-> h = 1.
Proof.
  destruct (handle_cases h) as [-> | [-> | [H0 H1]]].
  - rewrite info_0. split; [discriminate|lia].
  - rewrite info_1. tauto.
  - rewrite info_undec by assumption. split; [discriminate|contradiction].
Qed.
Lemma info_F h : info h = F <-> h = 0.
Proof.
  destruct (handle_cases h) as [-> | [-> | [H0 H1]]].
  - rewrite info_0. tauto.
  - rewrite info_1. split; [discriminate|lia].
  - rewrite info_undec by assumption. split; [discriminate|contradiction].
Qed.
Lemma info_U h : info h = U <-> is_tv h = false.
Proof.
  destruct (handle_cases h) as [-> | [-> | [H0 H1]]].
  - rewrite info_0, is_tv_0. split; discriminate.
  - rewrite info_1, is_tv_1. split; discriminate.
  - rewrite info_undec, is_tv_undec by assumption. tauto.
Qed.
Lemma is_tv_info h : is_tv h = true <-> info h <> U.
Proof.
  rewrite info_U. destruct (is_tv h); split; congruence.
Qed.

Lemma compare_inf_iff a b : compare_inf a b = true <-> info a = info b.
Proof.
  unfold compare_inf.
  destruct (handle_cases a) as [-> | [-> | [A0 A1]]];
  destruct (handle_cases b) as [-> | [-> | [B0 B1]]];
  rewrite ?is_tv_0, ?is_tv_1, ?is_true_0, ?is_true_1, ?info_0, ?info_1;
  rewrite ?(is_tv_undec a), ?(is_tv_undec b), ?(is_true_undec a), ?(is_true_undec b),
    ?(info_undec a), ?(info_undec b) by assumption;
  cbn; split; congruence.
Qed.

Lemma all_compare_inf_iff : forall a b, length a = length b ->
  (all_compare_inf a b = true <-> interp_of a = interp_of b).
Proof.
  induction a as [|x a IH]; intros [|y b] HL; try discriminate HL.
  - cbn. tauto.
  - cbn [all_compare_inf interp_of map]. rewrite andb_true_iff, compare_inf_iff.
    cbn [length] in HL. rewrite (IH b) by lia. unfold interp_of. split.
    + intros [-> ->]. reflexivity.
    + intros E. inversion E. auto.
Qed.

Lemma forallb_compare_iff : forall a b, length a = length b ->
  (forallb (fun p => compare_inf (fst p) (snd p)) (combine a b) = true <-> interp_of a = interp_of b).
Proof.
  induction a as [|x a IH]; intros [|y b] HL; try discriminate HL.
  - cbn. tauto.
  - cbn [combine forallb fst snd interp_of map]. rewrite andb_true_iff, compare_inf_iff.
    cbn [length] in HL. rewrite (IH b) by lia. unfold interp_of. split.
    + intros [-> ->]. reflexivity.
    + intros E. inversion E. auto.
Qed.

(** the number of constants is the number of decided positions *)
Lemma count_tv_cons a l : count_tv (a :: l) = (if is_tv a then 1 else 0) + count_tv l.
Proof. unfold count_tv. cbn [filter]. destruct (is_tv a); cbn [length]; lia. Qed.

Lemma count_tv_ndecided l : count_tv l = N.of_nat (ndecided (interp_of l)).
Proof.
  induction l as [|a l IH]; [reflexivity|].
  rewrite count_tv_cons, IH. cbn [interp_of map]. rewrite ndecided_cons.
  destruct (handle_cases a) as [-> | [-> | [A0 A1]]].
  - rewrite is_tv_0, info_0. cbn [tv_eqb]. unfold interp_of. lia.
  - rewrite is_tv_1, info_1. cbn [tv_eqb]. unfold interp_of. lia.
  - rewrite is_tv_undec, info_undec by assumption. cbn [tv_eqb]. unfold interp_of. lia.
Qed.

Lemma two_valued_interp_of v : Forall (fun h => is_tv h = true) v -> TwoValued (interp_of v).
Proof.
  intros H. unfold TwoValued, interp_of. induction H as [|h v Hh _ IH]; cbn [map]; constructor; auto.
  apply is_tv_info. exact Hh.
Qed.

(* ------------------------------------------------------------------ *)
(** * Generic list helpers *)

Lemma Forall2_compose {A B C} (R : A -> B -> Prop) (S : B -> C -> Prop) (T : A -> C -> Prop) :
  (forall x y z, R x y -> S y z -> T x z) ->
  forall l1 l2 l3, Forall2 R l1 l2 -> Forall2 S l2 l3 -> Forall2 T l1 l3.
Proof.
  intros H l1 l2 l3 H1. revert l3. induction H1; intros l3 H2; inversion H2; subst; constructor; eauto.
Qed.

Lemma Forall2_flip {A B} (R : A -> B -> Prop) l l' : Forall2 R l l' -> Forall2 (fun y x => R x y) l' l.
Proof. induction 1; constructor; auto. Qed.

Lemma Forall2_impl_Forall_r {A B} (P : B -> Prop) (R R' : A -> B -> Prop) l l' :
  Forall P l' -> (forall x y, P y -> R x y -> R' x y) -> Forall2 R l l' -> Forall2 R' l l'.
Proof. intros HP HI H. induction H; constructor; inversion HP; subst; auto. Qed.

Lemma valid_extends st st' l : extends st st' -> valid st l -> valid st' l.
Proof.
  intros E H. unfold valid in *. rewrite Forall_forall in *. intros h Hh.
  apply (extends_lt st st' h E). auto.
Qed.

(* ------------------------------------------------------------------ *)
(** * Pointwise equality of acceptance functions *)

Definition adf_eq (D D' : adf) : Prop := Forall2 feq D D'.

Lemma feq_sym f g : feq f g -> feq g f.
Proof. intros H a. symmetry. apply H. Qed.

Lemma adf_eq_sym D D' : adf_eq D D' -> adf_eq D' D.
Proof. unfold adf_eq. induction 1; constructor; auto using feq_sym. Qed.

Lemma adf_eq_length D D' : adf_eq D D' -> length D = length D'.
Proof. apply Forall2_len. Qed.

Lemma Cons3_feq f g v r : feq f g -> Cons3 f v r -> Cons3 g v r.
Proof.
  intros E. destruct r; cbn.
  - intros H a Ha. rewrite <- E. auto.
  - intros H a Ha. rewrite <- E. auto.
  - intros [H1 H2]. split; intros H.
    + apply H1. intros a Ha. rewrite E. auto.
    + apply H2. intros a Ha. rewrite E. auto.
Qed.

Lemma Gamma_feq D D' v w : adf_eq D D' -> Gamma D v w -> Gamma D' v w.
Proof.
  unfold adf_eq, Gamma. intros E. revert w.
  induction E as [|f g D D' Hfg _ IH]; intros w HG; inversion HG; subst; constructor; auto.
  eapply Cons3_feq; eauto.
Qed.

Lemma Complete_feq D D' v : adf_eq D D' -> Complete D v -> Complete D' v.
Proof. unfold Complete. apply Gamma_feq. Qed.

Lemma Grounded_feq D D' g : adf_eq D D' -> Grounded D g -> Grounded D' g.
Proof.
  intros E [C M]. split.
  - eapply Complete_feq; eauto.
  - intros w Cw. apply M. eapply Complete_feq; [apply adf_eq_sym|]; eauto.
Qed.

Lemma reduct_feq D D' v : adf_eq D D' -> adf_eq (reduct D v) (reduct D' v).
Proof.
  unfold adf_eq, reduct. induction 1 as [|f g D D' Hfg _ IH]; cbn [map]; constructor; auto.
  intros a. apply Hfg.
Qed.

Lemma Stable_feq D D' v : adf_eq D D' -> Stable D v -> Stable D' v.
Proof.
  intros E [[C TV] S]. split.
  - split; auto. eapply Complete_feq; eauto.
  - intros g G. apply S. eapply Grounded_feq; [|exact G].
    apply adf_eq_sym, reduct_feq, E.
Qed.

Lemma supported_feq n f g : feq f g -> supported n f -> supported n g.
Proof. intros E S a b H. rewrite <- !E. apply S. exact H. Qed.

Lemma supported_adf_eq n D D' : adf_eq D D' -> Forall (supported n) D -> Forall (supported n) D'.
Proof.
  unfold adf_eq. induction 1; intros HS; inversion HS; subst; constructor; auto.
  eapply supported_feq; eauto.
Qed.

Lemma abs_extends c st st' ac : WF c st -> extends st st' -> valid st ac ->
  adf_eq (abs st ac) (abs st' ac).
Proof.
  intros WFst E V. unfold adf_eq, abs. induction V as [|h l Hh _ IH]; cbn [map]; constructor; auto.
  apply feq_sym. apply (extends_den_stable c st st' h WFst E Hh).
Qed.

Lemma Gamma_abs st : forall ac v w,
  Gamma (abs st ac) v (interp_of w) <-> Forall2 (fun a it => Cons3 (den st a) v (info it)) ac w.
Proof.
  unfold Gamma, abs, interp_of.
  induction ac as [|a ac IH]; intros v [|x w]; cbn [map]; split; intros H; inversion H; subst;
    constructor; auto; apply IH; auto.
Qed.

(* ------------------------------------------------------------------ *)
(** * The assignment transformer computed by [fold_restrict] *)

Definition sel (only_false : bool) (t : N) : bool :=
  is_tv t && (negb only_false || negb (is_true t)).

Fixpoint ovl (only_false : bool) (l : list N) (idx : N) (x : asg) : asg :=
  match l with
  | [] => x
  | t :: r =>
    if sel only_false t then upd (ovl only_false r (idx + 1) x) idx (is_true t)
    else ovl only_false r (idx + 1) x
  end.

Lemma ovl_spec o l : forall idx x i,
  ovl o l idx x i =
  if idx <=? i then
    (if sel o (nth (N.to_nat (i - idx)) l 2) then is_true (nth (N.to_nat (i - idx)) l 2) else x i)
  else x i.
Proof.
  induction l as [|t r IH]; intros idx x i.
  - cbn [ovl]. destruct (idx <=? i); [|reflexivity].
    destruct (N.to_nat (i - idx)); reflexivity.
  - cbn [ovl]. destruct (sel o t) eqn:Hs.
    + unfold upd. destruct (N.eqb_spec i idx) as [->|Hne].
      * rewrite N.leb_refl, N.sub_diag. change (N.to_nat 0) with O. cbn [nth]. rewrite Hs. reflexivity.
      * rewrite IH. destruct (N.leb_spec (idx + 1) i) as [H1|H1]; destruct (N.leb_spec idx i) as [H2|H2]; try lia.
        -- replace (N.to_nat (i - idx)) with (S (N.to_nat (i - (idx + 1)))) by lia. reflexivity.
        -- reflexivity.
    + rewrite IH. destruct (N.eq_dec i idx) as [->|Hne].
      * destruct (N.leb_spec (idx + 1) idx) as [H1|H1]; [lia|].
        rewrite N.leb_refl, N.sub_diag. change (N.to_nat 0) with O. cbn [nth]. rewrite Hs. reflexivity.
      * destruct (N.leb_spec (idx + 1) i) as [H1|H1]; destruct (N.leb_spec idx i) as [H2|H2]; try lia.
        -- replace (N.to_nat (i - idx)) with (S (N.to_nat (i - (idx + 1)))) by lia. reflexivity.
        -- reflexivity.
Qed.

Lemma val_interp_of l i : val (interp_of l) i = info (nth (N.to_nat i) l 2).
Proof.
  unfold val, interp_of.
  change (nth (N.to_nat i) (map info l) U) with (nth (N.to_nat i) (map info l) (info 2)).
  apply map_nth.
Qed.

Lemma ovl_override l x i : ovl false l 0 x i = override (interp_of l) x i.
Proof.
  rewrite ovl_spec. destruct (N.leb_spec 0 i) as [_|H]; [|lia].
  rewrite N.sub_0_r. unfold override. rewrite val_interp_of.
  generalize (nth (N.to_nat i) l 2). intros t. unfold sel.
  destruct (handle_cases t) as [-> | [-> | [H0 H1]]].
  - reflexivity.
  - reflexivity.
  - rewrite is_tv_undec, info_undec by assumption. reflexivity.
Qed.

Lemma ovl_mask l x i : ovl true l 0 x i = mask (interp_of l) x i.
Proof.
  rewrite ovl_spec. destruct (N.leb_spec 0 i) as [_|H]; [|lia].
  rewrite N.sub_0_r. unfold mask. rewrite val_interp_of.
  generalize (nth (N.to_nat i) l 2). intros t. unfold sel.
  destruct (handle_cases t) as [-> | [-> | [H0 H1]]].
  - reflexivity.
  - reflexivity.
  - rewrite is_tv_undec, info_undec by assumption. reflexivity.
Qed.

(* ------------------------------------------------------------------ *)
(** * [fold_restrict] *)

Lemma fold_restrict_ok c o : forall l st acc idx st' r,
  WF c st -> acc < size st -> fold_restrict c o st acc l idx = Some (st', r) ->
  WF c st' /\ extends st st' /\ r < size st' /\
  feq (den st' r) (fun x => den st acc (ovl o l idx x)).
Proof.
  induction l as [|t l IH]; intros st acc idx st' r WFst Ha X.
  - cbn [fold_restrict] in X. inversion X; subst.
    split; [exact WFst|]. split; [apply extends_refl|]. split; [exact Ha|]. intros a. reflexivity.
  - cbn [fold_restrict ovl] in *. fold (sel o t) in X. destruct (sel o t) eqn:Hs.
    + apply obind_inv in X. destruct X as ([s1 acc'] & X1 & X).
      destruct (restrict_ok c st acc idx (is_true t) s1 acc' WFst Ha X1) as (WF1 & E1 & Hacc' & D1).
      destruct (IH s1 acc' (idx + 1) st' r WF1 Hacc' X) as (WF' & E' & Hr & D').
      split; [exact WF'|]. split; [eapply extends_trans; eauto|]. split; [exact Hr|].
      intros a. rewrite D'. rewrite D1. reflexivity.
    + apply (IH st acc (idx + 1) st' r WFst Ha X).
Qed.

Lemma fold_restrict_total c o : forall l st acc idx,
  WF c st -> acc < size st -> exists st' r, fold_restrict c o st acc l idx = Some (st', r).
Proof.
  induction l as [|t l IH]; intros st acc idx WFst Ha.
  - cbn [fold_restrict]. eauto.
  - cbn [fold_restrict]. fold (sel o t). destruct (sel o t) eqn:Hs.
    + destruct (restrict_total c st acc idx (is_true t) WFst Ha) as (s1 & acc' & X1).
      rewrite X1. cbn [obind].
      destruct (restrict_ok c st acc idx (is_true t) s1 acc' WFst Ha X1) as (WF1 & E1 & Hacc' & D1).
      apply IH; auto.
    + apply IH; auto.
Qed.

(** the fold with [only_false = false]: the handle of "acc under the partial assignment v" *)
Lemma fold_restrict_override c l st acc st' r :
  WF c st -> acc < size st -> fold_restrict c false st acc l 0 = Some (st', r) ->
  WF c st' /\ extends st st' /\ r < size st' /\
  feq (den st' r) (fun x => den st acc (override (interp_of l) x)).
Proof.
  intros WFst Ha X. destruct (fold_restrict_ok c false l st acc 0 st' r WFst Ha X) as (W' & E & Hr & Hd).
  split; [exact W'|]. split; [exact E|]. split; [exact Hr|]. intros a. rewrite Hd. apply den_ext. intros i. apply ovl_override.
Qed.

Lemma fold_restrict_mask c l st acc st' r :
  WF c st -> acc < size st -> fold_restrict c true st acc l 0 = Some (st', r) ->
  WF c st' /\ extends st st' /\ r < size st' /\
  feq (den st' r) (fun x => den st acc (mask (interp_of l) x)).
Proof.
  intros WFst Ha X. destruct (fold_restrict_ok c true l st acc 0 st' r WFst Ha X) as (W' & E & Hr & Hd).
  split; [exact W'|]. split; [exact E|]. split; [exact Hr|]. intros a. rewrite Hd. apply den_ext. intros i. apply ovl_mask.
Qed.

(* ------------------------------------------------------------------ *)
(** * [apply_interp] *)

(** transport of a pointwise relation whose right-hand side mentions an older store *)
Lemma den_rel_transport c st s1 (k : asg -> asg) (st' : store) l l' :
  WF c st -> extends st s1 -> valid st l' ->
  Forall2 (fun h a => feq (den st' h) (fun x => den s1 a (k x))) l l' ->
  Forall2 (fun h a => feq (den st' h) (fun x => den st a (k x))) l l'.
Proof.
  intros WFst E V H. eapply Forall2_impl_Forall_r; [exact V| |exact H].
  intros h a Ha Hd x. cbv beta in *. rewrite Hd.
  apply (extends_den_stable c st s1 a WFst E Ha).
Qed.

Lemma apply_interp_ok c o interp : forall ac st st' r,
  WF c st -> valid st ac -> apply_interp c o st ac interp = Some (st', r) ->
  WF c st' /\ extends st st' /\ valid st' r /\
  Forall2 (fun h a => feq (den st' h) (fun x => den st a (ovl o interp 0 x))) r ac.
Proof.
  induction ac as [|a ac IH]; intros st st' r WFst V X.
  - cbn [apply_interp] in X. inversion X; subst.
    split; [exact WFst|]. split; [apply extends_refl|]. split; constructor.
  - cbn [apply_interp] in X. inversion V as [|? ? Ha Vr]; subst.
    apply obind_inv in X. destruct X as ([s1 a'] & X1 & X).
    apply obind_inv in X. destruct X as ([s2 r'] & X2 & X). inversion X; subst s2 r. clear X.
    destruct (fold_restrict_ok c o interp st a 0 s1 a' WFst Ha X1) as (WF1 & E1 & Ha' & D1).
    destruct (IH s1 st' r' WF1 (valid_extends st s1 ac E1 Vr) X2) as (WF' & E' & V' & D').
    split; [exact WF'|]. split; [eapply extends_trans; eauto|]. split.
    + constructor; [apply (extends_lt s1 st' a' E' Ha')|exact V'].
    + constructor.
      * intros x. rewrite (extends_den_stable c s1 st' a' WF1 E' Ha' x). apply D1.
      * apply (den_rel_transport c st s1 (ovl o interp 0) st' r' ac WFst E1 Vr D').
Qed.

Lemma apply_interp_total c o interp : forall ac st,
  WF c st -> valid st ac -> exists st' r, apply_interp c o st ac interp = Some (st', r).
Proof.
  induction ac as [|a ac IH]; intros st WFst V.
  - cbn [apply_interp]. eauto.
  - cbn [apply_interp]. inversion V as [|? ? Ha Vr]; subst.
    destruct (fold_restrict_total c o interp st a 0 WFst Ha) as (s1 & a' & X1).
    rewrite X1. cbn [obind].
    destruct (fold_restrict_ok c o interp st a 0 s1 a' WFst Ha X1) as (WF1 & E1 & Ha' & D1).
    destruct (IH s1 WF1 (valid_extends st s1 ac E1 Vr)) as (s2 & r' & X2).
    rewrite X2. cbn [obind]. eauto.
Qed.

(* ------------------------------------------------------------------ *)
(** * The three-valued consequence of a handle, by canonicity *)

Lemma cons3_info st h (f : bfun) v : WFN st -> h < size st ->
  (forall a a', (forall i, a i = a' i) -> f a = f a') ->
  feq (den st h) (fun x => f (override v x)) -> Cons3 f v (info h).
Proof.
  intros W Hh Hext Hd.
  assert (Hc : forall a, completes v a -> f a = den st h a).
  { intros a Ha. rewrite Hd. apply Hext. intros i. symmetry. apply completes_override. exact Ha. }
  destruct (handle_cases h) as [-> | [-> | [H0 H1]]].
  - rewrite info_0. cbn. intros a Ha. rewrite (Hc a Ha). reflexivity.
  - rewrite info_1. cbn. intros a Ha. rewrite (Hc a Ha). reflexivity.
  - rewrite info_undec by assumption. cbn. split; intros Hall.
    + apply H1. apply (const_true_iff st h W Hh). intros a. rewrite Hd.
      apply Hall. apply override_completes.
    + apply H0. apply (const_false_iff st h W Hh). intros a. rewrite Hd.
      apply Hall. apply override_completes.
Qed.

Lemma cons3_den c st0 st a h v : WF c st -> h < size st ->
  feq (den st h) (fun x => den st0 a (override v x)) -> Cons3 (den st0 a) v (info h).
Proof.
  intros WFst Hh Hd. apply (cons3_info st h (den st0 a) v (wf_n c st WFst) Hh); [|exact Hd].
  intros x x' E. apply den_ext. exact E.
Qed.

(* ------------------------------------------------------------------ *)
(** * [filter_st]: filtering with a store-threading predicate *)

Inductive filtered {A} (P : A -> Prop) : list A -> list A -> Prop :=
| filtered_nil : filtered P [] []
| filtered_keep x l r : P x -> filtered P l r -> filtered P (x :: l) (x :: r)
| filtered_drop x l r : ~ P x -> filtered P l r -> filtered P (x :: l) r.

Lemma filtered_In {A} (P : A -> Prop) l r : filtered P l r -> forall x, In x r <-> (In x l /\ P x).
Proof.
  induction 1 as [|y l r Py _ IH|y l r Py _ IH]; intros x; cbn [In].
  - tauto.
  - rewrite IH. split.
    + intros [->|[H1 H2]]; auto.
    + intros [[->|H1] H2]; auto.
  - rewrite IH. split.
    + intros [H1 H2]; auto.
    + intros [[->|H1] H2]; [contradiction|auto].
Qed.

Lemma filtered_map_NoDup {A B} (P : A -> Prop) (f : A -> B) l r :
  filtered P l r -> NoDup (map f l) -> NoDup (map f r).
Proof.
  induction 1 as [|y l r Py Hf IH|y l r Py Hf IH]; cbn [map]; intros ND.
  - constructor.
  - inversion ND as [|? ? Hn ND']; subst. constructor; auto.
    intros Hin. apply Hn. apply in_map_iff in Hin. destruct Hin as (z & Ez & Hz).
    apply in_map_iff. exists z. split; auto. apply (filtered_In P l r Hf z). exact Hz.
  - inversion ND; subst. auto.
Qed.

Lemma filtered_NoDup {A} (P : A -> Prop) l r : filtered P l r -> NoDup l -> NoDup r.
Proof.
  intros Hf ND. rewrite <- (map_id r). apply (filtered_map_NoDup P (fun x => x) l r Hf).
  rewrite map_id. exact ND.
Qed.

Lemma filtered_hd {A} (P : A -> Prop) l r x : filtered P l r -> hd_error l = Some x -> P x ->
  hd_error r = Some x.
Proof.
  intros Hf. destruct Hf as [|y l r Py _|y l r Py _]; cbn [hd_error]; intros E Px;
    inversion E; subst; [reflexivity|contradiction].
Qed.

(** order preservation: [r] is a subsequence of [l] *)
Inductive subseq {A} : list A -> list A -> Prop :=
| subseq_nil : subseq [] []
| subseq_keep x l r : subseq r l -> subseq (x :: r) (x :: l)
| subseq_drop x l r : subseq r l -> subseq r (x :: l).

Lemma filtered_subseq {A} (P : A -> Prop) l r : filtered P l r -> subseq r l.
Proof. induction 1; constructor; auto. Qed.

(** if the predicate [p] keeps the store invariant [I] and decides [P] on the elements
    satisfying [Q], then [filter_st p] returns exactly the elements satisfying [P], in order *)
Lemma filter_st_ok {A} (I : store -> Prop) (Q P : A -> Prop) (p : store -> A -> option (store * bool)) :
  (forall s x s' b, I s -> Q x -> p s x = Some (s', b) -> I s' /\ extends s s' /\ (b = true <-> P x)) ->
  forall l st st' r, I st -> Forall Q l -> filter_st p st l = Some (st', r) ->
    I st' /\ extends st st' /\ filtered P l r.
Proof.
  intros Hp. induction l as [|x l IH]; intros st st' r HI HQ X.
  - cbn [filter_st] in X. inversion X; subst. split; [exact HI|]. split; [apply extends_refl|constructor].
  - cbn [filter_st] in X. inversion HQ as [|? ? Qx Ql]; subst.
    apply obind_inv in X. destruct X as ([s1 b] & X1 & X).
    apply obind_inv in X. destruct X as ([s2 r'] & X2 & X). inversion X; subst s2 r. clear X.
    destruct (Hp st x s1 b HI Qx X1) as (I1 & E1 & Hb).
    destruct (IH s1 st' r' I1 Ql X2) as (I' & E' & Hf).
    split; [exact I'|]. split; [eapply extends_trans; eauto|].
    destruct b.
    + apply filtered_keep; [apply Hb; reflexivity|exact Hf].
    + apply filtered_drop; [intros Px; apply Hb in Px; discriminate|exact Hf].
Qed.

Lemma filter_st_total {A} (I : store -> Prop) (Q : A -> Prop) (p : store -> A -> option (store * bool)) :
  (forall s x, I s -> Q x -> exists s' b, p s x = Some (s', b)) ->
  (forall s x s' b, I s -> Q x -> p s x = Some (s', b) -> I s') ->
  forall l st, I st -> Forall Q l -> exists st' r, filter_st p st l = Some (st', r).
Proof.
  intros Ht Hp. induction l as [|x l IH]; intros st HI HQ.
  - cbn [filter_st]. eauto.
  - cbn [filter_st]. inversion HQ as [|? ? Qx Ql]; subst.
    destruct (Ht st x HI Qx) as (s1 & b & X1). rewrite X1. cbn [obind].
    destruct (IH s1 (Hp st x s1 b HI Qx X1) Ql) as (s2 & r' & X2). rewrite X2. cbn [obind]. eauto.
Qed.
