(** The counting-guided stable-model search [stable_count] (Adf/Search.v, model of
    two_val_model_counts_logic): soundness for every comparator and both values of the
    early-stop flag, termination within the fuel, completeness and absence of duplicates for the
    repaired code, and a concrete instance on which the early stop loses a stable model. *)
From Coq Require Import NArith List Bool Lia Arith.
From ADF Require Import Base.Maps Spec.Spec Spec.Theory Bdd.Store Bdd.WF Bdd.Node Bdd.Restrict Bdd.Ops
  Adf.Iter Adf.IterProofs Adf.Native Adf.NoGood Adf.NativeBase Adf.GroundedProofs Adf.CompleteProofs
  Adf.StableProofs Adf.NativeExamples Adf.Search.
Import ListNotations.
Local Open Scope N_scope.

(* ------------------------------------------------------------------ *)
(** * List helpers *)

Lemma nth_set_nth_eq {A} (l : list A) i x d : (i < length l)%nat -> nth i (set_nth l i x) d = x.
Proof.
  revert i. induction l as [|y l IH]; intros [|i] H; cbn [length] in H; try lia; cbn [set_nth nth]; auto.
  apply IH. lia.
Qed.

Lemma nth_set_nth_neq {A} (l : list A) i p x d : p <> i -> nth p (set_nth l i x) d = nth p l d.
Proof.
  revert i p. induction l as [|y l IH]; intros [|i] [|p] H; cbn [set_nth nth]; auto; try congruence.
Qed.

Lemma set_nth_oob {A} (l : list A) i x : (length l <= i)%nat -> set_nth l i x = l.
Proof.
  revert i. induction l as [|y l IH]; intros [|i] H; cbn [length] in H; cbn [set_nth]; auto; try lia.
  f_equal. apply IH. lia.
Qed.

Lemma min_by_In {A} (cmp : A -> A -> comparison) l x : min_by cmp l = Some x -> In x l.
Proof.
  destruct l as [|y r]; cbn [min_by]; [discriminate|]. intros E. inversion E as [E']. clear E.
  assert (G : forall r y, In (fold_left (fun m z => match cmp m z with Gt => z | _ => m end) r y) (y :: r)).
  { clear. induction r as [|z r IH]; intros y; cbn [fold_left]; [left; reflexivity|].
    destruct (IH (match cmp y z with Gt => z | _ => y end)) as [H|H].
    - rewrite <- H. destruct (cmp y z); cbn; auto.
    - right. right. exact H. }
  apply G.
Qed.

Lemma In_combine_seq {A} (l : list A) d : forall k i a, In (i, a) (combine (seq k (length l)) l) ->
  (k <= i < k + length l)%nat /\ nth (i - k) l d = a.
Proof.
  induction l as [|x l IH]; intros k i a H; cbn [length seq combine] in H; [destruct H|].
  destruct H as [H|H].
  - inversion H; subst. cbn [length]. split; [lia|]. rewrite Nat.sub_diag. reflexivity.
  - apply IH in H. destruct H as [H1 H2]. cbn [length]. split; [lia|].
    replace (i - k)%nat with (S (i - S k)) by lia. exact H2.
Qed.

Lemma In_enum {A} (l : list A) d i a : In (i, a) (enum l) -> (i < length l)%nat /\ nth i l d = a.
Proof.
  intros H. apply (In_combine_seq l d 0 i a) in H. rewrite Nat.sub_0_r in H. destruct H; split; [lia|auto].
Qed.

(* ------------------------------------------------------------------ *)
(** * The path cubes of a diagram ([cubes], model of Bdd::interpretations) *)

(** an assignment satisfies a cube (negative literals, positive literals) *)
Definition sat (cu : list N * list N) (a : asg) : Prop :=
  (forall v, In v (fst cu) -> a v = false) /\ (forall v, In v (snd cu) -> a v = true).

(** no assignment satisfies two cubes at different positions of the list *)
Fixpoint disj_list (l : list (list N * list N)) : Prop :=
  match l with
  | [] => True
  | cu :: r => (forall cu' a, In cu' r -> sat cu a -> sat cu' a -> False) /\ disj_list r
  end.

Lemma disj_list_app l1 l2 : disj_list l1 -> disj_list l2 ->
  (forall c1 c2 a, In c1 l1 -> In c2 l2 -> sat c1 a -> sat c2 a -> False) -> disj_list (l1 ++ l2).
Proof.
  induction l1 as [|cu l1 IH]; intros D1 D2 X; cbn [app]; [exact D2|].
  cbn [disj_list] in *. destruct D1 as [D1a D1b]. split.
  - intros cu' a Hin S1 S2. apply in_app_or in Hin. destruct Hin as [Hin|Hin].
    + apply (D1a cu' a Hin S1 S2).
    + apply (X cu cu' a); auto. left; reflexivity.
  - apply IH; auto. intros c1 c2 a H1 H2. apply X; auto. right; exact H1.
Qed.

Section Cubes.
  Variable st : store.
  Hypothesis W : WFN st.
  Variable n : nat.
  Variable goal : bool.
  Variable gv : N.

  (** what we need of a list of cubes produced for the diagram [t] with accumulated prefix *)
  Definition CSpec (L : list (list N * list N)) (t : N) (neg pos : list N) : Prop :=
    (forall cu, In cu L -> incl neg (fst cu) /\ incl pos (snd cu) /\
       (forall v, In v (fst cu) -> In v neg \/ ((N.to_nat v < n)%nat /\ (v = gv -> goal = false))) /\
       (forall v, In v (snd cu) -> In v pos \/ ((N.to_nat v < n)%nat /\ (v = gv -> goal = true)))) /\
    (forall a, sat (neg, pos) a -> den st t a = goal -> a gv = goal -> exists cu, In cu L /\ sat cu a) /\
    disj_list L.

  Definition child_cubes (f : nat) (ch : N) (neg pos : list N) :=
    if is_tv ch then (if eqb (is_true ch) goal then [(neg, pos)] else [])
    else cubes_f f st ch goal gv neg pos.

  Lemma supported_child t (b : bool) : 2 <= t -> t < size st -> supported n (den st t) ->
    supported n (den st (if b then nhi (get_node st t) else nlo (get_node st t))).
  Proof.
    intros H2 Hs S a a' E.
    rewrite <- !(den_cofactor_top st W t _ b H2 Hs). apply S.
    intros i Hi. unfold upd. destruct (i =? nv (get_node st t)); auto.
  Qed.

  Lemma top_var_lt t : 2 <= t -> t < size st -> supported n (den st t) ->
    (N.to_nat (nv (get_node st t)) < n)%nat.
  Proof.
    intros H2 Hs S. destruct (lt_dec (N.to_nat (nv (get_node st t))) n) as [H|H]; [exact H|exfalso].
    destruct (wf_node' st t W H2 Hs) as (_ & Hne & Hlo & Hhi & _).
    apply Hne. apply (canonicity st W); try lia.
    intros a. rewrite <- (den_cofactor_lo st W t a H2 Hs), <- (den_cofactor_hi st W t a H2 Hs).
    apply S. intros i Hi. unfold upd.
    destruct (N.eqb_spec i (nv (get_node st t))) as [->|_]; [lia|reflexivity].
  Qed.

  Lemma cubes_f_spec : forall fuel t neg pos, 2 <= t -> t < size st -> (N.to_nat t < fuel)%nat ->
    supported n (den st t) -> CSpec (cubes_f fuel st t goal gv neg pos) t neg pos.
  Proof.
    induction fuel as [|f IH]; intros t neg pos H2 Hs Hf HS; [lia|].
    destruct (wf_node' st t W H2 Hs) as (_ & Hne & Hlo & Hhi & _).
    pose proof (top_var_lt t H2 Hs HS) as Hv.
    cbn [cubes_f]. set (nd := get_node st t) in *. set (v := nv nd) in *.
    assert (Et : is_tv t = false) by (apply is_tv_undec; lia). rewrite Et.
    (* the lists of the two children *)
    assert (CH : forall (b : bool) neg' pos',
               CSpec (child_cubes f (if b then nhi nd else nlo nd) neg' pos')
                     (if b then nhi nd else nlo nd) neg' pos').
    { intros b neg' pos'. set (ch := if b then nhi nd else nlo nd).
      assert (Hch : ch < t) by (unfold ch; destruct b; assumption).
      assert (Sch : supported n (den st ch)) by (apply (supported_child t b H2 Hs HS)).
      unfold child_cubes. destruct (is_tv ch) eqn:Tch.
      - assert (Dch : forall a, den st ch a = is_true ch).
        { intros a. apply is_tv_true in Tch. destruct Tch as [-> | ->]; reflexivity. }
        destruct (eqb (is_true ch) goal) eqn:Eg.
        + split; [|split].
          * intros cu [<-|[]]. cbn [fst snd]. split; [apply incl_refl|]. split; [apply incl_refl|].
            split; intros w Hw; left; exact Hw.
          * intros a Sa _ _. exists (neg', pos'). split; [left; reflexivity|exact Sa].
          * cbn. split; [intros ? ? []|exact I].
        + split; [|split].
          * intros cu [].
          * intros a _ Da _. rewrite Dch in Da. rewrite Da in Eg. rewrite eqb_reflx in Eg. discriminate Eg.
          * exact I.
      - apply IH; try lia.
        + apply is_tv_false in Tch. lia.
        + exact Sch. }
    set (Ghi := negb (gv =? v) || goal).
    set (Glo := negb (gv =? v) || negb goal).
    set (Lhi := if Ghi then
                  (if is_tv (nhi nd) then (if eqb (is_true (nhi nd)) goal then [(neg, pos ++ [v])] else [])
                   else cubes_f f st (nhi nd) goal gv neg (pos ++ [v])) else []).
    set (Llo := if Glo then
                  (if is_tv (nlo nd) then (if eqb (is_true (nlo nd)) goal then [(neg ++ [v], pos)] else [])
                   else cubes_f f st (nlo nd) goal gv (neg ++ [v]) pos) else []).
    pose proof (CH true neg (pos ++ [v])) as (Hi1 & Hi2 & Hi3).
    pose proof (CH false (neg ++ [v]) pos) as (Lo1 & Lo2 & Lo3).
    unfold child_cubes in Hi1, Hi2, Hi3, Lo1, Lo2, Lo3.
    assert (InHi : forall cu, In cu Lhi -> Ghi = true /\ incl neg (fst cu) /\ incl (pos ++ [v]) (snd cu) /\
              (forall w, In w (fst cu) -> In w neg \/ ((N.to_nat w < n)%nat /\ (w = gv -> goal = false))) /\
              (forall w, In w (snd cu) -> In w (pos ++ [v]) \/ ((N.to_nat w < n)%nat /\ (w = gv -> goal = true)))).
    { intros cu Hcu. unfold Lhi in Hcu. destruct Ghi; [|destruct Hcu]. split; [reflexivity|]. apply Hi1. exact Hcu. }
    assert (InLo : forall cu, In cu Llo -> Glo = true /\ incl (neg ++ [v]) (fst cu) /\ incl pos (snd cu) /\
              (forall w, In w (fst cu) -> In w (neg ++ [v]) \/ ((N.to_nat w < n)%nat /\ (w = gv -> goal = false))) /\
              (forall w, In w (snd cu) -> In w pos \/ ((N.to_nat w < n)%nat /\ (w = gv -> goal = true)))).
    { intros cu Hcu. unfold Llo in Hcu. destruct Glo; [|destruct Hcu]. split; [reflexivity|]. apply Lo1. exact Hcu. }
    split; [|split].
    - intros cu Hcu. apply in_app_or in Hcu. destruct Hcu as [Hcu|Hcu].
      + destruct (InHi cu Hcu) as (G & I1 & I2 & I3 & I4). split; [exact I1|]. split; [|split; [exact I3|]].
        * intros w Hw. apply I2. apply in_or_app. left. exact Hw.
        * intros w Hw. destruct (I4 w Hw) as [H|H]; [|right; exact H].
          apply in_app_or in H. destruct H as [H|[<-|[]]]; [left; exact H|]. right. split; [exact Hv|].
          intros ->. unfold Ghi in G. rewrite N.eqb_refl in G. exact G.
      + destruct (InLo cu Hcu) as (G & I1 & I2 & I3 & I4). split; [|split; [exact I2|split; [|exact I4]]].
        * intros w Hw. apply I1. apply in_or_app. left. exact Hw.
        * intros w Hw. destruct (I3 w Hw) as [H|H]; [|right; exact H].
          apply in_app_or in H. destruct H as [H|[<-|[]]]; [left; exact H|]. right. split; [exact Hv|].
          intros ->. unfold Glo in G. rewrite N.eqb_refl in G. cbn in G. destruct goal; [discriminate G|reflexivity].
    - intros a [Sn Sp] Da Hg. cbn [fst snd] in Sn, Sp.
      rewrite (den_node st t a W H2 Hs) in Da. fold nd in Da. fold v in Da.
      destruct (a v) eqn:Av.
      + assert (G : Ghi = true).
        { unfold Ghi. destruct (N.eqb_spec gv v) as [->|_]; [|reflexivity]. rewrite <- Hg, Av. reflexivity. }
        destruct (Hi2 a) as (cu & Hcu & Scu); auto.
        { split; cbn [fst snd]; [exact Sn|]. intros w Hw. apply in_app_or in Hw.
          destruct Hw as [Hw|[<-|[]]]; auto. }
        exists cu. split; [|exact Scu]. apply in_or_app. left. unfold Lhi. rewrite G. exact Hcu.
      + assert (G : Glo = true).
        { unfold Glo. destruct (N.eqb_spec gv v) as [->|_]; [|reflexivity]. rewrite <- Hg, Av. reflexivity. }
        destruct (Lo2 a) as (cu & Hcu & Scu); auto.
        { split; cbn [fst snd]; [|exact Sp]. intros w Hw. apply in_app_or in Hw.
          destruct Hw as [Hw|[<-|[]]]; auto. }
        exists cu. split; [|exact Scu]. apply in_or_app. right. unfold Llo. rewrite G. exact Hcu.
    - apply disj_list_app.
      + unfold Lhi. destruct Ghi; [exact Hi3|exact I].
      + unfold Llo. destruct Glo; [exact Lo3|exact I].
      + intros c1 c2 a H1 H2' [_ S1] [S2 _].
        destruct (InHi c1 H1) as (_ & _ & I2 & _). destruct (InLo c2 H2') as (_ & I1 & _).
        assert (E1 : a v = true). { apply S1, I2, in_or_app. right. left. reflexivity. }
        assert (E2 : a v = false). { apply S2, I1, in_or_app. right. left. reflexivity. }
        congruence.
  Qed.

  (** the facts used by the search: variables below [n] and polarity of the literal [gv],
      cover, pairwise exclusion *)
  Lemma cubes_spec t : 2 <= t -> t < size st -> supported n (den st t) ->
    (forall cu, In cu (cubes st t goal gv) ->
       (forall v, In v (fst cu) -> (N.to_nat v < n)%nat /\ (v = gv -> goal = false)) /\
       (forall v, In v (snd cu) -> (N.to_nat v < n)%nat /\ (v = gv -> goal = true))) /\
    (forall a, den st t a = goal -> a gv = goal -> exists cu, In cu (cubes st t goal gv) /\ sat cu a) /\
    disj_list (cubes st t goal gv).
  Proof.
    intros H2 Hs HS. unfold cubes.
    destruct (cubes_f_spec (S (N.to_nat t)) t [] [] H2 Hs ltac:(lia) HS) as (C1 & C2 & C3).
    split; [|split; [|exact C3]].
    - intros cu Hcu. destruct (C1 cu Hcu) as (_ & _ & Hn & Hp). split; intros v Hv.
      + destruct (Hn v Hv) as [[]|H]. exact H.
      + destruct (Hp v Hv) as [[]|H]. exact H.
    - intros a Da Hg. apply C2; auto. split; intros ? [].
  Qed.
End Cubes.

(* ------------------------------------------------------------------ *)
(** * Vectors of handles: decided positions, refinement, agreement *)

(** [J] keeps every decided position of [I] *)
Definition refines (I J : list N) : Prop := forall p, is_tv (nth p I 2) = true -> nth p J 2 = nth p I 2.
(** the assignment [a] agrees with the decided positions of [I] *)
Definition agrees (I : list N) (a : asg) : Prop :=
  forall i, is_tv (nth (N.to_nat i) I 2) = true -> a i = is_true (nth (N.to_nat i) I 2).
(** the assignment of a vector of constants *)
Definition am (m : list N) : asg := fun i => is_true (nth (N.to_nat i) m 2).
(** where [will_be] is a truth value the interpretation already has it *)
Definition kinv (I W : list N) : Prop := forall p, is_tv (nth p W 2) = true -> nth p I 2 = nth p W 2.

Lemma is_tv_2 : is_tv 2 = false. Proof. reflexivity. Qed.

Lemma nth_tv_lt l p : is_tv (nth p l 2) = true -> (p < length l)%nat.
Proof.
  intros H. destruct (lt_dec p (length l)) as [L|L]; [exact L|].
  rewrite nth_overflow in H by lia. rewrite is_tv_2 in H. discriminate H.
Qed.

Lemma Forall_nth_lt {A} (P : A -> Prop) l d p : Forall P l -> (p < length l)%nat -> P (nth p l d).
Proof. intros H Hp. rewrite Forall_forall in H. apply H. apply nth_In. exact Hp. Qed.

Lemma Forall_of_nth {A} (P : A -> Prop) l d : (forall p, (p < length l)%nat -> P (nth p l d)) -> Forall P l.
Proof.
  intros H. apply Forall_forall. intros x Hx. destruct (In_nth l x d Hx) as (p & Hp & <-). apply H. exact Hp.
Qed.

Lemma refines_refl I : refines I I.
Proof. intros p _. reflexivity. Qed.

Lemma refines_trans I J K : refines I J -> refines J K -> refines I K.
Proof. intros H1 H2 p Hp. rewrite <- (H1 p Hp). apply H2. rewrite (H1 p Hp). exact Hp. Qed.

Lemma agrees_refines I J a : refines I J -> agrees J a -> agrees I a.
Proof. intros H1 H2 i Hi. rewrite <- (H1 _ Hi). apply H2. rewrite (H1 _ Hi). exact Hi. Qed.

Lemma refines_agrees I m : refines I m -> agrees I (am m).
Proof. intros H i Hi. unfold am. rewrite (H _ Hi). reflexivity. Qed.

Lemma ovl_agrees I a : agrees I a -> forall i, ovl false I 0 a i = a i.
Proof.
  intros H i. rewrite ovl_spec. destruct (N.leb_spec 0 i) as [_|L]; [|lia]. rewrite N.sub_0_r.
  unfold sel. destruct (is_tv (nth (N.to_nat i) I 2)) eqn:T; cbn [andb negb orb]; [|reflexivity].
  symmetry. apply H. exact T.
Qed.

Lemma ovl_below n I a a' : (forall i, (N.to_nat i < n)%nat -> a i = a' i) ->
  forall i, (N.to_nat i < n)%nat -> ovl false I 0 a i = ovl false I 0 a' i.
Proof.
  intros H i Hi. rewrite !ovl_spec. destruct (0 <=? i); [|auto].
  destruct (sel false (nth (N.to_nat (i - 0)) I 2)); auto.
Qed.

Lemma den_tv st h a : is_tv h = true -> den st h a = is_true h.
Proof. intros H. apply is_tv_true in H. destruct H as [-> | ->]; reflexivity. Qed.

Lemma tv_eq_of_is_true a b : is_tv a = true -> is_tv b = true -> is_true a = is_true b -> a = b.
Proof.
  intros Ha Hb. apply is_tv_true in Ha, Hb.
  destruct Ha as [-> | ->], Hb as [-> | ->]; rewrite ?is_true_0, ?is_true_1; congruence.
Qed.

Lemma const_fixed st h k : WFN st -> h < size st -> is_tv k = true ->
  (forall a, den st h a = is_true k) -> h = k.
Proof.
  intros W Hh Hk H. apply is_tv_true in Hk. destruct Hk as [-> | ->].
  - apply (const_false_iff st h W Hh). exact H.
  - apply (const_true_iff st h W Hh). exact H.
Qed.

Lemma compare_inf_tv a b : is_tv a = true -> compare_inf a b = true -> b = a.
Proof.
  intros Ha H. apply compare_inf_iff in H. apply is_tv_true in Ha. destruct Ha as [-> | ->].
  - rewrite info_0 in H. symmetry in H. apply info_F in H. exact H.
  - rewrite info_1 in H. symmetry in H. apply info_T in H. exact H.
Qed.

Lemma compare_inf_refl a : compare_inf a a = true.
Proof. apply compare_inf_iff. reflexivity. Qed.

Lemma no_inf_undec a b : is_tv a = false -> no_inf_inconsistency a b = true.
Proof. intros H. unfold no_inf_inconsistency. rewrite H. destruct (compare_inf a b); reflexivity. Qed.

Lemma no_inf_tv a b : is_tv a = true -> no_inf_inconsistency a b = true -> b = a.
Proof.
  intros Ha H. unfold no_inf_inconsistency in H. rewrite Ha in H.
  destruct (compare_inf a b) eqn:E; [|discriminate H]. apply compare_inf_tv; assumption.
Qed.

Lemma all_tv_nth m p : all_tv m -> (p < length m)%nat -> is_tv (nth p m 2) = true.
Proof. intros H Hp. apply (Forall_nth_lt _ m 2 p H Hp). Qed.

Lemma valid_nth st l p : valid st l -> (p < length l)%nat -> nth p l 2 < size st.
Proof. intros H Hp. apply (Forall_nth_lt _ l 2 p H Hp). Qed.

Lemma tv_vec_eq I m : length m = length I -> all_tv I -> refines I m -> m = I.
Proof.
  intros HL TV R. apply (list_eq_of_nth 2); [exact HL|]. intros p Hp. apply R.
  apply all_tv_nth; [exact TV|lia].
Qed.

Lemma nundec_le_length l : (nundec l <= length l)%nat.
Proof.
  induction l as [|x l IH]; [cbn; lia|]. rewrite nundec_cons. cbn [length]. destruct (is_tv x); lia.
Qed.

Lemma nundec_mono : forall I J, length I = length J ->
  (forall p, is_tv (nth p I 2) = true -> is_tv (nth p J 2) = true) -> (nundec J <= nundec I)%nat.
Proof.
  induction I as [|x I IH]; intros [|y J] HL H; try discriminate HL; [lia|].
  rewrite !nundec_cons. cbn [length] in HL.
  assert (IH' : (nundec J <= nundec I)%nat).
  { apply IH; [lia|]. intros p Hp. apply (H (S p)). exact Hp. }
  pose proof (H 0%nat) as H0. cbn [nth] in H0.
  destruct (is_tv x); destruct (is_tv y); try lia; specialize (H0 eq_refl); discriminate H0.
Qed.

Lemma nundec_strict : forall I J idx, length I = length J ->
  (forall p, is_tv (nth p I 2) = true -> is_tv (nth p J 2) = true) ->
  (idx < length I)%nat -> is_tv (nth idx I 2) = false -> is_tv (nth idx J 2) = true ->
  (nundec J < nundec I)%nat.
Proof.
  induction I as [|x I IH]; intros [|y J] idx HL H Hi H1 H2; try discriminate HL; cbn [length] in Hi; [lia|].
  rewrite !nundec_cons. cbn [length] in HL.
  assert (Hs : forall p, is_tv (nth p I 2) = true -> is_tv (nth p J 2) = true).
  { intros p Hp. apply (H (S p)). exact Hp. }
  destruct idx as [|idx]; cbn [nth] in H1, H2.
  - rewrite H1, H2. pose proof (nundec_mono I J ltac:(lia) Hs). lia.
  - pose proof (IH J idx ltac:(lia) Hs ltac:(lia) H1 H2) as IH'.
    pose proof (H 0%nat) as H0. cbn [nth] in H0.
    destruct (is_tv x); destruct (is_tv y); try lia; specialize (H0 eq_refl); discriminate H0.
Qed.

Lemma NoDup_app_intro {A} (l1 l2 : list A) : NoDup l1 -> NoDup l2 ->
  (forall x, In x l1 -> In x l2 -> False) -> NoDup (l1 ++ l2).
Proof.
  induction l1 as [|x l1 IH]; intros N1 N2 D; cbn [app]; [exact N2|].
  inversion N1 as [|? ? Hx N1']; subst. constructor.
  - intros Hin. apply in_app_or in Hin. destruct Hin as [Hin|Hin]; [contradiction|].
    apply (D x); [left; reflexivity|exact Hin].
  - apply IH; auto. intros y H1 H2. apply (D y); [right; exact H1|exact H2].
Qed.

(* ------------------------------------------------------------------ *)
(** * One propagation step, the restriction of all entries *)

Lemma update_fix_ok c st I s1 U : WF c st -> valid st I -> update_fix c st I = Some (s1, U) ->
  WF c s1 /\ extends st s1 /\ valid s1 U /\ length U = length I /\ refines I U /\
  (forall p a, (p < length I)%nat -> den s1 (nth p U 2) a = den st (nth p I 2) (ovl false I 0 a)).
Proof.
  intros WFst V X. unfold update_fix in X.
  destruct (apply_interp_ok c false I I st s1 U WFst V X) as (WF1 & E1 & V1 & D1).
  pose proof (Forall2_len _ _ _ D1) as HL.
  assert (P : forall p a, (p < length I)%nat -> den s1 (nth p U 2) a = den st (nth p I 2) (ovl false I 0 a)).
  { intros p a Hp. apply (Forall2_nth _ _ _ D1 p 2 2). lia. }
  split; [exact WF1|]. split; [exact E1|]. split; [exact V1|]. split; [exact HL|]. split; [|exact P].
  intros p Hp. pose proof (nth_tv_lt I p Hp) as Lp.
  apply (const_fixed s1 _ _ (wf_n c s1 WF1)); [apply valid_nth; [exact V1|lia]|exact Hp|].
  intros a. rewrite (P p a Lp). apply den_tv. exact Hp.
Qed.

Lemma update_fix_total c st I : WF c st -> valid st I -> exists s1 U, update_fix c st I = Some (s1, U).
Proof. intros WFst V. apply (apply_interp_total c false I I st WFst V). Qed.

Definition restrict_all_top (c : cfg) (v : N) (b : bool) :=
  fix restrict_all (st : store) (l : list N) : option (store * list N) :=
    match l with
    | [] => Some (st, [])
    | t :: r => do (sa, t') <- restrict c st t v b;
                do (sb, r') <- restrict_all sa r; Some (sb, t' :: r')
    end.

Lemma restrict_all_cons c v b st t r :
  restrict_all_top c v b st (t :: r) =
  (do (sa, t') <- restrict c st t v b; do (sb, r') <- restrict_all_top c v b sa r; Some (sb, t' :: r')).
Proof. reflexivity. Qed.

Lemma restrict_all_ok c v b : forall l st s' R, WF c st -> valid st l ->
  restrict_all_top c v b st l = Some (s', R) ->
  WF c s' /\ extends st s' /\ valid s' R /\
  Forall2 (fun h a => feq (den s' h) (cofactor (den st a) v b)) R l.
Proof.
  induction l as [|t l IH]; intros st s' R WFst V X.
  - cbn in X. inversion X; subst. split; [exact WFst|]. split; [apply extends_refl|]. split; constructor.
  - rewrite restrict_all_cons in X. inversion V as [|? ? Ht Vr]; subst.
    apply obind_inv in X. destruct X as ([sa t'] & X1 & X).
    apply obind_inv in X. destruct X as ([sb r'] & X2 & X). inversion X; subst sb R. clear X.
    destruct (restrict_ok c st t v b sa t' WFst Ht X1) as (WFa & Ea & Ht' & Da).
    destruct (IH sa s' r' WFa (valid_extends st sa l Ea Vr) X2) as (WF' & E' & V' & D').
    split; [exact WF'|]. split; [eapply extends_trans; eauto|]. split.
    + constructor; [apply (extends_lt sa s' t' E' Ht')|exact V'].
    + constructor.
      * intros x. rewrite (extends_den_stable c sa s' t' WFa E' Ht' x). apply Da.
      * eapply Forall2_impl_Forall_r; [exact Vr| |exact D'].
        intros h a Ha Hd x. cbv beta in *. rewrite Hd. unfold cofactor.
        apply (extends_den_stable c st sa a WFst Ea Ha).
Qed.

Lemma restrict_all_total c v b : forall l st, WF c st -> valid st l ->
  exists s' R, restrict_all_top c v b st l = Some (s', R).
Proof.
  induction l as [|t l IH]; intros st WFst V.
  - cbn. eauto.
  - rewrite restrict_all_cons. inversion V as [|? ? Ht Vr]; subst.
    destruct (restrict_total c st t v b WFst Ht) as (sa & t' & X1). rewrite X1. cbn [obind].
    destruct (restrict_ok c st t v b sa t' WFst Ht X1) as (WFa & Ea & Ht' & Da).
    destruct (IH sa WFa (valid_extends st sa l Ea Vr)) as (sb & r' & X2). rewrite X2. cbn [obind]. eauto.
Qed.

(** pointwise form *)
Lemma restrict_all_ok' c v b l st s' R : WF c st -> valid st l ->
  restrict_all_top c v b st l = Some (s', R) ->
  WF c s' /\ extends st s' /\ valid s' R /\ length R = length l /\ refines l R /\
  (forall p a, (p < length l)%nat -> den s' (nth p R 2) a = den st (nth p l 2) (upd a v b)).
Proof.
  intros WFst V X. destruct (restrict_all_ok c v b l st s' R WFst V X) as (WF' & E' & V' & D').
  pose proof (Forall2_len _ _ _ D') as HL.
  assert (P : forall p a, (p < length l)%nat -> den s' (nth p R 2) a = den st (nth p l 2) (upd a v b)).
  { intros p a Hp. apply (Forall2_nth _ _ _ D' p 2 2). lia. }
  split; [exact WF'|]. split; [exact E'|]. split; [exact V'|]. split; [exact HL|]. split; [|exact P].
  intros p Hp. pose proof (nth_tv_lt l p Hp) as Lp.
  apply (const_fixed s' _ _ (wf_n c s' WF')); [apply valid_nth; [exact V'|lia]|exact Hp|].
  intros a. rewrite (P p a Lp). apply den_tv. exact Hp.
Qed.

(* ------------------------------------------------------------------ *)
(** * The assignment of a cube *)

Definition kc (b : bool) : N := if b then 1 else 0.

Lemma is_tv_kc b : is_tv (kc b) = true. Proof. destruct b; reflexivity. Qed.
Lemma is_true_kc b : is_true (kc b) = b. Proof. destruct b; reflexivity. Qed.
Lemma kc_of_tv h : is_tv h = true -> h = kc (is_true h).
Proof. intros H. apply is_tv_true in H. destruct H as [-> | ->]; reflexivity. Qed.

(** [cube_neg] and [cube_pos] as instances of one function *)
Fixpoint cube_gen (b : bool) (I W : list N) (l : list N) : list N * bool :=
  match l with
  | [] => (I, true)
  | v :: r =>
    let i := N.to_nat v in
    if (is_tv (nth i I 2) && negb (eqb (is_true (nth i I 2)) b)) || (nth i W 2 =? kc (negb b)) then (I, false)
    else cube_gen b (set_nth I i (kc b)) W r
  end.

Lemma cube_neg_gen W : forall l I, cube_neg I W l = cube_gen false I W l.
Proof.
  induction l as [|v l IH]; intros I; [reflexivity|]. cbn [cube_neg cube_gen]. rewrite IH.
  replace (is_tv (nth (N.to_nat v) I 2) && negb (eqb (is_true (nth (N.to_nat v) I 2)) false))
    with (is_true (nth (N.to_nat v) I 2)); [reflexivity|].
  generalize (nth (N.to_nat v) I 2). intros h.
  destruct (handle_cases h) as [-> | [-> | [H0 H1]]]; [reflexivity|reflexivity|].
  rewrite is_tv_undec, is_true_undec by assumption. reflexivity.
Qed.

Lemma cube_pos_gen W : forall l I, cube_pos I W l = cube_gen true I W l.
Proof.
  induction l as [|v l IH]; intros I; [reflexivity|]. cbn [cube_pos cube_gen]. rewrite IH.
  replace (negb (eqb (is_true (nth (N.to_nat v) I 2)) true)) with (negb (is_true (nth (N.to_nat v) I 2)));
    [reflexivity|].
  destruct (is_true (nth (N.to_nat v) I 2)); reflexivity.
Qed.

Lemma cube_gen_ok b W : forall l I I' ok, cube_gen b I W l = (I', ok) ->
  length I' = length I /\ refines I I' /\
  (forall p, nth p I' 2 = nth p I 2 \/ is_tv (nth p I' 2) = true) /\
  (ok = true -> forall v, In v l -> (N.to_nat v < length I)%nat -> nth (N.to_nat v) I' 2 = kc b) /\
  (kinv I W -> kinv I' W).
Proof.
  induction l as [|v l IH]; intros I I' ok X; cbn [cube_gen] in X.
  - inversion X; subst. split; [reflexivity|]. split; [apply refines_refl|]. split; [auto|].
    split; [intros _ ? []|auto].
  - set (i := N.to_nat v) in *.
    destruct ((is_tv (nth i I 2) && negb (eqb (is_true (nth i I 2)) b)) || (nth i W 2 =? kc (negb b))) eqn:T.
    + inversion X; subst. split; [reflexivity|]. split; [apply refines_refl|]. split; [auto|].
      split; [discriminate|auto].
    + apply orb_false_elim in T. destruct T as [T1 T2]. apply N.eqb_neq in T2.
      destruct (IH _ _ _ X) as (L & R & C & Lit & K). rewrite set_nth_length in L, Lit.
      assert (R0 : refines I (set_nth I i (kc b))).
      { intros p Hp. destruct (Nat.eq_dec p i) as [->|Ne]; [|apply nth_set_nth_neq; exact Ne].
        rewrite Hp in T1. cbn [andb] in T1. apply negb_false_iff in T1. apply eqb_prop in T1.
        rewrite nth_set_nth_eq by (apply nth_tv_lt; exact Hp).
        rewrite (kc_of_tv _ Hp), T1. reflexivity. }
      split; [exact L|]. split; [eapply refines_trans; eauto|]. split; [|split].
      * intros p. destruct (C p) as [E|E]; [|right; exact E].
        destruct (Nat.eq_dec p i) as [->|Ne].
        -- destruct (lt_dec i (length I)) as [Li|Li].
           ++ right. rewrite E, nth_set_nth_eq by exact Li. apply is_tv_kc.
           ++ left. rewrite E, set_nth_oob by lia. reflexivity.
        -- left. rewrite E. apply nth_set_nth_neq. exact Ne.
      * intros Hok w [<-|Hw] Lw; [|apply Lit; auto].
        fold i. fold i in Lw. rewrite (R i); rewrite nth_set_nth_eq by exact Lw; [reflexivity|apply is_tv_kc].
      * intros KI. apply K. intros p Hp. destruct (Nat.eq_dec p i) as [->|Ne].
        -- destruct (lt_dec i (length I)) as [Li|Li]; [|rewrite set_nth_oob by lia; apply KI; exact Hp].
           rewrite nth_set_nth_eq by exact Li. pose proof (KI i Hp) as EI.
           assert (Ti : is_tv (nth i I 2) = true) by (rewrite EI; exact Hp).
           rewrite Ti in T1. cbn [andb] in T1. apply negb_false_iff in T1. apply eqb_prop in T1.
           rewrite <- EI. rewrite (kc_of_tv _ Ti), T1. reflexivity.
        -- rewrite nth_set_nth_neq by exact Ne. apply KI. exact Hp.
Qed.

Lemma cube_gen_complete b W m : all_tv m -> forall l I I' ok, cube_gen b I W l = (I', ok) ->
  length m = length I -> kinv I W -> refines I m -> (forall v, In v l -> am m v = b) ->
  ok = true /\ refines I' m.
Proof.
  intros TV. induction l as [|v l IH]; intros I I' ok X HL KI R Hl; cbn [cube_gen] in X.
  - inversion X; subst. split; [reflexivity|exact R].
  - set (i := N.to_nat v) in *.
    assert (Hv : is_true (nth i m 2) = b) by (apply (Hl v); left; reflexivity).
    assert (T : (is_tv (nth i I 2) && negb (eqb (is_true (nth i I 2)) b)) || (nth i W 2 =? kc (negb b)) = false).
    { apply orb_false_intro.
      - destruct (is_tv (nth i I 2)) eqn:Ti; [|reflexivity]. cbn [andb].
        rewrite <- (R i Ti), Hv, eqb_reflx. reflexivity.
      - apply N.eqb_neq. intros E.
        assert (Tw : is_tv (nth i W 2) = true) by (rewrite E; apply is_tv_kc).
        pose proof (KI i Tw) as E1. assert (Ti : is_tv (nth i I 2) = true) by (rewrite E1; exact Tw).
        pose proof (R i Ti) as E2. rewrite E2, E1, E, is_true_kc in Hv. destruct b; discriminate Hv. }
    rewrite T in X.
    assert (R0 : refines (set_nth I i (kc b)) m).
    { intros p Hp. destruct (Nat.eq_dec p i) as [->|Ne].
      - pose proof (nth_tv_lt _ _ Hp) as Li. rewrite set_nth_length in Li.
        rewrite nth_set_nth_eq by exact Li.
        apply tv_eq_of_is_true; [apply all_tv_nth; [exact TV|lia]|apply is_tv_kc|].
        rewrite is_true_kc. exact Hv.
      - rewrite nth_set_nth_neq in * by exact Ne. apply R. exact Hp. }
    assert (K0 : kinv (set_nth I i (kc b)) W).
    { destruct (cube_gen_ok b W [v] I (set_nth I i (kc b)) true) as (_ & _ & _ & _ & K); [|apply K; exact KI].
      cbn [cube_gen]. fold i. rewrite T. reflexivity. }
    apply (IH _ _ _ X); auto.
    + rewrite set_nth_length. exact HL.
    + intros w Hw. apply Hl. right. exact Hw.
Qed.

(* ------------------------------------------------------------------ *)
(** * One level of [count_logic], with the nested loops as top-level functions *)

Definition cube_loop_top (c : cfg) (stop : bool)
  (rec : store -> list N -> list N -> option (store * list (list N)))
  (interp will_be : list N) (idx : nat) (cm : bool) :=
  fix cube_loop (st : store) (cs : list (list N * list N)) (acc : list (list N))
    : option (store * list (list N)) :=
    match cs with
    | [] => Some (st, acc)
    | (neg, pos) :: rest =>
      let '(i1, ok1) := cube_neg interp will_be neg in
      let '(i2, ok2) := cube_pos i1 will_be pos in
      if ok1 && ok2 then
        let new_int := set_nth i2 idx (if cm then 1 else 0) in
        do (s1, upd) <- update_fix c st new_int;
        if check_consistency upd will_be then
          do (s2, sub) <- rec s1 upd will_be;
          cube_loop s2 rest (acc ++ sub)
        else cube_loop s1 rest acc
      else if stop then Some (st, acc) else cube_loop st rest acc
    end.

Definition count_step (c : cfg) (heu : cfg -> store -> list N -> (nat * N) -> (nat * N) -> comparison)
  (ac : list N) (stop : bool) (rec : store -> list N -> list N -> option (store * list (list N)))
  (st : store) (interp will_be : list N) : option (store * list (list N)) :=
  let cands := filter (fun p => negb (is_tv (snd p) || is_tv (nth (fst p) will_be 2))) (enum interp) in
  match min_by (heu c st interp) cands with
  | Some (idx, acv) =>
    let check_models := negb (mc_more_models (paths_ro c st acv)) in
    let cs := cubes st acv check_models (N.of_nat idx) in
    do (s1, result) <- cube_loop_top c stop rec interp will_be idx check_models st cs [];
    do (s2, new_int) <- restrict_all_top c (N.of_nat idx) (negb check_models) s1 interp;
    do (s3, upd0) <- update_fix c s2 new_int;
    let ni := nth idx new_int 2 in
    if no_inf_inconsistency ni (nth idx upd0 2) then
      let upd := set_nth upd0 idx (if check_models then 0 else 1) in
      if no_inf_inconsistency ni (nth idx upd 2) then
        do (s4, sub) <- rec s3 upd (set_nth will_be idx ni);
        Some (s4, result ++ sub)
      else Some (s3, result)
    else Some (s3, result)
  | None =>
    let concluded := map (fun p => if negb (is_tv (fst p)) then snd p else fst p) (combine interp will_be) in
    do (s1, result) <- apply_interp c false st ac concluded;
    if check_consistency result concluded then Some (s1, [result]) else Some (s1, [interp])
  end.

Lemma count_logic_S c heu ac stop f st interp will_be :
  count_logic c heu ac stop (S f) st interp will_be =
  count_step c heu ac stop (count_logic c heu ac stop f) st interp will_be.
Proof. reflexivity. Qed.

Lemma cube_loop_nil c stop rec I W idx b st acc :
  cube_loop_top c stop rec I W idx b st [] acc = Some (st, acc).
Proof. reflexivity. Qed.

Lemma cube_loop_cons c stop rec I W idx b st neg pos rest acc :
  cube_loop_top c stop rec I W idx b st ((neg, pos) :: rest) acc =
  let '(i1, ok1) := cube_neg I W neg in
  let '(i2, ok2) := cube_pos i1 W pos in
  if ok1 && ok2 then
    let new_int := set_nth i2 idx (kc b) in
    do (s1, upd) <- update_fix c st new_int;
    if check_consistency upd W then
      do (s2, sub) <- rec s1 upd W;
      cube_loop_top c stop rec I W idx b s2 rest (acc ++ sub)
    else cube_loop_top c stop rec I W idx b s1 rest acc
  else if stop then Some (st, acc) else cube_loop_top c stop rec I W idx b st rest acc.
Proof. reflexivity. Qed.

Lemma check_consistency_iff : forall X Y, length X = length Y ->
  (check_consistency X Y = true <->
   forall p, (p < length X)%nat -> no_inf_inconsistency (nth p Y 2) (nth p X 2) = true).
Proof.
  unfold check_consistency.
  induction X as [|x X IH]; intros [|y Y] HL; try discriminate HL; cbn [combine forallb length].
  - split; [intros _ p Hp; lia|reflexivity].
  - cbn [length] in HL. cbn [fst snd]. rewrite andb_true_iff, (IH Y) by lia. split.
    + intros [H0 H] [|p] Hp; cbn [nth]; [exact H0|apply H; lia].
    + intros H. split; [apply (H 0%nat); lia|]. intros p Hp. apply (H (S p)). lia.
Qed.

Lemma check_consistency_kinv U W : length U = length W -> kinv U W -> check_consistency U W = true.
Proof.
  intros HL K. apply check_consistency_iff; [exact HL|]. intros p Hp.
  destruct (is_tv (nth p W 2)) eqn:T; [|apply no_inf_undec; exact T].
  unfold no_inf_inconsistency. rewrite (K p T), compare_inf_refl. reflexivity.
Qed.

Lemma concluded_eq : forall I W, length I = length W -> all_tv I ->
  map (fun p : N * N => if negb (is_tv (fst p)) then snd p else fst p) (combine I W) = I.
Proof.
  induction I as [|x I IH]; intros [|y W] HL TV; try discriminate HL; [reflexivity|].
  inversion TV as [|? ? Hx TV']; subst. cbn [combine map fst snd]. rewrite Hx. cbn [negb].
  f_equal. apply IH; [cbn [length] in HL; lia|exact TV'].
Qed.

Lemma enum_nth {A} (l : list A) d : forall k p, (p < length l)%nat ->
  In ((k + p)%nat, nth p l d) (combine (seq k (length l)) l).
Proof.
  induction l as [|x l IH]; intros k p Hp; cbn [length] in Hp; [lia|].
  cbn [length seq combine]. destruct p as [|p].
  - left. rewrite Nat.add_0_r. reflexivity.
  - right. replace (k + S p)%nat with (S k + p)%nat by lia. apply IH. lia.
Qed.

Lemma In_enum_intro {A} (l : list A) d p : (p < length l)%nat -> In (p, nth p l d) (enum l).
Proof. intros Hp. apply (enum_nth l d 0 p Hp). Qed.

Lemma filter_nil_inv {A} (f : A -> bool) l : filter f l = [] -> forall x, In x l -> f x = false.
Proof.
  intros E x Hx. destruct (f x) eqn:Fx; [|reflexivity].
  assert (H : In x (filter f l)) by (apply filter_In; auto). rewrite E in H. destruct H.
Qed.

(** the two cube functions and the assignment of the branching statement *)
Lemma assign_ok I W neg pos i1 ok1 i2 ok2 idx b :
  cube_neg I W neg = (i1, ok1) -> cube_pos i1 W pos = (i2, ok2) -> ok1 && ok2 = true ->
  (idx < length I)%nat -> is_tv (nth idx I 2) = false -> is_tv (nth idx W 2) = false -> kinv I W ->
  (forall v, In v neg -> (N.to_nat v < length I)%nat /\ (v = N.of_nat idx -> b = false)) ->
  (forall v, In v pos -> (N.to_nat v < length I)%nat /\ (v = N.of_nat idx -> b = true)) ->
  let J := set_nth i2 idx (kc b) in
  length J = length I /\ refines I J /\
  (forall p, nth p J 2 = nth p I 2 \/ is_tv (nth p J 2) = true) /\ kinv J W /\
  nth idx J 2 = kc b /\
  (forall v, In v neg -> nth (N.to_nat v) J 2 = 0) /\ (forall v, In v pos -> nth (N.to_nat v) J 2 = 1).
Proof.
  intros X1 X2 OK Hi Ti Tw K Ln Lp J.
  rewrite cube_neg_gen in X1. rewrite cube_pos_gen in X2.
  apply andb_true_iff in OK. destruct OK as [-> ->].
  destruct (cube_gen_ok false W neg I i1 true X1) as (L1 & R1 & C1 & Lit1 & K1).
  destruct (cube_gen_ok true W pos i1 i2 true X2) as (L2 & R2 & C2 & Lit2 & K2).
  assert (LJ : length J = length I) by (unfold J; rewrite set_nth_length; lia).
  assert (Hi2 : (idx < length i2)%nat) by lia.
  split; [exact LJ|]. split; [|split; [|split; [|split; [|split]]]].
  - intros p Hp. assert (Ne : p <> idx) by (intros ->; rewrite Hp in Ti; discriminate Ti).
    unfold J. rewrite nth_set_nth_neq by exact Ne. apply (refines_trans I i1 i2 R1 R2 p Hp).
  - intros p. destruct (Nat.eq_dec p idx) as [->|Ne].
    + right. unfold J. rewrite nth_set_nth_eq by exact Hi2. apply is_tv_kc.
    + unfold J. rewrite nth_set_nth_neq by exact Ne.
      destruct (C2 p) as [E|E]; [|right; exact E]. rewrite E.
      destruct (C1 p) as [E'|E']; [left; exact E'|right; exact E'].
  - intros p Hp. assert (Ne : p <> idx) by (intros ->; rewrite Hp in Tw; discriminate Tw).
    unfold J. rewrite nth_set_nth_neq by exact Ne. apply (K2 (K1 K) p Hp).
  - unfold J. apply nth_set_nth_eq. exact Hi2.
  - intros v Hv. destruct (Ln v Hv) as [Lv Pv]. unfold J.
    destruct (Nat.eq_dec (N.to_nat v) idx) as [E|Ne].
    + rewrite E, nth_set_nth_eq by exact Hi2. rewrite Pv by lia. reflexivity.
    + rewrite nth_set_nth_neq by exact Ne.
      pose proof (Lit1 eq_refl v Hv Lv) as E1. rewrite (R2 _); rewrite E1; reflexivity.
  - intros v Hv. destruct (Lp v Hv) as [Lv Pv]. unfold J.
    destruct (Nat.eq_dec (N.to_nat v) idx) as [E|Ne].
    + rewrite E, nth_set_nth_eq by exact Hi2. rewrite Pv by lia. reflexivity.
    + rewrite nth_set_nth_neq by exact Ne. apply (Lit2 eq_refl v Hv). lia.
Qed.

Lemma assign_complete I W neg pos i1 ok1 i2 ok2 idx b m :
  cube_neg I W neg = (i1, ok1) -> cube_pos i1 W pos = (i2, ok2) ->
  all_tv m -> length m = length I -> kinv I W -> refines I m -> sat (neg, pos) (am m) ->
  nth idx m 2 = kc b ->
  ok1 && ok2 = true /\ refines (set_nth i2 idx (kc b)) m.
Proof.
  intros X1 X2 TV HL K R [Sn Sp] Hm. cbn [fst snd] in Sn, Sp.
  rewrite cube_neg_gen in X1. rewrite cube_pos_gen in X2.
  destruct (cube_gen_complete false W m TV neg I i1 ok1 X1 HL K R Sn) as (-> & R1).
  destruct (cube_gen_ok false W neg I i1 true X1) as (L1 & _ & _ & _ & K1).
  destruct (cube_gen_complete true W m TV pos i1 i2 ok2 X2 ltac:(lia) (K1 K) R1 Sp) as (-> & R2).
  split; [reflexivity|]. intros p Hp. destruct (Nat.eq_dec p idx) as [->|Ne].
  - pose proof (nth_tv_lt _ _ Hp) as Li. rewrite set_nth_length in Li.
    rewrite nth_set_nth_eq by exact Li. exact Hm.
  - rewrite nth_set_nth_neq in * by exact Ne. apply R2. exact Hp.
Qed.

(** a model that refines [J] refines the propagated vector *)
Lemma propagate_refines st J s1 U m :
  length U = length J -> refines J U ->
  (forall p a, (p < length J)%nat -> den s1 (nth p U 2) a = den st (nth p J 2) (ovl false J 0 a)) ->
  all_tv m -> length m = length J -> refines J m ->
  (forall p, (p < length J)%nat -> is_tv (nth p J 2) = false -> den st (nth p J 2) (am m) = is_true (nth p m 2)) ->
  refines U m.
Proof.
  intros LU RU PU TV LM RM HM p Hp.
  pose proof (nth_tv_lt _ _ Hp) as Lp. rewrite LU in Lp.
  destruct (is_tv (nth p J 2)) eqn:Tj.
  - rewrite (RU p Tj). apply RM. exact Tj.
  - apply tv_eq_of_is_true; [apply all_tv_nth; [exact TV|lia]|exact Hp|].
    rewrite <- (den_tv s1 (nth p U 2) (am m) Hp), (PU p _ Lp), <- (HM p Lp Tj).
    apply den_ext. intros i. symmetry. apply ovl_agrees. apply refines_agrees. exact RM.
Qed.

(* ------------------------------------------------------------------ *)
(** * The invariant of the search and the specification of one call *)

Section CountProofs.
  Variable c : cfg.
  Variable heu : cfg -> store -> list N -> (nat * N) -> (nat * N) -> comparison.
  Variable ac : list N.
  Variable stop : bool.
  Variable st0 : store.
  Hypothesis OK0 : ac_ok st0 ac.
  Let n := length ac.

  (** a vector of constants that is a two-valued model of the ADF [abs st0 ac] *)
  Definition is_model (m : list N) : Prop :=
    forall p, (p < n)%nat -> is_true (nth p m 2) = den st0 (nth p ac 0) (am m).

  (** state invariant: the undecided entries denote the original conditions on all assignments
      that agree with the decided entries, and are supported on the statements *)
  Record SI (st : store) (I W : list N) : Prop := mkSI {
    si_wf : WF c st;
    si_ext : extends st0 st;
    si_valid : valid st I;
    si_lenI : length I = n;
    si_lenW : length W = n;
    si_k : kinv I W;
    si_sup : forall p, (p < n)%nat -> supported n (den st (nth p I 2));
    si_sem : forall p a, (p < n)%nat -> is_tv (nth p I 2) = false -> agrees I a ->
               den st (nth p I 2) a = den st0 (nth p ac 0) a
  }.

  Lemma SI_extends st s I W : SI st I W -> WF c s -> extends st s -> SI s I W.
  Proof.
    intros H WFs E. destruct H as [WFst E0 V LI LW K SU SE].
    assert (D : forall p, (p < n)%nat -> feq (den s (nth p I 2)) (den st (nth p I 2))).
    { intros p Hp. apply (extends_den_stable c st s _ WFst E). apply valid_nth; [exact V|lia]. }
    constructor; auto.
    - eapply extends_trans; eauto.
    - apply (valid_extends st s I E V).
    - intros p Hp. eapply supported_feq; [apply feq_sym; apply (D p Hp)|apply SU; exact Hp].
    - intros p a Hp T A. rewrite (D p Hp a). apply SE; auto.
  Qed.

  Lemma supported_tv st h : is_tv h = true -> supported n (den st h).
  Proof. intros H a b _. rewrite !den_tv by exact H. reflexivity. Qed.

  Lemma SI_assign st I W J : SI st I W -> length J = length I -> refines I J ->
    (forall p, nth p J 2 = nth p I 2 \/ is_tv (nth p J 2) = true) -> kinv J W -> SI st J W.
  Proof.
    intros H LJ R C KJ. destruct H as [WFst E0 V LI LW K SU SE].
    constructor; auto.
    - apply (Forall_of_nth _ J 2). intros p Hp. destruct (C p) as [E|E].
      + rewrite E. apply valid_nth; [exact V|lia].
      + apply is_tv_le in E. pose proof (size_gt_1 c st WFst). lia.
    - lia.
    - intros p Hp. destruct (C p) as [E|E]; [rewrite E; apply SU; exact Hp|apply supported_tv; exact E].
    - intros p a Hp T A. destruct (C p) as [E|E]; [|rewrite E in T; discriminate T].
      rewrite E in *. apply SE; auto. apply (agrees_refines I J a R A).
  Qed.

  Lemma SI_update st J W s1 U : SI st J W -> update_fix c st J = Some (s1, U) ->
    SI s1 U W /\ extends st s1 /\ refines J U.
  Proof.
    intros H X. destruct H as [WFst E0 V LI LW K SU SE].
    destruct (update_fix_ok c st J s1 U WFst V X) as (WF1 & E1 & V1 & LU & RU & PU).
    split; [|split; [exact E1|exact RU]]. constructor; auto.
    - eapply extends_trans; eauto.
    - lia.
    - intros p Hp. rewrite (RU p); [|rewrite (K p Hp); exact Hp]. apply K. exact Hp.
    - intros p Hp a a' Ha. rewrite !PU by lia. apply (SU p Hp). apply ovl_below. exact Ha.
    - intros p a Hp T A.
      assert (Tj : is_tv (nth p J 2) = false).
      { destruct (is_tv (nth p J 2)) eqn:Tj; [|reflexivity]. rewrite (RU p Tj), Tj in T. discriminate T. }
      pose proof (agrees_refines J U a RU A) as AJ.
      rewrite PU by lia. rewrite <- (SE p a Hp Tj AJ). apply den_ext. apply ovl_agrees. exact AJ.
  Qed.

  Definition shape (I v : list N) : Prop := length v = n /\ all_tv v /\ refines I v.

  Definition Post (st : store) (I : list N) (st' : store) (L : list (list N)) : Prop :=
    WF c st' /\ extends st st' /\ Forall (shape I) L /\ NoDup L /\
    (stop = false -> forall m, length m = n -> all_tv m -> is_model m -> refines I m -> In m L).

  Definition RecSpec (f : nat) (rec : store -> list N -> list N -> option (store * list (list N))) : Prop :=
    forall st I W, SI st I W -> (nundec I < f)%nat ->
      exists st' L, rec st I W = Some (st', L) /\ Post st I st' L.

  Lemma valid_ac st : extends st0 st -> valid st ac.
  Proof. intros E. apply (valid_extends st0 st ac E). apply OK0. Qed.

  (* ---------------------------------------------------------------- *)
  (** ** the leaf *)

  Lemma leaf_spec st I W : SI st I W ->
    (forall p, (p < n)%nat -> is_tv (nth p I 2) || is_tv (nth p W 2) = true) ->
    exists st' L,
      (let concluded := map (fun p : N * N => if negb (is_tv (fst p)) then snd p else fst p) (combine I W) in
       do (s1, result) <- apply_interp c false st ac concluded;
       if check_consistency result concluded then Some (s1, [result]) else Some (s1, [I])) = Some (st', L) /\
      Post st I st' L.
  Proof.
    intros H Hd. destruct H as [WFst E0 V LI LW K SU SE].
    assert (TV : all_tv I).
    { apply (Forall_of_nth _ I 2). intros p Hp. rewrite LI in Hp.
      specialize (Hd p Hp). apply orb_true_iff in Hd. destruct Hd as [T|T]; [exact T|].
      rewrite (K p T). exact T. }
    cbv zeta. rewrite (concluded_eq I W ltac:(lia) TV).
    destruct (apply_interp_total c false I ac st WFst (valid_ac st E0)) as (s1 & R & X).
    rewrite X. cbn [obind].
    destruct (apply_interp_ok c false I ac st s1 R WFst (valid_ac st E0) X) as (WF1 & E1 & V1 & D1).
    pose proof (Forall2_len _ _ _ D1) as LR. fold n in LR.
    assert (P : Post st I s1 [I]).
    { split; [exact WF1|]. split; [exact E1|]. split; [|split].
      - constructor; [|constructor]. split; [exact LI|]. split; [exact TV|apply refines_refl].
      - constructor; [intros []|constructor].
      - intros _ m Lm TVm _ Rm. left. symmetry. apply tv_vec_eq; auto. lia. }
    destruct (check_consistency R I) eqn:CC.
    - assert (ER : R = I).
      { apply (list_eq_of_nth 2); [lia|]. intros p Hp.
        pose proof (proj1 (check_consistency_iff R I ltac:(lia)) CC p Hp) as Hn.
        apply (no_inf_tv _ _ (all_tv_nth I p TV ltac:(lia)) Hn). }
      rewrite ER. exists s1, [I]. split; [reflexivity|exact P].
    - exists s1, [I]. split; [reflexivity|exact P].
  Qed.

  (* ---------------------------------------------------------------- *)
  (** ** the loop over the cubes *)

  Definition lits_ok (idx : nat) (b : bool) (cu : list N * list N) : Prop :=
    (forall v, In v (fst cu) -> (N.to_nat v < n)%nat /\ (v = N.of_nat idx -> b = false)) /\
    (forall v, In v (snd cu) -> (N.to_nat v < n)%nat /\ (v = N.of_nat idx -> b = true)).

  Lemma cube_loop_spec f rec I W idx b : RecSpec f rec -> (nundec I <= f)%nat -> (idx < n)%nat ->
    is_tv (nth idx I 2) = false -> is_tv (nth idx W 2) = false ->
    forall cs st acc, SI st I W -> (forall cu, In cu cs -> lits_ok idx b cu) -> disj_list cs ->
    exists st' L, cube_loop_top c stop rec I W idx b st cs acc = Some (st', acc ++ L) /\
      WF c st' /\ extends st st' /\
      Forall (fun v => shape I v /\ nth idx v 2 = kc b /\ exists cu, In cu cs /\ sat cu (am v)) L /\
      NoDup L /\
      (stop = false -> forall m, length m = n -> all_tv m -> is_model m -> refines I m ->
         nth idx m 2 = kc b -> (exists cu, In cu cs /\ sat cu (am m)) -> In m L).
  Proof.
    intros HR Hf Hidx Ti Tw. induction cs as [|[neg pos] rest IH]; intros st acc HSI Hl Hdj.
    - exists st, []. rewrite cube_loop_nil, app_nil_r. split; [reflexivity|].
      split; [apply HSI|]. split; [apply extends_refl|]. split; [constructor|]. split; [constructor|].
      intros _ m _ _ _ _ _ (cu & [] & _).
    - rewrite cube_loop_cons.
      destruct (cube_neg I W neg) as [i1 ok1] eqn:X1. destruct (cube_pos i1 W pos) as [i2 ok2] eqn:X2.
      pose proof HSI as [WFst E0 V LI LW K SU SE].
      assert (Hl' : forall cu, In cu rest -> lits_ok idx b cu) by (intros cu Hcu; apply Hl; right; exact Hcu).
      destruct Hdj as [Hd1 Hd2].
      assert (LIFT : forall L : list (list N),
                Forall (fun v => shape I v /\ nth idx v 2 = kc b /\ exists cu, In cu rest /\ sat cu (am v)) L ->
                Forall (fun v => shape I v /\ nth idx v 2 = kc b /\
                                 exists cu, In cu ((neg, pos) :: rest) /\ sat cu (am v)) L).
      { intros L FL. eapply Forall_impl; [|exact FL]. intros v (Sv & Iv & cu & Hcu & Scu).
        split; [exact Sv|]. split; [exact Iv|]. exists cu. split; [right; exact Hcu|exact Scu]. }
      destruct (ok1 && ok2) eqn:OK.
      + (* a consistent cube *)
        destruct (Hl (neg, pos) (or_introl eq_refl)) as [Ln Lp]. cbn [fst snd] in Ln, Lp.
        rewrite <- LI in Ln, Lp.
        destruct (assign_ok I W neg pos i1 ok1 i2 ok2 idx b X1 X2 OK ltac:(lia) Ti Tw K Ln Lp)
          as (LJ & RJ & CJ & KJ & IJ & NJ & PJ).
        cbv zeta. set (J := set_nth i2 idx (kc b)) in *.
        pose proof (SI_assign st I W J HSI LJ RJ CJ KJ) as SJ.
        destruct (update_fix_total c st J WFst (si_valid _ _ _ SJ)) as (s1 & U & XU).
        rewrite XU. cbn [obind].
        destruct (SI_update st J W s1 U SJ XU) as (SU1 & E1 & RU).
        rewrite (check_consistency_kinv U W); [|rewrite (si_lenI _ _ _ SU1), LW; reflexivity|apply SU1].
        assert (Hm : (nundec U < f)%nat).
        { assert (A1 : (nundec J < nundec I)%nat).
          { apply (nundec_strict I J idx); try lia.
            - intros p Hp. rewrite (RJ p Hp). exact Hp.
            - exact Ti.
            - rewrite IJ. apply is_tv_kc. }
          assert (A2 : (nundec U <= nundec J)%nat).
          { apply nundec_mono; [rewrite (si_lenI _ _ _ SU1); lia|].
            intros p Hp. rewrite (RU p Hp). exact Hp. }
          lia. }
        destruct (HR s1 U W SU1 Hm) as (s2 & sub & XR & WF2 & E2 & Fsub & Nsub & Csub).
        rewrite XR. cbn [obind].
        (* every result of the recursive call satisfies the cube *)
        assert (Psub : forall v, In v sub -> shape I v /\ nth idx v 2 = kc b /\ sat (neg, pos) (am v)).
        { intros v Hv. rewrite Forall_forall in Fsub. destruct (Fsub v Hv) as (Lv & TVv & Rv).
          pose proof (refines_trans J U v RU Rv) as RJv.
          split; [split; [exact Lv|split; [exact TVv|apply (refines_trans I J v RJ RJv)]]|].
          split; [rewrite (RJv idx); [exact IJ|rewrite IJ; apply is_tv_kc]|].
          split; cbn [fst snd]; intros w Hw; unfold am.
          - rewrite (RJv (N.to_nat w)); rewrite (NJ w Hw); reflexivity.
          - rewrite (RJv (N.to_nat w)); rewrite (PJ w Hw); reflexivity. }
        assert (E02 : extends st s2) by (eapply extends_trans; eauto).
        destruct (IH s2 (acc ++ sub) (SI_extends st s2 I W HSI WF2 E02) Hl' Hd2)
          as (st' & L & XL & WF' & E' & FL & NL & CL).
        exists st', (sub ++ L). rewrite XL, app_assoc. split; [reflexivity|]. split; [exact WF'|].
        split; [eapply extends_trans; eauto|]. split; [|split].
        * apply Forall_app. split; [|apply LIFT; exact FL].
          apply Forall_forall. intros v Hv. destruct (Psub v Hv) as (Sv & Iv & Scu).
          split; [exact Sv|]. split; [exact Iv|]. exists (neg, pos). split; [left; reflexivity|exact Scu].
        * apply NoDup_app_intro; [exact Nsub|exact NL|].
          intros v H1 H2. destruct (Psub v H1) as (_ & _ & S1).
          rewrite Forall_forall in FL. destruct (FL v H2) as (_ & _ & cu & Hcu & S2).
          apply (Hd1 cu (am v) Hcu S1 S2).
        * intros Hs m Lm TVm Mm Rm Im (cu & [<-|Hcu] & Scu).
          -- apply in_or_app. left. apply (Csub Hs m Lm TVm Mm).
             destruct (assign_complete I W neg pos i1 ok1 i2 ok2 idx b m X1 X2 TVm ltac:(lia) K Rm Scu Im)
               as (_ & RJm). fold J in RJm.
             destruct (update_fix_ok c st J s1 U WFst (si_valid _ _ _ SJ) XU) as (_ & _ & _ & LU & _ & PU).
             apply (propagate_refines st J s1 U m LU RU PU TVm ltac:(lia) RJm).
             intros p Hp Tp. rewrite (si_sem _ _ _ SJ p (am m) ltac:(lia) Tp (refines_agrees J m RJm)).
             symmetry. apply Mm. lia.
          -- apply in_or_app. right. apply (CL Hs m Lm TVm Mm Rm Im). exists cu. split; assumption.
      + (* an inconsistent cube *)
        destruct stop eqn:Hstop.
        * exists st, []. rewrite app_nil_r. split; [reflexivity|]. split; [exact WFst|].
          split; [apply extends_refl|]. split; [constructor|]. split; [constructor|]. discriminate.
        * destruct (IH st acc HSI Hl' Hd2) as (st' & L & XL & WF' & E' & FL & NL & CL).
          exists st', L. split; [exact XL|]. split; [exact WF'|]. split; [exact E'|].
          split; [apply LIFT; exact FL|]. split; [exact NL|].
          intros Hs m Lm TVm Mm Rm Im (cu & [<-|Hcu] & Scu).
          -- destruct (assign_complete I W neg pos i1 ok1 i2 ok2 idx b m X1 X2 TVm ltac:(lia) K Rm Scu Im)
               as (OK' & _). rewrite OK in OK'. discriminate OK'.
          -- apply (CL Hs m Lm TVm Mm Rm Im). exists cu. split; assumption.
  Qed.

  (* ---------------------------------------------------------------- *)
  (** ** concluding the other value *)

  Lemma other_branch st I W idx (b : bool) k s2 J s3 U0 :
    SI st I W -> (idx < n)%nat -> is_tv (nth idx I 2) = false -> k = kc (negb b) ->
    restrict_all_top c (N.of_nat idx) (negb b) st I = Some (s2, J) ->
    update_fix c s2 J = Some (s3, U0) ->
    let ni := nth idx J 2 in
    let U := set_nth U0 idx k in
    WF c s3 /\ extends st s3 /\
    no_inf_inconsistency ni (nth idx U0 2) = true /\
    (no_inf_inconsistency ni (nth idx U 2) = true ->
       SI s3 U (set_nth W idx ni) /\ refines I U /\ (nundec U < nundec I)%nat /\ nth idx U 2 = k) /\
    (forall m, length m = n -> all_tv m -> is_model m -> refines I m -> nth idx m 2 = k ->
       no_inf_inconsistency ni (nth idx U 2) = true /\ refines U m).
  Proof.
    intros HSI Hidx Ti Hk XJ XU ni U. destruct HSI as [WFst E0 V LI LW K SU SE].
    set (nb := negb b) in *. set (iv := N.of_nat idx) in *.
    destruct (restrict_all_ok' c iv nb I st s2 J WFst V XJ) as (WF2 & E2 & V2 & L2 & RJ & PJ).
    destruct (update_fix_ok c s2 J s3 U0 WF2 V2 XU) as (WF3 & E3 & V3 & L3 & RU & PU).
    assert (Tk : is_tv k = true) by (rewrite Hk; apply is_tv_kc).
    assert (Ik : is_true k = nb) by (rewrite Hk; apply is_true_kc).
    assert (HiU0 : (idx < length U0)%nat) by lia.
    assert (EU : nth idx U 2 = k) by (unfold U; apply nth_set_nth_eq; exact HiU0).
    assert (LU : length U = n) by (unfold U; rewrite set_nth_length; lia).
    assert (RIU0 : refines I U0).
    { apply (refines_trans I J U0 RJ RU). }
    assert (RIU : refines I U).
    { intros p Hp. assert (Ne : p <> idx) by (intros ->; rewrite Hp in Ti; discriminate Ti).
      unfold U. rewrite nth_set_nth_neq by exact Ne. apply RIU0. exact Hp. }
    assert (Eiv : N.to_nat iv = idx) by (unfold iv; apply Nat2N.id).
    assert (UPD : forall a x, a iv = nb -> upd a iv nb x = a x).
    { intros a x Ha. unfold upd. destruct (N.eqb_spec x iv) as [->|_]; auto. }
    split; [exact WF3|]. split; [eapply extends_trans; eauto|]. split; [|split].
    - destruct (is_tv ni) eqn:Tn; [|apply no_inf_undec; exact Tn].
      unfold no_inf_inconsistency. rewrite (RU idx Tn). fold ni. rewrite compare_inf_refl. reflexivity.
    - intros C2. rewrite EU in C2.
      assert (NI : is_tv ni = true -> ni = k).
      { intros Tn. symmetry. apply (no_inf_tv ni k Tn C2). }
      split; [|split; [exact RIU|split; [|exact EU]]].
      + assert (SJ : forall p, (p < n)%nat -> supported n (den s2 (nth p J 2))).
        { intros p Hp x x' Hx. rewrite !PJ by lia. apply (SU p Hp).
          intros i Hi. unfold upd. destruct (i =? iv); auto. }
        constructor.
        * exact WF3.
        * eapply extends_trans; [exact E0|]. eapply extends_trans; eauto.
        * unfold U. apply Forall_set_nth; [exact V3|].
          apply is_tv_le in Tk. pose proof (size_gt_1 c s3 WF3). lia.
        * exact LU.
        * rewrite set_nth_length. exact LW.
        * intros p Hp. destruct (Nat.eq_dec p idx) as [->|Ne].
          -- rewrite nth_set_nth_eq in Hp by lia. rewrite nth_set_nth_eq by lia.
             rewrite EU. symmetry. apply NI. exact Hp.
          -- rewrite nth_set_nth_neq in Hp by exact Ne. rewrite nth_set_nth_neq by exact Ne.
             unfold U. rewrite nth_set_nth_neq by exact Ne.
             rewrite <- (K p Hp). apply RIU0. rewrite (K p Hp). exact Hp.
        * intros p Hp. destruct (Nat.eq_dec p idx) as [->|Ne].
          -- rewrite EU. apply supported_tv. exact Tk.
          -- unfold U. rewrite nth_set_nth_neq by exact Ne.
             intros a a' Ha. rewrite !PU by lia. apply (SJ p Hp). apply ovl_below. exact Ha.
        * intros p a Hp T A.
          assert (Ne : p <> idx) by (intros ->; rewrite EU, Tk in T; discriminate T).
          unfold U in T |- *. rewrite nth_set_nth_neq in * by exact Ne. fold U in A.
          assert (Aiv : a iv = nb).
          { rewrite (A iv); rewrite Eiv, EU; [exact Ik|exact Tk]. }
          assert (AJ : agrees J a).
          { intros i Hi. destruct (Nat.eq_dec (N.to_nat i) idx) as [E|NE].
            - assert (i = iv) by (unfold iv; lia). subst i. rewrite Eiv in *. fold ni in Hi |- *.
              rewrite (NI Hi), Aiv. symmetry. exact Ik.
            - rewrite <- (RU _ Hi). rewrite <- (nth_set_nth_neq U0 idx (N.to_nat i) k 2 NE). fold U.
              apply A. unfold U. rewrite nth_set_nth_neq by exact NE. rewrite (RU _ Hi). exact Hi. }
          assert (Ti' : is_tv (nth p I 2) = false).
          { destruct (is_tv (nth p I 2)) eqn:Tp; [|reflexivity]. rewrite (RIU0 p Tp), Tp in T. discriminate T. }
          rewrite PU by lia.
          rewrite (den_ext s2 _ _ a (ovl_agrees J a AJ)).
          rewrite PJ by lia.
          rewrite (den_ext st _ _ a (fun x => UPD a x Aiv)).
          apply SE; auto. apply (agrees_refines I U a RIU A).
      + apply (nundec_strict I U idx); try lia.
        * intros p Hp. rewrite (RIU p Hp). exact Hp.
        * exact Ti.
        * rewrite EU. exact Tk.
    - intros m Lm TVm Mm Rm Im.
      assert (Aiv : am m iv = nb).
      { unfold am. rewrite Eiv, Im. exact Ik. }
      assert (KJ : forall p, (p < n)%nat -> den s2 (nth p J 2) (am m) = is_true (nth p m 2)).
      { intros p Hp. rewrite PJ by lia. rewrite (den_ext st _ _ (am m) (fun x => UPD (am m) x Aiv)).
        destruct (is_tv (nth p I 2)) eqn:Tp.
        - rewrite (den_tv st _ _ Tp), (Rm p Tp). reflexivity.
        - rewrite (SE p (am m) Hp Tp (refines_agrees I m Rm)). symmetry. apply Mm. exact Hp. }
      assert (RJm : refines J m).
      { intros p Hp. pose proof (nth_tv_lt _ _ Hp) as Lp.
        apply tv_eq_of_is_true; [apply all_tv_nth; [exact TVm|lia]|exact Hp|].
        rewrite <- (KJ p ltac:(lia)). apply den_tv. exact Hp. }
      split.
      + rewrite EU. destruct (is_tv ni) eqn:Tn; [|apply no_inf_undec; exact Tn].
        unfold no_inf_inconsistency. replace k with ni; [rewrite compare_inf_refl; reflexivity|].
        rewrite <- Im. symmetry. apply (RJm idx Tn).
      + intros p Hp. destruct (Nat.eq_dec p idx) as [->|Ne]; [rewrite EU; exact Im|].
        unfold U in Hp |- *. rewrite nth_set_nth_neq in * by exact Ne.
        apply (propagate_refines s2 J s3 U0 m L3 RU PU TVm ltac:(lia) RJm); [|exact Hp].
        intros q Hq _. apply KJ. lia.
  Qed.

  (* ---------------------------------------------------------------- *)
  (** ** one level, the recursion *)

  Lemma count_step_spec f rec : RecSpec f rec -> RecSpec (S f) (count_step c heu ac stop rec).
  Proof.
    intros HR st I W HSI Hf. unfold count_step.
    pose proof HSI as [WFst E0 V LI LW K SU SE].
    set (cands := filter (fun p : nat * N => negb (is_tv (snd p) || is_tv (nth (fst p) W 2))) (enum I)).
    destruct (min_by (heu c st I) cands) as [[idx acv]|] eqn:MB.
    - (* a statement to branch on *)
      apply min_by_In in MB. unfold cands in MB. apply filter_In in MB. destruct MB as [Hin Hc].
      apply (In_enum I 2) in Hin. destruct Hin as [Hidx Eacv]. cbn [fst snd] in Hc.
      apply negb_true_iff in Hc. apply orb_false_elim in Hc. destruct Hc as [Ta Tw].
      rewrite <- Eacv in Ta.
      cbv zeta. set (b := negb (mc_more_models (paths_ro c st acv))).
      assert (Hacv2 : 2 <= acv).
      { rewrite <- Eacv. apply is_tv_false in Ta. lia. }
      assert (Hacvs : acv < size st) by (rewrite <- Eacv; apply valid_nth; [exact V|exact Hidx]).
      assert (Sacv : supported n (den st acv)) by (rewrite <- Eacv; apply SU; lia).
      destruct (cubes_spec st (wf_n c st WFst) n b (N.of_nat idx) acv Hacv2 Hacvs Sacv) as (CL & CC & CD).
      destruct (cube_loop_spec f rec I W idx b HR ltac:(lia) ltac:(lia) Ta Tw
                  (cubes st acv b (N.of_nat idx)) st [] HSI CL CD)
        as (s1 & res & XL & WF1 & E1 & Fres & Nres & Cres).
      rewrite XL. cbn [app obind].
      pose proof (SI_extends st s1 I W HSI WF1 E1) as SI1.
      destruct (restrict_all_total c (N.of_nat idx) (negb b) I s1 WF1 (si_valid _ _ _ SI1)) as (s2 & J & XJ).
      rewrite XJ. cbn [obind].
      destruct (restrict_all_ok' c (N.of_nat idx) (negb b) I s1 s2 J WF1 (si_valid _ _ _ SI1) XJ)
        as (WF2 & E2 & V2 & _).
      destruct (update_fix_total c s2 J WF2 V2) as (s3 & U0 & XU). rewrite XU. cbn [obind].
      assert (Hk : (if b then 0 else 1) = kc (negb b)) by (destruct b; reflexivity).
      destruct (other_branch s1 I W idx b (if b then 0 else 1) s2 J s3 U0 SI1 ltac:(lia) Ta Hk XJ XU)
        as (WF3 & E3 & C1 & HC2 & HM).
      rewrite C1.
      assert (E03 : extends st s3) by (eapply extends_trans; eauto).
      (* the results of the cube loop *)
      assert (Sres : Forall (shape I) res).
      { eapply Forall_impl; [|exact Fres]. intros v (Sv & _). exact Sv. }
      (* models with the value [b] at [idx] lie in a cube *)
      assert (Mres : stop = false -> forall m, length m = n -> all_tv m -> is_model m -> refines I m ->
                       nth idx m 2 = kc b -> In m res).
      { intros Hs m Lm TVm Mm Rm Im. apply (Cres Hs m Lm TVm Mm Rm Im).
        assert (Ai : am m (N.of_nat idx) = b).
        { unfold am. rewrite Nat2N.id, Im. apply is_true_kc. }
        apply CC; [|exact Ai].
        rewrite <- Eacv. rewrite (SE idx (am m) ltac:(lia) Ta (refines_agrees I m Rm)).
        rewrite <- (Mm idx ltac:(lia)), Im. apply is_true_kc. }
      assert (Midx : forall m, length m = n -> all_tv m ->
                       nth idx m 2 = kc b \/ nth idx m 2 = (if b then 0 else 1)).
      { intros m Lm TVm. pose proof (all_tv_nth m idx TVm ltac:(lia)) as T.
        apply is_tv_true in T. rewrite Hk. destruct b; cbn; lia. }
      destruct (no_inf_inconsistency (nth idx J 2) (nth idx (set_nth U0 idx (if b then 0 else 1)) 2)) eqn:C2.
      + destruct (HC2 eq_refl) as (SI3 & RIU & HN & EU).
        destruct (HR s3 _ _ SI3 ltac:(lia)) as (s4 & sub & XR & WF4 & E4 & Fsub & Nsub & Csub).
        rewrite XR. cbn [obind].
        exists s4, (res ++ sub). split; [reflexivity|]. split; [exact WF4|].
        split; [eapply extends_trans; eauto|]. split; [|split].
        * apply Forall_app. split; [exact Sres|].
          eapply Forall_impl; [|exact Fsub]. intros v (Lv & TVv & Rv).
          split; [exact Lv|]. split; [exact TVv|]. eapply refines_trans; eauto.
        * apply NoDup_app_intro; [exact Nres|exact Nsub|].
          intros v H1 H2. rewrite Forall_forall in Fres, Fsub.
          destruct (Fres v H1) as (_ & Iv & _). destruct (Fsub v H2) as (_ & _ & Rv).
          rewrite (Rv idx) in Iv; [|rewrite EU, Hk; apply is_tv_kc].
          rewrite EU, Hk in Iv. destruct b; discriminate Iv.
        * intros Hs m Lm TVm Mm Rm. apply in_or_app. destruct (Midx m Lm TVm) as [Im|Im].
          -- left. apply Mres; auto.
          -- right. apply Csub; auto. apply (HM m Lm TVm Mm Rm Im).
      + exists s3, res. split; [reflexivity|]. split; [exact WF3|]. split; [exact E03|].
        split; [exact Sres|]. split; [exact Nres|].
        intros Hs m Lm TVm Mm Rm. destruct (Midx m Lm TVm) as [Im|Im].
        * apply Mres; auto.
        * destruct (HM m Lm TVm Mm Rm Im) as [C2' _]. discriminate C2'.
    - (* no candidate left *)
      apply leaf_spec; [exact HSI|].
      assert (Ec : cands = []) by (destruct cands; [reflexivity|discriminate MB]).
      intros p Hp.
      pose proof (filter_nil_inv _ _ Ec (p, nth p I 2) (In_enum_intro I 2 p ltac:(lia))) as Hc.
      cbn [fst snd] in Hc. apply negb_false_iff in Hc. exact Hc.
  Qed.

  Theorem count_logic_spec : forall f, RecSpec f (count_logic c heu ac stop f).
  Proof.
    induction f as [|f IH].
    - intros st I W _ Hf. lia.
    - intros st I W HSI Hf. rewrite count_logic_S. apply (count_step_spec f _ IH st I W HSI Hf).
  Qed.
End CountProofs.

(* ------------------------------------------------------------------ *)
(** * [stable_count] *)

Lemma ac_ok_extends c st s ac : WF c st -> ac_ok st ac -> extends st s -> ac_ok s ac.
Proof.
  intros WFst [V S] E. split; [apply (valid_extends st s ac E V)|].
  rewrite <- (abs_length st ac) in S |- *. rewrite abs_length.
  apply (supported_adf_eq _ _ _ (abs_extends c st s ac WFst E V)). rewrite abs_length in S. exact S.
Qed.

Lemma stability_check_rel c st ac s v s' b :
  WF c st -> ac_ok st ac -> WF c s -> extends st s -> length v = length ac -> all_tv v ->
  stability_check c s ac v = Some (s', b) ->
  WF c s' /\ extends s s' /\ (b = true <-> Stable (abs st ac) (interp_of v)).
Proof.
  intros WFst Hok WFs E HL TV X. pose proof Hok as [V S].
  pose proof (abs_extends c st s ac WFst E V) as EQ.
  destruct (stability_check_iff c s ac v s' b WFs (ac_ok_extends c st s ac WFst Hok E) HL TV X) as (WF' & E' & Hb).
  split; [exact WF'|]. split; [exact E'|]. rewrite Hb. split; apply Stable_feq.
  - apply adf_eq_sym. exact EQ.
  - exact EQ.
Qed.

Lemma ac_supported st ac p : ac_ok st ac -> (p < length ac)%nat ->
  supported (length ac) (den st (nth p ac 0)).
Proof.
  intros [_ S] Hp. pose proof (Forall_nth_lt _ (abs st ac) (den st 0) p S) as H.
  rewrite abs_length in H. specialize (H Hp). unfold abs in H. rewrite map_nth in H. exact H.
Qed.

Lemma nth_repeat_2 k p : nth p (repeat 2 k) 2 = 2.
Proof. revert p. induction k as [|k IH]; intros [|p]; cbn [repeat nth]; auto. Qed.

Lemma SI_init c ac st s1 g : WF c st -> ac_ok st ac -> grounded c st ac = Some (s1, g) ->
  SI c ac st s1 g (repeat 2 (length g)).
Proof.
  intros WFst Hok X.
  destruct (grounded_exact c st ac s1 g WFst Hok X) as (WF1 & E1 & Lg & Vg & HG & D).
  assert (P : forall p a, (p < length ac)%nat ->
            den s1 (nth p g 2) a = den st (nth p ac 0) (override (interp_of g) a)).
  { intros p a Hp. apply (Forall2_nth _ _ _ D p 2 0). lia. }
  constructor; auto.
  - rewrite repeat_length. exact Lg.
  - intros p Hp. rewrite nth_repeat_2, is_tv_2 in Hp. discriminate Hp.
  - intros p Hp a a' Ha. rewrite !P by exact Hp. apply (ac_supported st ac p Hok Hp).
    intros i Hi. unfold override. destruct (val (interp_of g) i); auto.
  - intros p a Hp T A. rewrite P by exact Hp. apply den_ext. intros i.
    rewrite <- ovl_override. apply ovl_agrees. exact A.
Qed.

Lemma asg_of_am m i : asg_of (interp_of m) i = am m i.
Proof.
  unfold asg_of, am. rewrite val_interp_of. generalize (nth (N.to_nat i) m 2). intros h.
  destruct (handle_cases h) as [-> | [-> | [H0 H1]]]; [reflexivity|reflexivity|].
  rewrite info_undec, is_true_undec by assumption. reflexivity.
Qed.

Lemma model2_is_model st ac m : ac_ok st ac -> length m = length ac -> all_tv m ->
  Model2 (abs st ac) (interp_of m) -> is_model ac st m.
Proof.
  intros [V S] Lm TVm M.
  apply (model2_iff_eval (abs st ac) (interp_of m)) in M.
  - intros p Hp.
    pose proof (Forall2_nth _ _ _ M p (den st 0) (info 2)) as H. rewrite abs_length in H. specialize (H Hp).
    cbv beta in H. unfold abs, interp_of in H. rewrite !map_nth in H. fold (interp_of m) in H.
    rewrite (den_ext st _ _ (am m) (asg_of_am m)) in H.
    destruct (den st (nth p ac 0) (am m)).
    + apply info_T in H. rewrite H. reflexivity.
    + apply info_F in H. rewrite H. reflexivity.
  - rewrite interp_of_length, abs_length. exact Lm.
  - apply two_valued_interp_of. exact TVm.
  - rewrite abs_length. exact S.
Qed.

Lemma completion2_refines g w : completion2 g w -> refines g w.
Proof.
  intros H p Hp. pose proof (nth_tv_lt g p Hp) as Lp.
  pose proof (Forall2_nth _ _ _ H p 2 2 Lp) as E. cbv beta in E. rewrite Hp in E. exact E.
Qed.

(** the two first phases of [stable_count] *)
Lemma stable_count_core c heu ac stop st : WF c st -> ac_ok st ac ->
  exists s1 g s2 cands,
    grounded c st ac = Some (s1, g) /\
    count_logic c heu ac stop (S (S (length ac))) s1 g (repeat 2 (length g)) = Some (s2, cands) /\
    length g = length ac /\ Grounded (abs st ac) (interp_of g) /\
    WF c s1 /\ extends st s1 /\ Post c ac stop st s1 g s2 cands.
Proof.
  intros WFst Hok.
  destruct (grounded_total c st ac WFst Hok) as (s1 & g & X1).
  destruct (grounded_exact c st ac s1 g WFst Hok X1) as (WF1 & E1 & Lg & Vg & HG & _).
  pose proof (SI_init c ac st s1 g WFst Hok X1) as HSI.
  destruct (count_logic_spec c heu ac stop st Hok (S (S (length ac))) s1 g _ HSI) as (s2 & cands & X2 & HP).
  { pose proof (nundec_le_length g). lia. }
  exists s1, g, s2, cands. split; [exact X1|]. split; [exact X2|]. split; [exact Lg|]. split; [exact HG|].
  split; [exact WF1|]. split; [exact E1|exact HP].
Qed.

Section Final.
  Variable c : cfg.
  Variable heu : cfg -> store -> list N -> (nat * N) -> (nat * N) -> comparison.
  Variable ac : list N.
  Variable stop : bool.
  Variable st : store.
  Hypothesis WFst : WF c st.
  Hypothesis Hok : ac_ok st ac.

  Let Inv (s : store) : Prop := WF c s /\ extends st s.
  Let Q (v : list N) : Prop := length v = length ac /\ all_tv v.
  Let P (v : list N) : Prop := Stable (abs st ac) (interp_of v).

  Lemma stab_pred_ok : forall s x s' b, Inv s -> Q x -> stability_check c s ac x = Some (s', b) ->
    Inv s' /\ extends s s' /\ (b = true <-> P x).
  Proof.
    intros s x s' b [WFs Es] [Lx Tx] X.
    destruct (stability_check_rel c st ac s x s' b WFst Hok WFs Es Lx Tx X) as (WF' & E' & Hb).
    split; [split; [exact WF'|eapply extends_trans; eauto]|]. split; [exact E'|exact Hb].
  Qed.

  Lemma shape_Q g cands : Forall (shape ac g) cands -> Forall Q cands.
  Proof. intros H. eapply Forall_impl; [|exact H]. intros v (Lv & TVv & _). split; assumption. Qed.

  (** everything about one run of [stable_count] *)
  Lemma stable_count_spec st' l : stable_count c heu ac stop st = Some (st', l) ->
    exists s1 g s2 cands, length g = length ac /\ Grounded (abs st ac) (interp_of g) /\
      Post c ac stop st s1 g s2 cands /\
      WF c st' /\ extends st st' /\ filtered P cands l.
  Proof.
    intros X. destruct (stable_count_core c heu ac stop st WFst Hok)
      as (s1 & g & s2 & cands & X1 & X2 & Lg & HG & WF1 & E1 & HP).
    unfold stable_count in X. rewrite X1 in X. cbn [obind] in X. rewrite X2 in X. cbn [obind] in X.
    pose proof HP as (WF2 & E2 & Fc & _).
    assert (I2 : Inv s2) by (split; [exact WF2|eapply extends_trans; eauto]).
    destruct (filter_st_ok Inv Q P _ stab_pred_ok cands s2 st' l I2 (shape_Q g cands Fc) X)
      as ([WF' E0'] & E' & Hf).
    exists s1, g, s2, cands. split; [exact Lg|]. split; [exact HG|]. split; [exact HP|].
    split; [exact WF'|]. split; [exact E0'|exact Hf].
  Qed.
End Final.

(** 1. soundness: for every comparator and both values of the early-stop flag, everything
    reported is a stable model *)
Theorem count_search_sound c heu ac stop st st' l :
  WF c st -> ac_ok st ac -> stable_count c heu ac stop st = Some (st', l) ->
  WF c st' /\ extends st st' /\ forall v, In v l -> Stable (abs st ac) (interp_of v).
Proof.
  intros WFst Hok X.
  destruct (stable_count_spec c heu ac stop st WFst Hok st' l X)
    as (s1 & g & s2 & cands & _ & _ & _ & WF' & E' & Hf).
  split; [exact WF'|]. split; [exact E'|].
  intros v Hv. apply (filtered_In _ _ _ Hf v) in Hv. apply Hv.
Qed.

(** 2. termination: the fuel suffices *)
Theorem count_search_total c heu ac stop st :
  WF c st -> ac_ok st ac -> exists st' l, stable_count c heu ac stop st = Some (st', l).
Proof.
  intros WFst Hok.
  destruct (stable_count_core c heu ac stop st WFst Hok)
    as (s1 & g & s2 & cands & X1 & X2 & Lg & HG & WF1 & E1 & HP).
  unfold stable_count. rewrite X1. cbn [obind]. rewrite X2. cbn [obind].
  pose proof HP as (WF2 & E2 & Fc & _).
  apply (filter_st_total (fun s => WF c s /\ extends st s)
                         (fun v : list N => length v = length ac /\ all_tv v)).
  - intros s x [WFs Es] _. apply stability_check_total; [exact WFs|].
    apply (ac_ok_extends c st s ac WFst Hok Es).
  - intros s x s' b [WFs Es] [Lx Tx] Xp.
    destruct (stability_check_rel c st ac s x s' b WFst Hok WFs Es Lx Tx Xp) as (WF' & E' & _).
    split; [exact WF'|eapply extends_trans; eauto].
  - split; [exact WF2|eapply extends_trans; eauto].
  - eapply Forall_impl; [|exact Fc]. intros v (Lv & TVv & _). split; assumption.
Qed.

(** 3. completeness and absence of duplicates of the repaired code, for every comparator *)
Theorem count_search_complete c heu ac st st' l :
  WF c st -> ac_ok st ac -> stable_count c heu ac false st = Some (st', l) ->
  forall v, Stable (abs st ac) v -> In v (map interp_of l).
Proof.
  intros WFst Hok X v Sv.
  destruct (stable_count_spec c heu ac false st WFst Hok st' l X)
    as (s1 & g & s2 & cands & Lg & HG & HP & WF' & E' & Hf).
  destruct HP as (_ & _ & _ & _ & HC).
  pose proof Sv as [[Cv TVv] _].
  pose proof (grounded_below _ _ _ HG Cv) as L.
  destruct (completion2_lift g v L TVv) as (w & Hw & Ew).
  apply in_map_iff. exists w. split; [exact Ew|].
  apply (filtered_In _ _ _ Hf w). split; [|rewrite Ew; exact Sv].
  pose proof (completion2_length g w Hw) as Lw. pose proof (completion2_all_tv g w Hw) as TVw.
  apply (HC eq_refl w); auto.
  - lia.
  - apply (model2_is_model st ac w Hok ltac:(lia) TVw). rewrite Ew. split; assumption.
  - apply completion2_refines. exact Hw.
Qed.

Theorem count_search_nodup c heu ac stop st st' l :
  WF c st -> ac_ok st ac -> stable_count c heu ac stop st = Some (st', l) -> NoDup (map interp_of l).
Proof.
  intros WFst Hok X.
  destruct (stable_count_spec c heu ac stop st WFst Hok st' l X)
    as (s1 & g & s2 & cands & Lg & HG & HP & WF' & E' & Hf).
  destruct HP as (_ & _ & Fc & ND & _).
  apply (filtered_map_NoDup _ interp_of _ _ Hf).
  apply NoDup_map_on; [exact ND|].
  rewrite Forall_forall in Fc. intros x y Hx Hy.
  destruct (Fc x Hx) as (_ & Tx & _). destruct (Fc y Hy) as (_ & Ty & _).
  apply interp_of_inj_tv; assumption.
Qed.

(** the answer of the repaired code: exactly the stable models, each once *)
Corollary count_search_exact c heu ac st st' l :
  WF c st -> ac_ok st ac -> stable_count c heu ac false st = Some (st', l) ->
  WF c st' /\ extends st st' /\ NoDup (map interp_of l) /\
  (forall v, In v (map interp_of l) <-> Stable (abs st ac) v).
Proof.
  intros WFst Hok X.
  destruct (count_search_sound c heu ac false st st' l WFst Hok X) as (WF' & E' & HS).
  split; [exact WF'|]. split; [exact E'|]. split; [apply (count_search_nodup c heu ac false st st' l WFst Hok X)|].
  intros v. split.
  - intros Hin. apply in_map_iff in Hin. destruct Hin as (w & <- & Hw). apply HS. exact Hw.
  - apply (count_search_complete c heu ac st st' l WFst Hok X).
Qed.

(* ------------------------------------------------------------------ *)
(** * 4. the early stop loses a stable model *)

Definition wit6 : list (nat * formula) :=
  [ (0%nat, FAtom 5); (1%nat, FAtom 5); (2%nat, FXor (FAtom 4) (FAtom 1)); (3%nat, FBot);
    (4%nat, FIff (FImp FBot (FAtom 4)) (FAnd (FAtom 4) (FAtom 5))); (5%nat, FAtom 5) ].

Definition run_both heu : option (option (list (list N)) * option (list (list N))) :=
  with_adf cfg_default 6 wit6 (fun st ac =>
    Some (option_map snd (stable_count cfg_default heu ac true st),
          option_map snd (stable_count cfg_default heu ac false st))).

Lemma run_both_inv heu x y : run_both heu = Some (x, y) ->
  exists st ac, from_parser cfg_default 6 wit6 = Some (st, ac) /\
    option_map snd (stable_count cfg_default heu ac true st) = x /\
    option_map snd (stable_count cfg_default heu ac false st) = y.
Proof.
  unfold run_both, with_adf. destruct (from_parser cfg_default 6 wit6) as [[st ac]|]; [|discriminate].
  intros H. exists st, ac. split; [reflexivity|]. inversion H. split; reflexivity.
Qed.

Lemma run_both_b : run_both heu_b = Some (Some [], Some [[0; 0; 0; 0; 0; 0]]).
Proof. vm_compute. reflexivity. Qed.
Lemma run_both_a : run_both heu_a = Some (Some [], Some [[0; 0; 0; 0; 0; 0]]).
Proof. vm_compute. reflexivity. Qed.

Lemma wit6_atoms : Forall (fun pf => atoms_lt (N.of_nat 6) (snd pf)) wit6.
Proof. unfold wit6. repeat constructor. Qed.

Lemma bound6 : N.of_nat 6 <= VBOT.
Proof. discriminate. Qed.

Lemma option_map_snd_inv {A B} (x : option (A * B)) y : option_map snd x = Some y -> exists a, x = Some (a, y).
Proof. destruct x as [[a b]|]; cbn; intros E; inversion E; subst; eauto. Qed.

Lemma early_stop_loses heu l : run_both heu = Some (Some [], Some [l]) ->
  exists st ac, from_parser cfg_default 6 wit6 = Some (st, ac) /\ WF cfg_default st /\ ac_ok st ac /\
    (exists s', stable_count cfg_default heu ac true st = Some (s', [])) /\
    (exists s', stable_count cfg_default heu ac false st = Some (s', [l])) /\
    Stable (abs st ac) (interp_of l).
Proof.
  intros H. apply run_both_inv in H. destruct H as (st & ac & X & H1 & H2).
  destruct (from_parser_ok cfg_default 6 wit6 st ac bound6 wit6_atoms X) as (WFst & Hok & _ & _).
  apply option_map_snd_inv in H1, H2. destruct H1 as (s' & H1). destruct H2 as (s'' & H2).
  exists st, ac. split; [exact X|]. split; [exact WFst|]. split; [exact Hok|].
  split; [exists s'; exact H1|]. split; [exists s''; exact H2|].
  destruct (count_search_sound cfg_default heu ac false st s'' _ WFst Hok H2) as (_ & _ & HS).
  apply (HS l). left. reflexivity.
Qed.

(** with the comparator heu_min_paths_max_imp (and likewise with the other one) the search
    with the early stop returns nothing on an ADF that has a stable model; the repaired search
    returns it *)
Theorem count_search_incomplete_with_early_stop :
  exists st ac, from_parser cfg_default 6 wit6 = Some (st, ac) /\ WF cfg_default st /\ ac_ok st ac /\
    (exists s', stable_count cfg_default heu_b ac true st = Some (s', [])) /\
    (exists s', stable_count cfg_default heu_b ac false st = Some (s', [[0; 0; 0; 0; 0; 0]])) /\
    Stable (abs st ac) [F; F; F; F; F; F].
Proof. exact (early_stop_loses heu_b _ run_both_b). Qed.

Theorem count_search_incomplete_with_early_stop_heu_a :
  exists st ac, from_parser cfg_default 6 wit6 = Some (st, ac) /\ WF cfg_default st /\ ac_ok st ac /\
    (exists s', stable_count cfg_default heu_a ac true st = Some (s', [])) /\
    (exists s', stable_count cfg_default heu_a ac false st = Some (s', [[0; 0; 0; 0; 0; 0]])) /\
    Stable (abs st ac) [F; F; F; F; F; F].
Proof. exact (early_stop_loses heu_a _ run_both_a). Qed.

(** hence completeness fails for the flag value [true] *)
Corollary count_search_complete_refuted_with_early_stop :
  ~ (forall c heu ac st st' l, WF c st -> ac_ok st ac -> stable_count c heu ac true st = Some (st', l) ->
       forall v, Stable (abs st ac) v -> In v (map interp_of l)).
Proof.
  intros H. destruct count_search_incomplete_with_early_stop as (st & ac & _ & WFst & Hok & (s' & X) & _ & Sv).
  apply (H cfg_default heu_b ac st s' [] WFst Hok X _ Sv).
Qed.

Print Assumptions count_search_sound.
Print Assumptions count_search_total.
Print Assumptions count_search_complete.
Print Assumptions count_search_nodup.
Print Assumptions count_search_exact.
Print Assumptions count_search_incomplete_with_early_stop.
Print Assumptions count_search_incomplete_with_early_stop_heu_a.
Print Assumptions count_search_complete_refuted_with_early_stop.
