(** Executable model of lib/src/nogoods.rs: NoGood (two bitmaps = a partial assignment) and
    NoGoodStore (buckets by size, three duplicate-elimination modes, conclusions, closure).
    A NoGood is a list of tv: position i is T/F when active with value true/false, U when
    inactive; positions beyond the list are inactive.  No proofs in this file. *)
From Coq Require Import NArith List Bool.
From ADF Require Import Spec.Spec Bdd.Store.
Import ListNotations.
Local Open Scope N_scope.

Definition ng := list tv.

Definition info (h : N) : tv := if h =? 0 then F else if h =? 1 then T else U.
Definition term_of (x : tv) (old : N) : N := match x with T => 1 | F => 0 | U => old end.

Definition ngat (g : ng) (i : nat) : tv := nth i g U.
Definition active (x : tv) : bool := negb (tv_eqb x U).

(** NoGood::from_term_vec *)
Definition ng_of_terms (v : list N) : ng := map info v.
(** NoGood::new_single_nogood *)
Definition ng_single (pos : nat) (val : bool) : ng := repeat U pos ++ [if val then T else F].
(** NoGood::len *)
Definition ng_len (g : ng) : nat := length (filter active g).

Fixpoint zip_pad (a b : ng) {struct a} : list (tv * tv) :=
  match a with
  | [] => map (fun y => (U, y)) b
  | x :: r => match b with
              | [] => (x, U) :: zip_pad r []
              | y :: s => (x, y) :: zip_pad r s
              end
  end.

(** PartialEq for NoGood: same active set and same value set *)
Definition ng_eqb (a b : ng) : bool := forallb (fun p => tv_eqb (fst p) (snd p)) (zip_pad a b).

(** NoGood::conclude: exactly one literal of [self] is not assigned by [other] and all the
    others agree with [other]: conclude the negation of that literal *)
Definition conclude (self other : ng) : option (nat * bool) :=
  let z := zip_pad self other in
  let idx := seq 0 (length z) in
  let zi := combine idx z in
  let implication := filter (fun p => active (fst (snd p)) && negb (active (snd (snd p)))) zi in
  let no_matches := filter (fun p => active (fst (snd p)) && active (snd (snd p)) &&
                                     negb (tv_eqb (fst (snd p)) (snd (snd p)))) zi in
  match implication, no_matches with
  | [(pos, (x, _))], [] => Some (pos, negb (tv_eqb x T))
  | _, _ => None
  end.

(** NoGood::is_violating: every literal of [self] is matched by [other] *)
Definition is_violating (self other : ng) : bool :=
  forallb (fun p => negb (active (fst p)) || tv_eqb (fst p) (snd p)) (zip_pad self other).

(** NoGood::is_contradicting: some position is assigned by both, to different values *)
Definition is_contradicting (self other : ng) : bool :=
  existsb (fun p => active (fst p) && active (snd p) && negb (tv_eqb (fst p) (snd p))) (zip_pad self other).

(** NoGood::disjunction (bit-or of both bitmaps) *)
Definition tv_or (x y : tv) : tv :=
  match x, y with
  | T, _ | _, T => T
  | F, _ | _, F => F
  | U, U => U
  end.
Definition disjunction (a b : ng) : ng := map (fun p => tv_or (fst p) (snd p)) (zip_pad a b).

Fixpoint ng_set (g : ng) (i : nat) (x : tv) : ng :=
  match g, i with
  | [], O => [x]
  | [], S j => U :: ng_set [] j x
  | _ :: r, O => x :: r
  | y :: r, S j => y :: ng_set r j x
  end.

(** NoGood::try_from_pair_iter: None for no pair at all and for two different values at one position *)
Fixpoint pairs_to_ng (acc : ng) (l : list (nat * bool)) : option ng :=
  match l with
  | [] => Some acc
  | (i, b) :: r =>
    let old := ngat acc i in
    (* is_new = not active before; upd = value bitmap changed *)
    let upd := if b then negb (tv_eqb old T) else tv_eqb old T in
    if active old && upd then None
    else pairs_to_ng (ng_set acc i (if b then T else F)) r
  end.
Definition try_from_pair_iter (l : list (nat * bool)) : option ng :=
  match l with [] => None | _ => pairs_to_ng [] l end.

(** NoGood::update_term_vec *)
Definition update_term_vec (g : ng) (terms : list N) : list N * bool :=
  let z := combine (seq 0 (length terms)) terms in
  (map (fun p => term_of (ngat g (fst p)) (snd p)) z,
   existsb (fun p => active (ngat g (fst p)) && negb (is_tv (snd p))) z).

(** duplicate elimination modes *)
Inductive dupmode := DNone | DEquiv | DSubsume.

Record ngstore := mkNS { buckets : list (list ng); dup : dupmode }.
Definition ngs_new (n : nat) : ngstore := mkNS (repeat [] n) DEquiv.

Fixpoint upd_nth {A} (l : list A) (i : nat) (f : A -> A) : list A :=
  match l, i with
  | [], _ => []
  | x :: r, O => f x :: r
  | x :: r, S j => x :: upd_nth r j f
  end.

(** NoGoodStore::add_ng; None = index out of bounds panic (nogood larger than the store) *)
Definition add_ng (s : ngstore) (g : ng) : option ngstore :=
  match ng_len g with
  | O => Some s
  | S idx =>
    if Nat.leb (length (buckets s)) idx then None else
    match dup s with
    | DNone => Some (mkNS (upd_nth (buckets s) idx (fun b => b ++ [g])) (dup s))
    | DEquiv =>
      if existsb (fun x => ng_eqb x g) (nth idx (buckets s) [])
      then Some s
      else Some (mkNS (upd_nth (buckets s) idx (fun b => b ++ [g])) (dup s))
    | DSubsume =>
      (* a stored subset of the new nogood already excludes everything it excludes *)
      if existsb (fun b => existsb (fun x => is_violating x g) b) (firstn (S idx) (buckets s))
      then Some s
      else
        let bs := map (fun p => if Nat.leb idx (fst p)
                                then filter (fun x => negb (is_violating g x)) (snd p)
                                else snd p)
                      (combine (seq 0 (length (buckets s))) (buckets s)) in
        Some (mkNS (upd_nth bs idx (fun b => b ++ [g])) (dup s))
    end
  end.

Fixpoint filter_map {A B} (f : A -> option B) (l : list A) : list B :=
  match l with
  | [] => []
  | x :: r => match f x with Some y => y :: filter_map f r | None => filter_map f r end
  end.

(** NoGoodStore::conclusions *)
Definition conclusions (s : ngstore) (g : ng) : option ng :=
  let k := ng_len g in
  let sel := map snd (filter (fun p => Nat.leb (fst p) k)
                             (combine (seq 0 (length (buckets s))) (buckets s))) in
  let concl := filter_map (fun b => try_from_pair_iter (filter_map (fun x => conclude x g) b)) sel in
  let folded := fold_left (fun acc c =>
                  match acc with
                  | None => None
                  | Some a => if is_contradicting c a then None else Some (disjunction a c)
                  end) concl (Some g) in
  match folded with
  | None => None
  | Some result =>
    if existsb (fun b => existsb (fun x => is_violating x result || is_violating x g) b) sel
    then None else Some result
  end.

Inductive closure := CUpdate (v : list N) | CNoUpdate | CInconsistent.

(** NoGoodStore::conclusion_closure; fuel = number of undecided positions + 1 *)
Fixpoint closure_loop (fuel : nat) (s : ngstore) (cur : list N) : option closure :=
  match fuel with
  | O => None
  | S f =>
    match conclusions s (ng_of_terms cur) with
    | None => Some CInconsistent
    | Some val =>
      let '(cur', upd) := update_term_vec val cur in
      if upd then closure_loop f s cur' else Some (CUpdate cur')
    end
  end.
Definition conclusion_closure (s : ngstore) (interp : list N) : option closure :=
  match conclusions s (ng_of_terms interp) with
  | None => Some CInconsistent
  | Some val =>
    let '(r, upd) := update_term_vec val interp in
    if upd then closure_loop (S (length interp)) s r else Some CNoUpdate
  end.
