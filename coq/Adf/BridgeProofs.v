(** The bridge between the back-ends (Adf::from_biodivine_vector), the run-time validator of
    imported ADFs, "answers only depend on the denoted ADF" (hybrid mode, re-import, history
    independence) and pre-grounding.  Model: Adf/Bio.v (second half), Adf/Native.v. *)
From Coq Require Import NArith List Bool Lia Arith.
From ADF Require Import Base.Maps Spec.Spec Spec.Theory Bdd.Store Bdd.WF Bdd.Node Bdd.Restrict Bdd.Ops
  Adf.Iter Adf.IterProofs Adf.Native Adf.NoGood Adf.NativeBase Adf.GroundedProofs Adf.CompleteProofs
  Adf.StableProofs Adf.NativeExamples Adf.Bio Adf.BioProofs.
Import ListNotations.
Local Open Scope N_scope.

Lemma Forall2_imp {A B} (R R' : A -> B -> Prop) :
  (forall x y, R x y -> R' x y) -> forall l l', Forall2 R l l' -> Forall2 R' l l'.
Proof. intros H l l'. induction 1; constructor; auto. Qed.

(* ------------------------------------------------------------------ *)
(** * Semantics of a dump *)

Definition bfalse : bfun := fun _ => false.
Definition btrue : bfun := fun _ => true.

(** evaluate the node list like a BDD: entry k of the result is the function of dump index k
    (0 / 1 = the terminals) *)
Definition dump_step (fs : list bfun) (n : N * nat * nat) : list bfun :=
  fs ++ [fun a : asg => if a (fst (fst n)) then nth (snd n) fs bfalse a else nth (snd (fst n)) fs bfalse a].
Definition dump_den_from (fs : list bfun) (l : list (N * nat * nat)) : list bfun :=
  fold_left dump_step l fs.
Definition dump_den (l : list (N * nat * nat)) : list bfun := dump_den_from [bfalse; btrue] l.
Definition bio_ac_den (a : bio_ac) : bfun :=
  match a with
  | BTrue => fun _ => true
  | BFalse => fun _ => false
  | BDump l => last (dump_den l) (fun _ => false)
  end.

Lemma dump_den_from_length : forall l fs, length (dump_den_from fs l) = (length fs + length l)%nat.
Proof.
  induction l as [|n l IH]; intros fs; cbn [dump_den_from fold_left length]; [lia|].
  change (fold_left dump_step l (dump_step fs n)) with (dump_den_from (dump_step fs n) l).
  rewrite IH. unfold dump_step. rewrite app_length. cbn [length]. lia.
Qed.

(* ------------------------------------------------------------------ *)
(** * [bridge_nodes] *)

(** the replay invariant: entry k of [tv] is a valid handle denoting entry k of [fs], whose top
    variable is not above the dump's variable [vars_k] (a reduced node returns its child) *)
Definition binv (st : store) (tv : list N) (fs : list bfun) (vars : list N) : Prop :=
  Forall2 (fun t f => t < size st /\ feq (den st t) f) tv fs /\
  Forall2 (fun t v => v <= topv st t) tv vars.

Lemma binv_extends c st st' tv fs vars : WF c st -> extends st st' ->
  binv st tv fs vars -> binv st' tv fs vars.
Proof.
  intros WFst E [H1 H2].
  assert (H2' : Forall2 (fun t v => t < size st /\ v <= topv st t) tv vars).
  { revert vars H2. induction H1 as [|t f tv fs [Ht _] _ IH]; intros vars H2;
      inversion H2; subst; constructor; auto. }
  split.
  - eapply Forall2_imp; [|exact H1]. intros t f [Ht Hd]. split; [apply (extends_lt st st' t E Ht)|].
    intros a. rewrite (extends_den_stable c st st' t WFst E Ht a). apply Hd.
  - eapply Forall2_imp; [|exact H2']. intros t v [Ht Hv]. cbv beta.
    rewrite (topv_extends st st' t E Ht). exact Hv.
Qed.

Lemma binv_init c st : WF c st -> binv st [0; 1] [bfalse; btrue] [VBOT; VTOP].
Proof.
  intros WFst. pose proof (wf_n c st WFst) as W. split.
  - constructor; [split; [apply (size_gt_0 c st WFst)|intros a; reflexivity]|].
    constructor; [split; [apply (size_gt_1 c st WFst)|intros a; reflexivity]|constructor].
  - constructor; [rewrite (topv_0 st W); lia|].
    constructor; [rewrite (topv_1 st W); lia|constructor].
Qed.

Lemma wf_dump_f_cons vars v lo hi r : wf_dump_f vars ((v, lo, hi) :: r) = true ->
  v < VBOT /\ (lo < length vars)%nat /\ (hi < length vars)%nat /\
  v < nth lo vars 0 /\ v < nth hi vars 0 /\ wf_dump_f (vars ++ [v]) r = true.
Proof.
  cbn [wf_dump_f]. rewrite !andb_true_iff, !N.ltb_lt, !Nat.ltb_lt. tauto.
Qed.

Lemma bridge_nodes_ok c : forall l st tv fs vars st' tv',
  WF c st -> binv st tv fs vars -> wf_dump_f vars l = true ->
  bridge_nodes c st tv l = (st', tv') ->
  WF c st' /\ extends st st' /\ exists vars', binv st' tv' (dump_den_from fs l) vars'.
Proof.
  induction l as [|[[v lo] hi] l IH]; intros st tv fs vars st' tv' WFst HI Hwf X.
  - cbn [bridge_nodes] in X. inversion X; subst.
    split; [exact WFst|]. split; [apply extends_refl|]. exists vars. exact HI.
  - apply wf_dump_f_cons in Hwf. destruct Hwf as (Hv & Hlo & Hhi & Hvlo & Hvhi & Hwf).
    cbn [bridge_nodes] in X.
    destruct (mk_node c st v (nth lo tv 0) (nth hi tv 0)) as [s1 t] eqn:Xm.
    pose proof HI as [H1 H2].
    pose proof (Forall2_len _ _ _ H1) as L1. pose proof (Forall2_len _ _ _ H2) as L2.
    destruct (Forall2_nth _ _ _ H1 lo 0 bfalse ltac:(lia)) as [Slo Dlo].
    destruct (Forall2_nth _ _ _ H1 hi 0 bfalse ltac:(lia)) as [Shi Dhi].
    pose proof (Forall2_nth _ _ _ H2 lo 0 0 ltac:(lia)) as Tlo.
    pose proof (Forall2_nth _ _ _ H2 hi 0 0 ltac:(lia)) as Thi.
    cbv beta in Tlo, Thi.
    destruct (mk_node_ok c st v (nth lo tv 0) (nth hi tv 0) s1 t WFst Hv Slo Shi ltac:(lia) ltac:(lia) Xm)
      as (WF1 & E1 & Ht & Dt & Tt & _).
    assert (HI1 : binv s1 (tv ++ [t]) (dump_step fs (v, lo, hi)) (vars ++ [v])).
    { destruct (binv_extends c st s1 tv fs vars WFst E1 HI) as [G1 G2]. split.
      - unfold dump_step. apply Forall2_app; [exact G1|]. constructor; [|constructor].
        split; [exact Ht|]. intros a. cbn [fst snd]. rewrite Dt, Dlo, Dhi. reflexivity.
      - apply Forall2_app; [exact G2|]. constructor; [exact Tt|constructor]. }
    destruct (IH s1 (tv ++ [t]) _ _ st' tv' WF1 HI1 Hwf X) as (WF' & E' & vars' & HI').
    split; [exact WF'|]. split; [eapply extends_trans; eauto|]. exists vars'. exact HI'.
Qed.

Lemma Forall2_last {A B} (R : A -> B -> Prop) l l' d d' :
  Forall2 R l l' -> l <> [] -> R (last l d) (last l' d').
Proof.
  induction 1 as [|x y l l' Rxy H IH]; intros NE; [contradiction|].
  destruct H as [|x2 y2 l l' R2 H]; [exact Rxy|].
  change (R (last (x2 :: l) d) (last (y2 :: l') d')). apply IH. discriminate.
Qed.

(* ------------------------------------------------------------------ *)
(** * [bridge_one], [bridge_all], [from_biodivine_vector] *)

Theorem bridge_one_ok c st a st' t : WF c st -> wf_dump a = true -> bridge_one c st a = (st', t) ->
  WF c st' /\ extends st st' /\ t < size st' /\ feq (den st' t) (bio_ac_den a).
Proof.
  intros WFst Hwf X. destruct a as [| |l]; cbn [bridge_one] in X.
  - inversion X; subst. split; [exact WFst|]. split; [apply extends_refl|].
    split; [apply (size_gt_1 c st' WFst)|intros a; reflexivity].
  - inversion X; subst. split; [exact WFst|]. split; [apply extends_refl|].
    split; [apply (size_gt_0 c st' WFst)|intros a; reflexivity].
  - destruct (bridge_nodes c st [0; 1] l) as [s1 tv] eqn:Xn. inversion X; subst s1 t. clear X.
    cbn [wf_dump] in Hwf. apply andb_true_iff in Hwf. destruct Hwf as [Hwf _].
    destruct (bridge_nodes_ok c l st [0; 1] _ _ st' tv WFst (binv_init c st WFst) Hwf Xn)
      as (WF' & E' & vars' & [H1 _]).
    split; [exact WF'|]. split; [exact E'|].
    assert (NE : tv <> []).
    { intros ->. apply Forall2_len in H1. unfold dump_den in H1. rewrite dump_den_from_length in H1.
      cbn [length] in H1. lia. }
    apply (Forall2_last _ tv (dump_den_from [bfalse; btrue] l) 0 (fun _ => false) H1 NE).
Qed.

Theorem bridge_all_ok c : forall l st st' ts,
  WF c st -> Forall (fun a => wf_dump a = true) l -> bridge_all c st l = (st', ts) ->
  WF c st' /\ extends st st' /\ Forall (fun t => t < size st') ts /\
  Forall2 (fun t a => feq (den st' t) (bio_ac_den a)) ts l.
Proof.
  induction l as [|a l IH]; intros st st' ts WFst Hwf X.
  - cbn [bridge_all] in X. inversion X; subst.
    split; [exact WFst|]. split; [apply extends_refl|]. split; constructor.
  - inversion Hwf as [|? ? Ha Hl]; subst. cbn [bridge_all] in X.
    destruct (bridge_one c st a) as [s1 t] eqn:X1.
    destruct (bridge_all c s1 l) as [s2 ts'] eqn:X2. inversion X; subst s2 ts. clear X.
    destruct (bridge_one_ok c st a s1 t WFst Ha X1) as (WF1 & E1 & Ht & Dt).
    destruct (IH s1 st' ts' WF1 Hl X2) as (WF' & E' & V' & D').
    split; [exact WF'|]. split; [eapply extends_trans; eauto|]. split.
    + constructor; [apply (extends_lt s1 st' t E' Ht)|exact V'].
    + constructor; [|exact D']. intros x. rewrite (extends_den_stable c s1 st' t WF1 E' Ht x). apply Dt.
Qed.

Corollary from_biodivine_vector_ok c l st' ts :
  Forall (fun a => wf_dump a = true) l -> from_biodivine_vector c l = (st', ts) ->
  WF c st' /\ Forall (fun t => t < size st') ts /\
  Forall2 (fun t a => feq (den st' t) (bio_ac_den a)) ts l.
Proof.
  intros Hwf X. unfold from_biodivine_vector in X.
  destruct (bridge_all_ok c l (init c) st' ts (init_wf c) Hwf X) as (WF' & _ & V' & D').
  split; [exact WF'|]. split; assumption.
Qed.

(** the bridged vector is a well-formed input of the semantics functions and denotes the dumped
    ADF, whenever the dumps only mention the statements' variables *)
Corollary bridge_all_ac_ok c l st st' ts :
  WF c st -> Forall (fun a => wf_dump a = true) l -> bridge_all c st l = (st', ts) ->
  Forall (supported (length l)) (map bio_ac_den l) ->
  WF c st' /\ extends st st' /\ ac_ok st' ts /\ adf_eq (abs st' ts) (map bio_ac_den l).
Proof.
  intros WFst Hwf X S.
  destruct (bridge_all_ok c l st st' ts WFst Hwf X) as (WF' & E' & V' & D').
  assert (EQ : adf_eq (abs st' ts) (map bio_ac_den l)).
  { unfold adf_eq, abs. clear -D'. induction D'; cbn [map]; constructor; auto. }
  split; [exact WF'|]. split; [exact E'|]. split; [|exact EQ].
  split; [exact V'|].
  rewrite <- (abs_length st' ts), (adf_eq_length _ _ EQ), map_length.
  apply (supported_adf_eq _ _ _ (adf_eq_sym _ _ EQ) S).
Qed.

(* ------------------------------------------------------------------ *)
(** * The run-time validator (translation validation of every imported ADF) *)

(** if, in ONE well-formed store, replaying the dump yields the handle [h] of the natively
    compiled condition, the dump denotes that condition *)
Theorem validator_sound c st h a st' t :
  WF c st -> h < size st -> wf_dump a = true -> bridge_one c st a = (st', t) -> t = h ->
  feq (bio_ac_den a) (den st h).
Proof.
  intros WFst Hh Hwf X ->.
  destruct (bridge_one_ok c st a st' h WFst Hwf X) as (WF' & E' & _ & D').
  intros x. rewrite <- D'. apply (extends_den_stable c st st' h WFst E' Hh).
Qed.

(** ... and the check never rejects a correct dump (canonicity) *)
Theorem validator_complete c st h a st' t :
  WF c st -> h < size st -> wf_dump a = true -> bridge_one c st a = (st', t) ->
  feq (bio_ac_den a) (den st h) -> t = h.
Proof.
  intros WFst Hh Hwf X EQ.
  destruct (bridge_one_ok c st a st' t WFst Hwf X) as (WF' & E' & Ht & D').
  apply (canonicity st' (wf_n c st' WF') t h Ht (extends_lt st st' h E' Hh)).
  intros x. rewrite D', EQ. symmetry. apply (extends_den_stable c st st' h WFst E' Hh).
Qed.

Corollary validator_iff c st h a st' t :
  WF c st -> h < size st -> wf_dump a = true -> bridge_one c st a = (st', t) ->
  (t = h <-> feq (bio_ac_den a) (den st h)).
Proof.
  intros WFst Hh Hwf X. split.
  - apply (validator_sound c st h a st' t WFst Hh Hwf X).
  - apply (validator_complete c st h a st' t WFst Hh Hwf X).
Qed.

(** the whole vector: threading the store through all dumps *)
Theorem validator_all_sound c : forall l st hs st' ts,
  WF c st -> Forall (fun h => h < size st) hs -> Forall (fun a => wf_dump a = true) l ->
  bridge_all c st l = (st', ts) -> ts = hs ->
  Forall2 (fun a h => feq (bio_ac_den a) (den st h)) l hs.
Proof.
  intros l st hs st' ts WFst V Hwf X ->.
  destruct (bridge_all_ok c l st st' hs WFst Hwf X) as (WF' & E' & _ & D').
  apply Forall2_flip. eapply Forall2_impl_Forall; [exact V| |exact D'].
  intros h a Hh Hd x. cbv beta in *. rewrite <- Hd. apply (extends_den_stable c st st' h WFst E' Hh).
Qed.

(* ------------------------------------------------------------------ *)
(** * Answers only depend on the denoted ADF

    Two well-formed (store, roots) pairs - possibly with different configurations, histories
    and node numberings - that denote pointwise-equal ADFs give the same answers, read as
    interpretations.  Instances: hybrid mode vs. native (the bridged store vs. the natively
    compiled one), answers after a re-import (C14), independence of earlier computations (C11). *)

Lemma Complete_adf_eq D D' v : adf_eq D D' -> (Complete D v <-> Complete D' v).
Proof. intros E. split; apply Complete_feq; [exact E|apply adf_eq_sym; exact E]. Qed.
Lemma Grounded_adf_eq D D' v : adf_eq D D' -> (Grounded D v <-> Grounded D' v).
Proof. intros E. split; apply Grounded_feq; [exact E|apply adf_eq_sym; exact E]. Qed.
Lemma Stable_adf_eq D D' v : adf_eq D D' -> (Stable D v <-> Stable D' v).
Proof. intros E. split; apply Stable_feq; [exact E|apply adf_eq_sym; exact E]. Qed.
Lemma Model2_adf_eq D D' v : adf_eq D D' -> (Model2 D v <-> Model2 D' v).
Proof. intros E. unfold Model2. rewrite (Complete_adf_eq D D' v E). reflexivity. Qed.

Theorem answers_determined_grounded c1 c2 st1 ac1 st2 ac2 s1' g1 s2' g2 :
  WF c1 st1 -> WF c2 st2 -> ac_ok st1 ac1 -> ac_ok st2 ac2 -> adf_eq (abs st1 ac1) (abs st2 ac2) ->
  grounded c1 st1 ac1 = Some (s1', g1) -> grounded c2 st2 ac2 = Some (s2', g2) ->
  interp_of g1 = interp_of g2.
Proof.
  intros W1 W2 O1 O2 EQ X1 X2.
  destruct (grounded_exact c1 st1 ac1 s1' g1 W1 O1 X1) as (_ & _ & _ & _ & G1 & _).
  destruct (grounded_exact c2 st2 ac2 s2' g2 W2 O2 X2) as (_ & _ & _ & _ & G2 & _).
  apply (Grounded_unique (abs st2 ac2)); [|exact G2]. apply (Grounded_feq _ _ _ EQ G1).
Qed.

Theorem answers_determined_complete c1 c2 st1 ac1 st2 ac2 s1' l1 s2' l2 :
  WF c1 st1 -> WF c2 st2 -> ac_ok st1 ac1 -> ac_ok st2 ac2 -> adf_eq (abs st1 ac1) (abs st2 ac2) ->
  complete c1 st1 ac1 = Some (s1', l1) -> complete c2 st2 ac2 = Some (s2', l2) ->
  (forall v, In v (map interp_of l1) <-> In v (map interp_of l2)) /\
  hd_error (map interp_of l1) = hd_error (map interp_of l2).
Proof.
  intros W1 W2 O1 O2 EQ X1 X2.
  destruct (complete_exact c1 st1 ac1 s1' l1 W1 O1 X1) as (_ & _ & _ & H1 & g1 & G1 & Hd1).
  destruct (complete_exact c2 st2 ac2 s2' l2 W2 O2 X2) as (_ & _ & _ & H2 & g2 & G2 & Hd2).
  split.
  - intros v. rewrite H1, H2. apply (Complete_adf_eq _ _ v EQ).
  - rewrite Hd1, Hd2. f_equal. apply (Grounded_unique (abs st2 ac2)); [|exact G2].
    apply (Grounded_feq _ _ _ EQ G1).
Qed.

Theorem answers_determined_stable c1 c2 st1 ac1 st2 ac2 s1' l1 s2' l2 :
  WF c1 st1 -> WF c2 st2 -> ac_ok st1 ac1 -> ac_ok st2 ac2 -> adf_eq (abs st1 ac1) (abs st2 ac2) ->
  stable c1 st1 ac1 = Some (s1', l1) -> stable c2 st2 ac2 = Some (s2', l2) ->
  forall v, In v (map interp_of l1) <-> In v (map interp_of l2).
Proof.
  intros W1 W2 O1 O2 EQ X1 X2 v.
  destruct (stable_exact c1 st1 ac1 s1' l1 W1 O1 X1) as (_ & _ & _ & H1).
  destruct (stable_exact c2 st2 ac2 s2' l2 W2 O2 X2) as (_ & _ & _ & H2).
  rewrite H1, H2. apply (Stable_adf_eq _ _ v EQ).
Qed.

Theorem answers_determined_stable_with_prefilter c1 c2 st1 ac1 st2 ac2 s1' l1 s2' l2 :
  WF c1 st1 -> WF c2 st2 -> ac_ok st1 ac1 -> ac_ok st2 ac2 -> adf_eq (abs st1 ac1) (abs st2 ac2) ->
  stable_with_prefilter c1 st1 ac1 = Some (s1', l1) -> stable_with_prefilter c2 st2 ac2 = Some (s2', l2) ->
  forall v, In v (map interp_of l1) <-> In v (map interp_of l2).
Proof.
  intros W1 W2 O1 O2 EQ X1 X2 v.
  destruct (stable_with_prefilter_exact c1 st1 ac1 s1' l1 W1 O1 X1) as (_ & _ & _ & H1).
  destruct (stable_with_prefilter_exact c2 st2 ac2 s2' l2 W2 O2 X2) as (_ & _ & _ & H2).
  rewrite H1, H2. apply (Stable_adf_eq _ _ v EQ).
Qed.

(** the stable sets of ALL enumeration variants coincide across stores *)
Theorem answers_determined_stable_variants c1 c2 st1 ac1 st2 ac2 s1' l1 s2' l2 :
  WF c1 st1 -> WF c2 st2 -> ac_ok st1 ac1 -> ac_ok st2 ac2 -> adf_eq (abs st1 ac1) (abs st2 ac2) ->
  stable c1 st1 ac1 = Some (s1', l1) -> stable_with_prefilter c2 st2 ac2 = Some (s2', l2) ->
  forall v, In v (map interp_of l1) <-> In v (map interp_of l2).
Proof.
  intros W1 W2 O1 O2 EQ X1 X2 v.
  destruct (stable_exact c1 st1 ac1 s1' l1 W1 O1 X1) as (_ & _ & _ & H1).
  destruct (stable_with_prefilter_exact c2 st2 ac2 s2' l2 W2 O2 X2) as (_ & _ & _ & H2).
  rewrite H1, H2. apply (Stable_adf_eq _ _ v EQ).
Qed.

(** ** across the back-ends: the biodivine functions on one store, the native ones on another *)

Theorem answers_determined_bio_native_grounded c1 c2 st1 ac1 st2 ac2 s1' g1 s2' g2 :
  WF c1 st1 -> WF c2 st2 -> ac_ok st1 ac1 -> ac_ok st2 ac2 -> adf_eq (abs st1 ac1) (abs st2 ac2) ->
  bio_grounded c1 st1 ac1 = Some (s1', g1) -> grounded c2 st2 ac2 = Some (s2', g2) ->
  interp_of g1 = interp_of g2.
Proof.
  intros W1 W2 O1 O2 EQ X1 X2.
  destruct (bio_grounded_exact c1 st1 ac1 s1' g1 W1 O1 X1) as (_ & _ & _ & G1).
  destruct (grounded_exact c2 st2 ac2 s2' g2 W2 O2 X2) as (_ & _ & _ & _ & G2 & _).
  apply (Grounded_unique (abs st2 ac2)); [|exact G2]. apply (Grounded_feq _ _ _ EQ G1).
Qed.

Theorem answers_determined_bio_native_complete c1 c2 st1 ac1 st2 ac2 s1' l1 s2' l2 :
  WF c1 st1 -> WF c2 st2 -> ac_ok st1 ac1 -> ac_ok st2 ac2 -> adf_eq (abs st1 ac1) (abs st2 ac2) ->
  bio_complete c1 st1 ac1 = Some (s1', l1) -> complete c2 st2 ac2 = Some (s2', l2) ->
  (forall v, In v (map interp_of l1) <-> In v (map interp_of l2)) /\
  hd_error (map interp_of l1) = hd_error (map interp_of l2).
Proof.
  intros W1 W2 O1 O2 EQ X1 X2.
  destruct (bio_complete_exact c1 st1 ac1 s1' l1 W1 O1 X1) as (_ & _ & _ & H1 & g1 & G1 & Hd1).
  destruct (complete_exact c2 st2 ac2 s2' l2 W2 O2 X2) as (_ & _ & _ & H2 & g2 & G2 & Hd2).
  split.
  - intros v. rewrite H1, H2. apply (Complete_adf_eq _ _ v EQ).
  - rewrite Hd1, Hd2. f_equal. apply (Grounded_unique (abs st2 ac2)); [|exact G2].
    apply (Grounded_feq _ _ _ EQ G1).
Qed.

Theorem answers_determined_bio_native_stable c1 c2 st1 ac1 st2 ac2 s1' l1 s2' l2 :
  WF c1 st1 -> WF c2 st2 -> ac_ok st1 ac1 -> ac_ok st2 ac2 -> adf_eq (abs st1 ac1) (abs st2 ac2) ->
  bio_stable c1 st1 ac1 = Some (s1', l1) -> stable c2 st2 ac2 = Some (s2', l2) ->
  forall v, In v (map interp_of l1) <-> In v (map interp_of l2).
Proof.
  intros W1 W2 O1 O2 EQ X1 X2 v.
  destruct (bio_stable_exact c1 st1 ac1 s1' l1 W1 O1 X1) as (_ & _ & _ & H1).
  destruct (stable_exact c2 st2 ac2 s2' l2 W2 O2 X2) as (_ & _ & _ & H2).
  rewrite H1, H2. apply (Stable_adf_eq _ _ v EQ).
Qed.

(** the hybrid stable semantics: candidates from the rewriting on the biodivine side, the
    stability filter on the native side of the bridge *)
Theorem hybrid_stable_from_candidates c1 c2 st1 ac1 st2 ac2 s1' cands s2' l :
  WF c1 st1 -> WF c2 st2 -> ac_ok st1 ac1 -> ac_ok st2 ac2 -> adf_eq (abs st1 ac1) (abs st2 ac2) ->
  N.of_nat (length ac1) <= VBOT ->
  stable_candidates c1 st1 ac1 = Some (s1', cands) ->
  stable_from_candidates c2 st2 ac2 cands = Some (s2', l) ->
  NoDup (map interp_of l) /\ (forall v, In v (map interp_of l) <-> Stable (abs st1 ac1) v).
Proof.
  intros W1 W2 O1 O2 EQ B X1 X2.
  destruct (stable_candidates_exact c1 st1 ac1 s1' cands W1 O1 B X1) as (_ & _ & ND & HQ & HM).
  assert (HQ2 : Forall (fun v => length v = length ac2 /\ Forall (fun h => is_tv h = true) v) cands).
  { pose proof (adf_eq_length _ _ EQ) as L. rewrite !abs_length in L. rewrite <- L. exact HQ. }
  destruct (stable_from_candidates_filtered c2 st2 ac2 cands s2' l W2 O2 HQ2 X2) as (_ & _ & Hf).
  assert (NDm : NoDup (map interp_of cands)).
  { apply NoDup_map_on; [exact ND|]. intros x y Hx Hy. rewrite Forall_forall in HQ.
    apply interp_of_inj_tv; [apply (HQ x Hx)|apply (HQ y Hy)]. }
  split; [apply (filtered_map_NoDup _ interp_of _ _ Hf NDm)|].
  intros v. rewrite in_map_iff. split.
  - intros (w & <- & Hw). apply (filtered_In _ _ _ Hf w) in Hw. destruct Hw as [_ Sw].
    apply (Stable_feq _ _ _ (adf_eq_sym _ _ EQ) Sw).
  - intros Sv. pose proof Sv as [Mv _]. apply HM in Mv. apply in_map_iff in Mv.
    destruct Mv as (w & Ew & Hw). exists w. split; [exact Ew|].
    apply (filtered_In _ _ _ Hf w). split; [exact Hw|]. rewrite Ew. apply (Stable_feq _ _ _ EQ Sv).
Qed.

(* ------------------------------------------------------------------ *)
(** * Pre-grounding

    Substituting the grounded truth values into every acceptance condition changes none of
    the semantics.  The specification's [bfun] is an arbitrary Coq function [asg -> bool]; the
    statements need the conditions to respect pointwise equality of assignments ([fext]), which
    holds for every denotation of a handle ([den_ext]) and follows from [supported n]. *)

Definition pregrounded (D : adf) (g : interp) : adf := map (fun f => fun x => f (override g x)) D.

Definition fext (f : bfun) : Prop := forall a a', (forall i, a i = a' i) -> f a = f a'.

Lemma supported_fext n f : supported n f -> fext f.
Proof. intros S a a' H. apply S. intros i _. apply H. Qed.

Lemma supported_all_fext n D : Forall (supported n) D -> Forall fext D.
Proof. apply Forall_impl. intros f. apply supported_fext. Qed.

Lemma abs_fext st ac : Forall fext (abs st ac).
Proof.
  unfold abs. apply Forall_forall. intros f Hf. apply in_map_iff in Hf. destruct Hf as (h & <- & _).
  intros a a' H. apply den_ext. exact H.
Qed.

Lemma pregrounded_length D g : length (pregrounded D g) = length D.
Proof. apply map_length. Qed.

Lemma supported_override n f g : supported n f -> supported n (fun x => f (override g x)).
Proof.
  intros S a b H. apply S. intros i Hi. unfold override. destruct (val g i); auto.
Qed.

Lemma pregrounded_supported n D g : Forall (supported n) D -> Forall (supported n) (pregrounded D g).
Proof.
  intros S. unfold pregrounded. apply Forall_forall. intros f' Hf. apply in_map_iff in Hf.
  destruct Hf as (f & <- & Hf). rewrite Forall_forall in S. apply supported_override. apply (S f Hf).
Qed.

Lemma Gamma_pregrounded D g v w :
  Gamma (pregrounded D g) v w <-> Forall2 (fun f r => Cons3 (fun x => f (override g x)) v r) D w.
Proof. unfold Gamma, pregrounded. apply Forall2_map_l. Qed.

(** Cons3 only looks at the completions *)
Lemma Cons3_agree (f f' : bfun) w r :
  (forall a, completes w a -> f a = f' a) -> Cons3 f w r -> Cons3 f' w r.
Proof.
  intros E. destruct r; cbn.
  - intros H a Ca. rewrite <- E by exact Ca. auto.
  - intros H a Ca. rewrite <- E by exact Ca. auto.
  - intros [H1 H2]. split; intros H.
    + apply H1. intros a Ca. rewrite E by exact Ca. auto.
    + apply H2. intros a Ca. rewrite E by exact Ca. auto.
Qed.

(** ... and only at the set of values the function takes on them *)
Lemma Cons3_image (f' f : bfun) w u r :
  (forall a, completes w a -> exists b, completes u b /\ f' a = f b) ->
  (forall b, completes u b -> exists a, completes w a /\ f' a = f b) ->
  (Cons3 f' w r <-> Cons3 f u r).
Proof.
  intros H1 H2.
  assert (A : forall x, (forall a, completes w a -> f' a = x) <-> (forall b, completes u b -> f b = x)).
  { intros x. split.
    - intros H b Cb. destruct (H2 b Cb) as (a & Ca & E). rewrite <- E. auto.
    - intros H a Ca. destruct (H1 a Ca) as (b & Cb & E). rewrite E. auto. }
  destruct r; cbn; rewrite ?A; reflexivity.
Qed.

Lemma override_above g w a : info_le g w -> completes w a -> forall i, override g a i = a i.
Proof. intros L C. apply completes_override. apply (info_le_completes g w a L C). Qed.

(** above [g], substituting [g] changes nothing *)
Lemma Cons3_pre f g w r : fext f -> info_le g w ->
  (Cons3 (fun x => f (override g x)) w r <-> Cons3 f w r).
Proof.
  intros Hf L. split; apply Cons3_agree; intros a Ca; cbv beta.
  - apply Hf. apply (override_above g w a L Ca).
  - apply Hf. intros i. symmetry. apply (override_above g w a L Ca).
Qed.

Lemma Gamma_pre D g v w : Forall fext D -> info_le g v ->
  (Gamma (pregrounded D g) v w <-> Gamma D v w).
Proof.
  intros HF L. rewrite Gamma_pregrounded. unfold Gamma.
  split; intros H; (eapply Forall2_impl_Forall; [exact HF| |exact H]); intros f r Ff Hc; cbv beta in *;
    apply (Cons3_pre f g v r Ff L); exact Hc.
Qed.

(** [g] overriding [w], as an interpretation *)
Definition tv_or (x y : tv) : tv := match x with U => y | _ => x end.
Fixpoint ovi (g w : interp) : interp :=
  match g, w with
  | x :: g', y :: w' => tv_or x y :: ovi g' w'
  | _, _ => []
  end.

Lemma nth_ovi : forall g w k, length g = length w ->
  nth k (ovi g w) U = tv_or (nth k g U) (nth k w U).
Proof.
  induction g as [|x g IH]; intros [|y w] k HL; try discriminate HL.
  - destruct k; reflexivity.
  - destruct k as [|k]; cbn [ovi nth]; [reflexivity|]. apply IH. cbn [length] in HL. lia.
Qed.

Lemma val_ovi g w i : length g = length w -> val (ovi g w) i = tv_or (val g i) (val w i).
Proof. intros HL. unfold val. apply nth_ovi. exact HL. Qed.

Lemma info_le_ovi : forall g w, length g = length w -> info_le g (ovi g w).
Proof.
  unfold info_le. induction g as [|x g IH]; intros [|y w] HL; try discriminate HL; cbn [ovi]; constructor.
  - destruct x; cbn [tv_or]; auto.
  - apply IH. cbn [length] in HL. lia.
Qed.

(** the substituted condition over the completions of [w] = the condition over the completions of
    "[g] overriding [w]" *)
Lemma Cons3_ovi f g w r : fext f -> length g = length w ->
  (Cons3 (fun x => f (override g x)) w r <-> Cons3 f (ovi g w) r).
Proof.
  intros Hf HL. apply Cons3_image.
  - intros a Ca. exists (override g a). split; [|reflexivity].
    intros i. rewrite (val_ovi g w i HL). unfold override. destruct (Ca i) as [C1 C2].
    destruct (val g i); cbn [tv_or]; split; intros E; try discriminate; auto.
  - intros b Cb. exists (override w b). split; [apply override_completes|]. cbv beta.
    apply Hf. intros i. unfold override. destruct (Cb i) as [C1 C2]. rewrite (val_ovi g w i HL) in C1, C2.
    destruct (val g i); cbn [tv_or] in *.
    + symmetry. apply C1. reflexivity.
    + symmetry. apply C2. reflexivity.
    + destruct (val w i); [symmetry; apply C1; reflexivity|symmetry; apply C2; reflexivity|reflexivity].
Qed.

(** every complete interpretation of the pre-grounded ADF is above [g] (for any complete [g]) *)
Lemma pregrounded_complete_above D g w : Forall fext D ->
  Complete D g -> Complete (pregrounded D g) w -> info_le g w.
Proof.
  intros HF Cg Cw.
  pose proof (Gamma_length _ _ _ Cg) as Lg. pose proof (Gamma_length _ _ _ Cw) as Lw.
  rewrite pregrounded_length in Lw.
  assert (HL : length g = length w) by lia.
  assert (Gu : Gamma D (ovi g w) w).
  { unfold Complete in Cw. rewrite Gamma_pregrounded in Cw. unfold Gamma.
    eapply Forall2_impl_Forall; [exact HF| |exact Cw]. intros f r Ff Hc. cbv beta in *.
    apply (Cons3_ovi f g w r Ff HL). exact Hc. }
  apply (Gamma_mono D g (ovi g w) g w (info_le_ovi g w HL) Cg Gu).
Qed.

Theorem pregrounded_grounded D g : Forall fext D -> Grounded D g -> Grounded (pregrounded D g) g.
Proof.
  intros HF [Cg Mg]. split.
  - apply (Gamma_pre D g g g HF (info_le_refl g)). exact Cg.
  - intros w Cw. apply (pregrounded_complete_above D g w HF Cg Cw).
Qed.

Theorem pregrounded_complete D g v : Forall fext D -> Grounded D g ->
  (Complete (pregrounded D g) v <-> Complete D v).
Proof.
  intros HF [Cg Mg]. split; intros Cv.
  - apply (Gamma_pre D g v v HF (pregrounded_complete_above D g v HF Cg Cv)). exact Cv.
  - apply (Gamma_pre D g v v HF (Mg v Cv)). exact Cv.
Qed.

Corollary pregrounded_model2 D g v : Forall fext D -> Grounded D g ->
  (Model2 (pregrounded D g) v <-> Model2 D v).
Proof. intros HF G. unfold Model2. rewrite (pregrounded_complete D g v HF G). reflexivity. Qed.

(* ------------------------------------------------------------------ *)
(** ** Existence of the grounded interpretation (for finitely supported conditions)

    [Grounded] is specified as "least complete interpretation"; to reason along the Kleene
    iteration we need the iteration to exist, i.e. [Cons3] to be total.  Constructively this
    holds for conditions that only look at finitely many variables. *)

Lemma all_or_counter n f v b : supported n f ->
  (forall a, completes v a -> f a = b) \/ (exists a, completes v a /\ f a = negb b).
Proof.
  intros S. pose proof (supported_fext n f S) as Hf.
  assert (P : forall k base,
    (forall a, completes v a -> (forall i, (k <= N.to_nat i)%nat -> a i = override v base i) -> f a = b) \/
    (exists a, completes v a /\ f a = negb b)).
  { induction k as [|k IH]; intros base.
    - destruct (bool_dec (f (override v base)) b) as [E|E].
      + left. intros a Ca Ha. rewrite <- E. apply Hf. intros i. apply Ha. lia.
      + right. exists (override v base). split; [apply override_completes|].
        destruct (f (override v base)), b; try reflexivity; exfalso; apply E; reflexivity.
    - destruct (IH (upd base (N.of_nat k) true)) as [H1|H1]; [|right; exact H1].
      destruct (IH (upd base (N.of_nat k) false)) as [H0|H0]; [|right; exact H0].
      left. intros a Ca Ha.
      assert (G : forall x, a (N.of_nat k) = x ->
                forall i, (k <= N.to_nat i)%nat -> a i = override v (upd base (N.of_nat k) x) i).
      { intros x Ex i Hi. destruct (N.eq_dec i (N.of_nat k)) as [->|Ne].
        - unfold override. destruct (Ca (N.of_nat k)) as [C1 C2].
          destruct (val v (N.of_nat k)); [apply C1; reflexivity|apply C2; reflexivity|].
          rewrite upd_eq. exact Ex.
        - rewrite (Ha i ltac:(lia)). unfold override. destruct (val v i); try reflexivity.
          rewrite upd_neq by exact Ne. reflexivity. }
      destruct (a (N.of_nat k)) eqn:Ek.
      + apply (H1 a Ca (G true eq_refl)).
      + apply (H0 a Ca (G false eq_refl)). }
  destruct (P n (fun _ => false)) as [H|H]; [left|right; exact H].
  intros a Ca.
  set (a' := fun i => if (N.to_nat i <? n)%nat then a i else override v (fun _ => false) i).
  assert (E : f a = f a').
  { apply S. intros i Hi. unfold a'. apply Nat.ltb_lt in Hi. rewrite Hi. reflexivity. }
  rewrite E. apply H.
  - intros i. unfold a'. destruct (N.to_nat i <? n)%nat; [apply Ca|apply override_completes].
  - intros i Hi. unfold a'. destruct (Nat.ltb_spec (N.to_nat i) n) as [L|L]; [lia|reflexivity].
Qed.

Lemma Cons3_total n f v : supported n f -> exists r, Cons3 f v r.
Proof.
  intros S.
  destruct (all_or_counter n f v true S) as [HT|(a & Ca & Fa)]; [exists T; exact HT|].
  destruct (all_or_counter n f v false S) as [HF|(a' & Ca' & Fa')]; [exists F; exact HF|].
  exists U. cbn. split; intros H.
  - rewrite (H a Ca) in Fa. discriminate Fa.
  - rewrite (H a' Ca') in Fa'. discriminate Fa'.
Qed.

Lemma Gamma_total n D v : Forall (supported n) D -> exists w, Gamma D v w.
Proof.
  unfold Gamma. induction 1 as [|f D Sf _ (w & IH)].
  - exists []. constructor.
  - destruct (Cons3_total n f v Sf) as (r & Hr). exists (r :: w). constructor; assumption.
Qed.

Lemma chain_exists n D : Forall (supported n) D -> forall k, exists w, Theory.chain D k w.
Proof.
  intros S. induction k as [|k (w & IH)].
  - eexists. constructor.
  - destruct (Gamma_total n D w S) as (w' & G). exists w'. econstructor; eauto.
Qed.

Theorem Grounded_exists n D : Forall (supported n) D ->
  exists g, Grounded D g /\ Theory.chain D (length D) g.
Proof.
  intros S. destruct (chain_exists n D S (length D)) as (g & Hc).
  destruct (Gamma_total n D g S) as (w & G).
  exists g. split; [apply (chain_length_grounded D g Hc w G)|exact Hc].
Qed.

(** the grounded interpretation is reached by the Kleene iteration *)
Corollary Grounded_on_chain n D g : Forall (supported n) D -> Grounded D g ->
  Theory.chain D (length D) g.
Proof.
  intros S G. destruct (Grounded_exists n D S) as (g' & G' & Hc).
  rewrite (Grounded_unique D g g' G G'). exact Hc.
Qed.

(* ------------------------------------------------------------------ *)
(** ** Pre-grounding and the stable semantics *)

(** what is true along the iteration of [D] is true in every complete interpretation of a
    reduct of [D] by a complete interpretation *)
Lemma chain_T_in_reduct D v : Complete D v ->
  forall n u, Theory.chain D n u ->
  forall w, Complete (reduct D v) w -> forall i, val u i = T -> val w i = T.
Proof.
  intros Cv n u Hc. induction Hc as [|n u u' Hc IH G]; intros w Cw i Hi.
  - exfalso. unfold val in Hi.
    assert (E : nth (N.to_nat i) (repeat U (length D)) U = U).
    { generalize (N.to_nat i). generalize (length D). intros m.
      induction m as [|m IHm]; intros [|k]; cbn [repeat nth]; auto. }
    rewrite E in Hi. discriminate Hi.
  - pose proof (chain_below_complete D n u v Hc Cv) as L.
    assert (Hk : (N.to_nat i < length u')%nat) by (apply val_decided_lt; rewrite Hi; discriminate).
    pose proof (Gamma_length _ _ _ G) as LD.
    assert (HkD : (N.to_nat i < length D)%nat) by lia.
    pose proof (Forall2_nth _ _ _ G (N.to_nat i) (fun _ => false) U HkD) as Ck.
    cbv beta in Ck. fold (val u' i) in Ck. rewrite Hi in Ck.
    pose proof Cw as Cw0. unfold Complete in Cw0. rewrite Gamma_reduct in Cw0.
    pose proof (Forall2_nth _ _ _ Cw0 (N.to_nat i) (fun _ => false) U HkD) as Cwk.
    cbv beta in Cwk. fold (val w i) in Cwk.
    eapply Cons3_det; [exact Cwk|]. cbn. intros a Ca. apply Ck.
    intros j. split; intros Ej.
    + destruct (info_le_val u v j L) as [E|E]; [rewrite E in Ej; discriminate|].
      unfold mask. rewrite <- E, Ej. apply (Ca j). apply (IH w Cw j Ej).
    + destruct (info_le_val u v j L) as [E|E]; [rewrite E in Ej; discriminate|].
      unfold mask. rewrite <- E, Ej. reflexivity.
Qed.

(** what [g] makes true is true in every complete interpretation of a reduct of the
    pre-grounded ADF *)
Lemma pre_reduct_T D g v w : Complete D g -> Complete (reduct (pregrounded D g) v) w ->
  forall i, val g i = T -> val w i = T.
Proof.
  intros Cg Cw i Hi.
  assert (Hk : (N.to_nat i < length g)%nat) by (apply val_decided_lt; rewrite Hi; discriminate).
  pose proof (Gamma_length _ _ _ Cg) as LD.
  assert (HkD : (N.to_nat i < length D)%nat) by lia.
  pose proof (Forall2_nth _ _ _ Cg (N.to_nat i) (fun _ => false) U HkD) as Ck.
  cbv beta in Ck. fold (val g i) in Ck. rewrite Hi in Ck.
  unfold Complete in Cw. rewrite Gamma_reduct in Cw. unfold pregrounded in Cw.
  rewrite Forall2_map_l in Cw.
  pose proof (Forall2_nth _ _ _ Cw (N.to_nat i) (fun _ => false) U HkD) as Cwk.
  cbv beta in Cwk. fold (val w i) in Cwk.
  eapply Cons3_det; [exact Cwk|]. cbn. intros a Ca. apply Ck. apply override_completes.
Qed.

(** on interpretations containing the true part of [g], the two reducts have the same operator *)
Lemma Gamma_reduct_pre D g v w r : Forall fext D -> info_le g v ->
  (forall i, val g i = T -> val w i = T) ->
  (Gamma (reduct (pregrounded D g) v) w r <-> Gamma (reduct D v) w r).
Proof.
  intros HF L HT. rewrite !Gamma_reduct. unfold pregrounded. rewrite Forall2_map_l.
  assert (A : forall f, fext f -> forall a, completes w a ->
            f (override g (mask v a)) = f (mask v a)).
  { intros f Ff a Ca. apply Ff. intros j. unfold override. destruct (val g j) eqn:Eg; [| |reflexivity].
    - destruct (info_le_val g v j L) as [E|E]; [rewrite E in Eg; discriminate|].
      unfold mask. rewrite <- E, Eg. symmetry. apply (Ca j). apply (HT j Eg).
    - destruct (info_le_val g v j L) as [E|E]; [rewrite E in Eg; discriminate|].
      unfold mask. rewrite <- E, Eg. reflexivity. }
  split; intros H; (eapply Forall2_impl_Forall; [exact HF| |exact H]); intros f x Ff Hc; cbv beta in *;
    (eapply Cons3_agree; [|exact Hc]); intros a Ca; cbv beta; [|symmetry]; apply (A f Ff a Ca).
Qed.

(** the reducts of [D] and of the pre-grounded [D] by a complete [v] have the same grounded
    interpretation *)
Lemma Grounded_reduct_pre n D g v h : Forall (supported n) D -> Grounded D g -> Complete D v ->
  (Grounded (reduct (pregrounded D g) v) h <-> Grounded (reduct D v) h).
Proof.
  intros S G Cv. pose proof (supported_all_fext n D S) as HF.
  pose proof G as [Cg Mg]. pose proof (Mg v Cv) as L.
  pose proof (Grounded_on_chain n D g S G) as Hc.
  pose proof (chain_T_in_reduct D v Cv (length D) g Hc) as F2.
  pose proof (pre_reduct_T D g v) as F1.
  split; intros [Ch Lh]; split.
  - apply (Gamma_reduct_pre D g v h h HF L (F1 h Cg Ch)). exact Ch.
  - intros w Cw. apply Lh. apply (Gamma_reduct_pre D g v w w HF L (F2 w Cw)). exact Cw.
  - apply (Gamma_reduct_pre D g v h h HF L (F2 h Ch)). exact Ch.
  - intros w Cw. apply Lh. apply (Gamma_reduct_pre D g v w w HF L (F1 w Cg Cw)). exact Cw.
Qed.

Theorem pregrounded_stable D g v : Grounded D g -> Forall (supported (length D)) D ->
  (Stable (pregrounded D g) v <-> Stable D v).
Proof.
  intros G S. pose proof (supported_all_fext _ D S) as HF. unfold Stable. split; intros [M H].
  - pose proof (proj1 (pregrounded_model2 D g v HF G) M) as M'. split; [exact M'|].
    intros h Gh. apply H. apply (Grounded_reduct_pre _ D g v h S G (proj1 M')). exact Gh.
  - pose proof (proj2 (pregrounded_model2 D g v HF G) M) as M'. split; [exact M'|].
    intros h Gh. apply H. apply (Grounded_reduct_pre _ D g v h S G (proj1 M)). exact Gh.
Qed.

(** for ADFs denoted by handles, [fext] is automatic *)
Corollary pregrounded_grounded_abs st ac g :
  Grounded (abs st ac) g -> Grounded (pregrounded (abs st ac) g) g.
Proof. apply pregrounded_grounded, abs_fext. Qed.

Corollary pregrounded_complete_abs st ac g v : Grounded (abs st ac) g ->
  (Complete (pregrounded (abs st ac) g) v <-> Complete (abs st ac) v).
Proof. apply pregrounded_complete, abs_fext. Qed.

Corollary pregrounded_stable_abs st ac g v : ac_ok st ac -> Grounded (abs st ac) g ->
  (Stable (pregrounded (abs st ac) g) v <-> Stable (abs st ac) v).
Proof. intros [_ S] G. apply pregrounded_stable; [exact G|]. rewrite abs_length. exact S. Qed.

(* ------------------------------------------------------------------ *)
(** ** Pre-grounding in the model: the hybrid step

    The vector of handles the grounded loop ends with IS the pre-grounded ADF (every condition
    restricted by the decided statements); the hybrid mode dumps it and replays the dump into a
    fresh store.  Whatever store ends up denoting the pre-grounded ADF, the native semantics
    functions return the answers of the original ADF. *)

Lemma grounded_vector_pregrounded st st' ac g w :
  Forall2 (fun h a => feq (den st' h) (fun x => den st a (override w x))) g ac ->
  adf_eq (abs st' g) (pregrounded (abs st ac) w).
Proof.
  unfold adf_eq, abs, pregrounded. induction 1 as [|h a g ac Hha _ IH]; cbn [map]; constructor; auto.
Qed.

Theorem bio_grounded_internal_pregrounded c st ac s1 g :
  WF c st -> ac_ok st ac -> bio_grounded_internal c st ac = Some (s1, g) ->
  WF c s1 /\ extends st s1 /\ ac_ok s1 g /\ Grounded (abs st ac) (interp_of g) /\
  adf_eq (abs s1 g) (pregrounded (abs st ac) (interp_of g)).
Proof.
  intros WFst [V S] X.
  destruct (bio_grounded_internal_exact c st ac s1 g WFst V X) as (WF1 & E1 & Lg & Vg & HG & Dg).
  pose proof (grounded_vector_pregrounded st s1 ac g (interp_of g) Dg) as EQ.
  split; [exact WF1|]. split; [exact E1|]. split; [|split; [exact HG|exact EQ]].
  split; [exact Vg|]. rewrite Lg.
  apply (supported_adf_eq _ _ _ (adf_eq_sym _ _ EQ)). apply pregrounded_supported. exact S.
Qed.

Section HybridOpt.
  Variables (D : adf) (g : interp) (c : cfg) (st : store) (ts : list N).
  Hypothesis S : Forall (supported (length D)) D.
  Hypothesis G : Grounded D g.
  Hypothesis WFst : WF c st.
  Hypothesis V : Forall (fun h => h < size st) ts.
  Hypothesis EQ : adf_eq (abs st ts) (pregrounded D g).

  Lemma hybrid_opt_ac_ok : ac_ok st ts.
  Proof.
    split; [exact V|].
    assert (L : length ts = length D).
    { rewrite <- (abs_length st ts), (adf_eq_length _ _ EQ). apply pregrounded_length. }
    rewrite L. apply (supported_adf_eq _ _ _ (adf_eq_sym _ _ EQ)). apply pregrounded_supported. exact S.
  Qed.

  Theorem hybrid_opt_grounded st' g' : grounded c st ts = Some (st', g') -> interp_of g' = g.
  Proof.
    intros X. destruct (grounded_exact c st ts st' g' WFst hybrid_opt_ac_ok X) as (_ & _ & _ & _ & HG & _).
    apply (Grounded_unique (pregrounded D g)).
    - apply (Grounded_feq _ _ _ EQ HG).
    - apply (pregrounded_grounded D g (supported_all_fext _ D S) G).
  Qed.

  Theorem hybrid_opt_complete st' l : complete c st ts = Some (st', l) ->
    NoDup (map interp_of l) /\ (forall v, In v (map interp_of l) <-> Complete D v) /\
    hd_error (map interp_of l) = Some g.
  Proof.
    intros X. pose proof (supported_all_fext _ D S) as HF.
    destruct (complete_exact c st ts st' l WFst hybrid_opt_ac_ok X) as (_ & _ & ND & Hin & g0 & G0 & Hd).
    split; [exact ND|]. split.
    - intros v. rewrite Hin, (Complete_adf_eq _ _ v EQ). apply (pregrounded_complete D g v HF G).
    - rewrite Hd. f_equal. apply (Grounded_unique (pregrounded D g)).
      + apply (Grounded_feq _ _ _ EQ G0).
      + apply (pregrounded_grounded D g HF G).
  Qed.

  Theorem hybrid_opt_stable st' l : stable c st ts = Some (st', l) ->
    NoDup (map interp_of l) /\ (forall v, In v (map interp_of l) <-> Stable D v).
  Proof.
    intros X.
    destruct (stable_exact c st ts st' l WFst hybrid_opt_ac_ok X) as (_ & _ & ND & Hin).
    split; [exact ND|]. intros v.
    rewrite Hin, (Stable_adf_eq _ _ v EQ). apply (pregrounded_stable D g v G S).
  Qed.

  Theorem hybrid_opt_stable_with_prefilter st' l : stable_with_prefilter c st ts = Some (st', l) ->
    NoDup (map interp_of l) /\ (forall v, In v (map interp_of l) <-> Stable D v).
  Proof.
    intros X.
    destruct (stable_with_prefilter_exact c st ts st' l WFst hybrid_opt_ac_ok X) as (_ & _ & ND & Hin).
    split; [exact ND|]. intros v.
    rewrite Hin, (Stable_adf_eq _ _ v EQ). apply (pregrounded_stable D g v G S).
  Qed.
End HybridOpt.

(* ------------------------------------------------------------------ *)
(** * Examples *)

(** x0 & x1 as dumped by biodivine: entry 2 = (x1 ? 1 : 0), entry 3 = (x0 ? entry 2 : 0) *)
Definition dump_and : bio_ac := BDump [(1, 0%nat, 1%nat); (0, 0%nat, 2%nat)].

Example dump_and_wf : wf_dump dump_and = true.
Proof. vm_compute. reflexivity. Qed.

Example dump_and_handles :
  snd (bridge_one cfg_default (init cfg_default) dump_and) = 3 /\
  snd (bridge_nodes cfg_default (init cfg_default) [0; 1] [(1, 0%nat, 1%nat); (0, 0%nat, 2%nat)]) = [0; 1; 2; 3].
Proof. vm_compute. split; reflexivity. Qed.

Example dump_and_den : forall a, bio_ac_den dump_and a = a 0 && a 1.
Proof. intros a. cbn. destruct (a 0), (a 1); reflexivity. Qed.

(** ill-formed dumps are rejected: variable order violated / forward reference / no node *)
Example dump_bad_order : wf_dump (BDump [(0, 0%nat, 1%nat); (1, 0%nat, 2%nat)]) = false.
Proof. vm_compute. reflexivity. Qed.
Example dump_bad_ref : wf_dump (BDump [(0, 0%nat, 3%nat)]) = false.
Proof. vm_compute. reflexivity. Qed.
Example dump_empty : wf_dump (BDump []) = false.
Proof. vm_compute. reflexivity. Qed.

(** [wf_dump] is needed: replaying the ill-ordered dump above leaves the well-formed stores *)
Example bridge_needs_wf_dump :
  ~ WF cfg_default (fst (bridge_one cfg_default (init cfg_default)
                           (BDump [(0, 0%nat, 1%nat); (1, 0%nat, 2%nat)]))).
Proof.
  intros W. set (st' := fst _) in W.
  assert (H2 : 2 <= 3) by lia.
  assert (Hs : 3 < size st') by (vm_compute; reflexivity).
  destruct (wf_node' st' 3 (wf_n _ _ W) H2 Hs) as (_ & _ & _ & _ & _ & H).
  vm_compute in H. discriminate H.
Qed.

(** a redundant test (lo = hi) is reduced away by [mk_node]; the denotation still agrees *)
Example dump_redundant :
  snd (bridge_one cfg_default (init cfg_default) (BDump [(1, 0%nat, 1%nat); (0, 2%nat, 2%nat)])) = 2.
Proof. vm_compute. reflexivity. Qed.

(** the validator on a compiled ADF: s0 <- s0 & s1, s1 <- top.  Replaying the dumps in the
    store of the natively compiled ADF returns exactly the native roots; a wrong dump does not *)
Definition ex3 : list (nat * formula) := [(0%nat, FAnd (FAtom 0) (FAtom 1)); (1%nat, FTop)].

Definition validate c n fs (dumps : list bio_ac) : option bool :=
  with_adf c n fs (fun st ac =>
    Some (forallb (fun p => fst p =? snd p) (combine (snd (bridge_all c st dumps)) ac)
          && Nat.eqb (length dumps) (length ac))).

Example ex3_validated : validate cfg_default 2 ex3 [dump_and; BTrue] = Some true.
Proof. vm_compute. reflexivity. Qed.
Example ex3_rejected :
  validate cfg_default 2 ex3 [BDump [(1, 0%nat, 1%nat)]; BTrue] = Some false /\
  validate cfg_default 2 ex3 [dump_and; BFalse] = Some false.
Proof. vm_compute. split; reflexivity. Qed.

(** hybrid mode on a <- not b, b <- not a: the dumps of the two conditions, bridged into a fresh
    store, then the native semantics *)
Definition ex1_dumps : list bio_ac := [BDump [(1, 1%nat, 0%nat)]; BDump [(0, 1%nat, 0%nat)]].

Definition hybrid_run {A} (c : cfg) (dumps : list bio_ac) (k : store -> list N -> option A) : option A :=
  let '(st, ts) := from_biodivine_vector c dumps in k st ts.

Example ex1_hybrid_grounded :
  hybrid_run cfg_default ex1_dumps (fun st ts => option_map (fun r => interp_of (snd r)) (grounded cfg_default st ts))
  = Some [U; U].
Proof. vm_compute. reflexivity. Qed.
Example ex1_hybrid_complete :
  hybrid_run cfg_default ex1_dumps (fun st ts => option_map (fun r => map interp_of (snd r)) (complete cfg_default st ts))
  = run_complete cfg_default 2 ex1.
Proof. vm_compute. reflexivity. Qed.
Example ex1_hybrid_stable :
  hybrid_run cfg_default ex1_dumps (fun st ts => option_map (fun r => map interp_of (snd r)) (stable cfg_default st ts))
  = run_stable cfg_default 2 ex1.
Proof. vm_compute. reflexivity. Qed.

(** the dumps of example 1 denote the ADF [exD2] of Spec/Theory.v *)
Example ex1_dumps_den : adf_eq (map bio_ac_den ex1_dumps) exD2.
Proof.
  unfold adf_eq, ex1_dumps, exD2. cbn [map]. constructor; [|constructor; [|constructor]]; intros a; cbn.
  - destruct (a 1); reflexivity.
  - destruct (a 0); reflexivity.
Qed.

(** end to end: the bridged store is a well-formed input denoting [exD2] *)
Example ex1_bridge_ok : forall st ts, from_biodivine_vector cfg_default ex1_dumps = (st, ts) ->
  WF cfg_default st /\ ac_ok st ts /\ adf_eq (abs st ts) exD2.
Proof.
  intros st ts X. unfold from_biodivine_vector in X.
  assert (Hwf : Forall (fun a => wf_dump a = true) ex1_dumps) by (repeat constructor).
  assert (S : Forall (supported (length ex1_dumps)) (map bio_ac_den ex1_dumps)).
  { apply (supported_adf_eq _ _ _ (adf_eq_sym _ _ ex1_dumps_den)). exact exD2_supported. }
  destruct (bridge_all_ac_ok cfg_default ex1_dumps _ st ts (init_wf _) Hwf X S) as (WF' & _ & Hok & EQ).
  split; [exact WF'|]. split; [exact Hok|].
  unfold adf_eq in *. eapply Forall2_compose; [|exact EQ|exact ex1_dumps_den].
  intros f1 f2 f3 H1 H2 a. rewrite H1. apply H2.
Qed.

(** pre-grounding on example 2 (s3 is decided): the vector the biodivine loop ends with, run
    through the native functions, gives the answers of the original ADF *)
Definition run_pregrounded {A} c n fs (k : store -> list N -> option A) : option A :=
  with_adf c n fs (fun st ac =>
    match bio_grounded_internal c st ac with Some (s1, g) => k s1 g | None => None end).

Example ex2_pregrounded_stable :
  run_pregrounded cfg_default 5 ex2 (fun s g => option_map (fun r => map interp_of (snd r)) (stable cfg_default s g))
  = run_stable cfg_default 5 ex2.
Proof. vm_compute. reflexivity. Qed.
Example ex2_pregrounded_complete :
  run_pregrounded cfg_default 5 ex2 (fun s g => option_map (fun r => map interp_of (snd r)) (complete cfg_default s g))
  = run_complete cfg_default 5 ex2.
Proof. vm_compute. reflexivity. Qed.

Print Assumptions bridge_nodes_ok.
Print Assumptions bridge_one_ok.
Print Assumptions bridge_all_ok.
Print Assumptions from_biodivine_vector_ok.
Print Assumptions bridge_all_ac_ok.
Print Assumptions validator_sound.
Print Assumptions validator_complete.
Print Assumptions validator_all_sound.
Print Assumptions answers_determined_grounded.
Print Assumptions answers_determined_complete.
Print Assumptions answers_determined_stable.
Print Assumptions answers_determined_stable_with_prefilter.
Print Assumptions answers_determined_stable_variants.
Print Assumptions answers_determined_bio_native_grounded.
Print Assumptions answers_determined_bio_native_complete.
Print Assumptions answers_determined_bio_native_stable.
Print Assumptions hybrid_stable_from_candidates.
Print Assumptions pregrounded_grounded.
Print Assumptions pregrounded_complete.
Print Assumptions pregrounded_model2.
Print Assumptions Grounded_exists.
Print Assumptions pregrounded_stable.
Print Assumptions bio_grounded_internal_pregrounded.
Print Assumptions hybrid_opt_grounded.
Print Assumptions hybrid_opt_complete.
Print Assumptions hybrid_opt_stable.
Print Assumptions hybrid_opt_stable_with_prefilter.
Print Assumptions ex1_bridge_ok.
