(** Proofs about the model of the command line tool (Front/Cli.v):
    - printing: position i is printed with the i-th name, the line determines the interpretation;
    - malformed input and undeclared statements: exit status 101, no line, in every mode;
    - every mode prints, in the documented order of the sections, exactly the interpretations of
      the definitional semantics of the ADF written in the input file;
    - the three modes agree on grd / com / stm;
    - the flags an arm does not wire do not influence its output. *)
From Coq Require Import NArith List Bool Lia Arith Permutation.
From ADF Require Import Base.Maps Spec.Spec Spec.Theory Gen.GenFlags Bdd.Store Bdd.WF Bdd.Node Bdd.Restrict
  Bdd.Ops Adf.Iter Adf.IterProofs Adf.Native Adf.NoGood Adf.Search Adf.Bio
  Adf.NativeBase Adf.GroundedProofs Adf.CompleteProofs Adf.StableProofs Adf.NativeExamples
  Adf.CountSearchProofs Adf.NgSearchProofs Adf.BioProofs Adf.BridgeProofs
  Gen.TieFlagCount Gen.TieFlagRand Gen.TieFlagExhaust Front.Parser Front.ParserProofs Front.Presentation Front.Cli.
Import ListNotations.
Local Open Scope N_scope.

(* ------------------------------------------------------------------ *)
(** * Printing *)

(** the tag byte of a handle: T / F / u *)
Definition tagb (h : N) : N := if is_tv h then (if is_true h then 84 else 70) else 117.
Definition tag_tv (t : tv) : N := match t with T => 84 | F => 70 | U => 117 end.

Lemma tagb_info h : tagb h = tag_tv (info h).
Proof.
  unfold tagb. destruct (handle_cases h) as [-> | [-> | [H0 H1]]].
  - reflexivity.
  - reflexivity.
  - rewrite is_tv_undec, info_undec by assumption. reflexivity.
Qed.

Lemma tag_tv_inj x y : tag_tv x = tag_tv y -> x = y.
Proof. destruct x, y; cbn; intros H; try reflexivity; discriminate H. Qed.

(** position i is printed with the i-th name *)
Lemma print_interp_spec names v :
  print_interp names v =
  concat (map (fun p => [tagb (snd p)] ++ [40] ++ fst p ++ [41; 32]) (combine names v)) ++ [10].
Proof.
  unfold print_interp. f_equal. f_equal. apply map_ext. intros [n h]. cbn [fst snd]. unfold tagb.
  destruct (is_tv h); [destruct (is_true h)|]; reflexivity.
Qed.

(** the same line, as a function of the three-valued interpretation *)
Definition print_tv (names : list str) (i : interp) : str :=
  concat (map (fun p => tag_tv (snd p) :: 40 :: fst p ++ [41; 32]) (combine names i)) ++ [10].

Lemma print_interp_tv names v : print_interp names v = print_tv names (interp_of v).
Proof.
  rewrite print_interp_spec. unfold print_tv. f_equal. f_equal. unfold interp_of.
  revert v. induction names as [|n names IH]; intros [|h v]; cbn [combine map]; try reflexivity.
  rewrite tagb_info, IH. reflexivity.
Qed.

Lemma print_tv_cons n names x i :
  print_tv (n :: names) (x :: i) = tag_tv x :: 40 :: (n ++ [41; 32]) ++ print_tv names i.
Proof. unfold print_tv. cbn [combine map concat fst snd]. cbn [app]. rewrite <- app_assoc. reflexivity. Qed.

Lemma print_tv_inj : forall names i j, length i = length names -> length j = length names ->
  print_tv names i = print_tv names j -> i = j.
Proof.
  induction names as [|n names IH]; intros [|x i] [|y j] Li Lj E; try discriminate Li; try discriminate Lj.
  - reflexivity.
  - rewrite !print_tv_cons in E. injection E as Et Er. apply app_inv_head in Er.
    f_equal; [apply tag_tv_inj; exact Et|].
    cbn [length] in Li, Lj. apply IH; [lia|lia|exact Er].
Qed.

(** the line only depends on the interpretation ... *)
Lemma print_interp_same_interp names v w :
  interp_of v = interp_of w -> print_interp names v = print_interp names w.
Proof. intros E. rewrite !print_interp_tv, E. reflexivity. Qed.

(** ... and determines it (no hypothesis on the names: the chunks of the two lines have the same
    lengths because the names are the same) *)
Lemma print_interp_inj names v w : length v = length names -> length w = length names ->
  print_interp names v = print_interp names w -> interp_of v = interp_of w.
Proof.
  intros Lv Lw E. rewrite !print_interp_tv in E.
  apply (print_tv_inj names); [rewrite interp_of_length; exact Lv|rewrite interp_of_length; exact Lw|exact E].
Qed.

Lemma print_lines_tv names l : map (print_interp names) l = map (print_tv names) (map interp_of l).
Proof. rewrite map_map. apply map_ext. intros v. apply print_interp_tv. Qed.

(** distinct interpretations are printed as distinct lines *)
Lemma print_lines_NoDup names l : Forall (fun v => length v = length names) l ->
  NoDup (map interp_of l) -> NoDup (map (print_interp names) l).
Proof.
  intros HL. induction l as [|v l IH]; cbn [map]; intros ND; [constructor|].
  inversion HL as [|? ? Lv Ll]; subst. inversion ND as [|? ? Hn ND']; subst.
  constructor; [|apply IH; assumption].
  intros Hin. apply Hn. apply in_map_iff in Hin. destruct Hin as (w & Ew & Hw).
  apply in_map_iff. exists w. split; [|exact Hw].
  rewrite Forall_forall in Ll. apply (print_interp_inj names w v (Ll w Hw) Lv Ew).
Qed.

(* ------------------------------------------------------------------ *)
(** * Malformed input, undeclared statements *)

Definition sorted_state (sm : sortmode) (ps0 : pstate) : pstate :=
  match sm with SLexi => varsort_lexi ps0 | SNone => ps0 end.

Theorem cli_malformed c m sm fl h text :
  snd (parse text) = false -> cli_run c m sm fl h text = Some (101, []).
Proof.
  intros H. unfold cli_run. destruct (parse text) as [ps0 ok]. cbn [snd] in H. subst ok. reflexivity.
Qed.

Theorem cli_undeclared c m sm fl h text ps0 :
  parse text = (ps0, true) ->
  resolve_acs (names (sorted_state sm ps0)) (acs (sorted_state sm ps0)) = None ->
  cli_run c m sm fl h text = Some (101, []).
Proof.
  intros P R. unfold cli_run. rewrite P. cbn [negb]. fold (sorted_state sm ps0). rewrite R. reflexivity.
Qed.

(** the run of a well-formed document with declared statements is the run of the selected arm *)
Lemma cli_run_ok c m sm fl h text ps0 fs :
  parse text = (ps0, true) ->
  resolve_acs (names (sorted_state sm ps0)) (acs (sorted_state sm ps0)) = Some fs ->
  cli_run c m sm fl h text =
  obind (from_parser c (length (names (sorted_state sm ps0))) fs) (fun '(st, ac) =>
    obind (match m with
           | MHybrid => run_hybrid c (names (sorted_state sm ps0)) st ac fl h
           | MBio => run_bio c (names (sorted_state sm ps0)) st ac fl
           | MNaive => run_naive c (names (sorted_state sm ps0)) st ac fl h
           end) (fun secs => Some (0, secs))).
Proof.
  intros P R. unfold cli_run. rewrite P. cbn [negb]. fold (sorted_state sm ps0). rewrite R. reflexivity.
Qed.

(* ------------------------------------------------------------------ *)
(** * [from_parser] never fails on resolved formulas *)

Lemma term_total c f : atoms_lt VBOT f -> forall st, WF c st -> exists st' r, term c st f = Some (st', r).
Proof.
  assert (Bin : forall (op : cfg -> store -> N -> N -> option (store * N)) g h,
    (forall st a b, WF c st -> a < size st -> b < size st -> exists st' r, op c st a b = Some (st', r)) ->
    atoms_lt VBOT g -> atoms_lt VBOT h ->
    (forall st, WF c st -> exists st' r, term c st g = Some (st', r)) ->
    (forall st, WF c st -> exists st' r, term c st h = Some (st', r)) ->
    forall st, WF c st ->
      exists st' r, (do (s1, t1) <- term c st g; do (s2, t2) <- term c s1 h; op c s2 t1 t2) = Some (st', r)).
  { intros op g h Hop Ag Ah Tg Th st WFst.
    destruct (Tg st WFst) as (s1 & t1 & X1). rewrite X1. cbn [obind].
    destruct (term_ok c g Ag st s1 t1 WFst X1) as (WF1 & E1 & Ht1 & _).
    destruct (Th s1 WF1) as (s2 & t2 & X2). rewrite X2. cbn [obind].
    destruct (term_ok c h Ah s1 s2 t2 WF1 X2) as (WF2 & E2 & Ht2 & _).
    apply Hop; [exact WF2|apply (extends_lt s1 s2 t1 E2 Ht1)|exact Ht2]. }
  induction f; cbn [atoms_lt]; intros A st WFst; cbn [term]; eauto.
  - destruct (variable c st x) as [s r]. eauto.
  - destruct (IHf A st WFst) as (s1 & t1 & X1). rewrite X1. cbn [obind].
    destruct (term_ok c f A st s1 t1 WFst X1) as (WF1 & _ & Ht1 & _).
    apply bnot_total; assumption.
  - destruct A as [A1 A2]. apply (Bin band f1 f2 (band_total c) A1 A2 (IHf1 A1) (IHf2 A2) st WFst).
  - destruct A as [A1 A2]. apply (Bin bor f1 f2 (bor_total c) A1 A2 (IHf1 A1) (IHf2 A2) st WFst).
  - destruct A as [A1 A2]. apply (Bin bimp f1 f2 (bimp_total c) A1 A2 (IHf1 A1) (IHf2 A2) st WFst).
  - destruct A as [A1 A2]. apply (Bin bxor f1 f2 (bxor_total c) A1 A2 (IHf1 A1) (IHf2 A2) st WFst).
  - destruct A as [A1 A2]. apply (Bin biff f1 f2 (biff_total c) A1 A2 (IHf1 A1) (IHf2 A2) st WFst).
Qed.

Lemma compile_acs_total c n : N.of_nat n <= VBOT ->
  forall fs st ac, WF c st -> Forall (fun pf => atoms_lt (N.of_nat n) (snd pf)) fs ->
  exists st' ac', compile_acs c st ac fs = Some (st', ac').
Proof.
  intros B. induction fs as [|[pos f] fs IH]; intros st ac WFst HA; cbn [compile_acs]; [eauto|].
  inversion HA as [|? ? Af HA']; subst. cbn [snd] in Af.
  pose proof (atoms_lt_mono _ _ f B Af) as Af'.
  destruct (term_total c f Af' st WFst) as (s1 & t & X1). rewrite X1. cbn [obind].
  destruct (term_ok c f Af' st s1 t WFst X1) as (WF1 & _). apply IH; assumption.
Qed.

Theorem from_parser_total c n fs : N.of_nat n <= VBOT ->
  Forall (fun pf => atoms_lt (N.of_nat n) (snd pf)) fs ->
  exists st ac, from_parser c n fs = Some (st, ac).
Proof.
  intros B HA. unfold from_parser. apply (compile_acs_total c n B); [|exact HA].
  apply (mk_vars_ok c n (init c) 0 (init_wf c)). lia.
Qed.

Lemma resolved_atoms nm acs fs : resolve_acs nm acs = Some fs ->
  Forall (fun pf => atoms_lt (N.of_nat (length nm)) (snd pf)) fs.
Proof.
  intros R. eapply Forall_impl; [|apply (resolve_acs_ok nm acs fs R)]. intros pf [_ H]. exact H.
Qed.

(* ------------------------------------------------------------------ *)
(** * The invariant threaded through an arm: a well-formed store whose roots denote [D] *)

Definition ctx (c : cfg) (D : adf) (st : store) (ac : list N) : Prop :=
  WF c st /\ ac_ok st ac /\ adf_eq (abs st ac) D.

Lemma adf_eq_trans D1 D2 D3 : adf_eq D1 D2 -> adf_eq D2 D3 -> adf_eq D1 D3.
Proof.
  unfold adf_eq. apply Forall2_compose. intros f1 f2 f3 H1 H2 a. rewrite H1. apply H2.
Qed.

Lemma ctx_ext c D st st' ac : ctx c D st ac -> WF c st' -> extends st st' -> ctx c D st' ac.
Proof.
  intros (W & O & EQ) W' E. split; [exact W'|]. split; [apply (ac_ok_extends c st st' ac W E O)|].
  eapply adf_eq_trans; [|exact EQ]. apply adf_eq_sym. apply (abs_extends c st st' ac W E (proj1 O)).
Qed.

Lemma ctx_length c D st ac : ctx c D st ac -> length D = length ac.
Proof. intros (_ & _ & EQ). rewrite <- (adf_eq_length _ _ EQ). apply abs_length. Qed.

Lemma ctx_supported c D st ac : ctx c D st ac -> Forall (supported (length D)) D.
Proof.
  intros C. pose proof (ctx_length c D st ac C) as L. destruct C as (_ & [_ S] & EQ).
  rewrite L. apply (supported_adf_eq _ _ _ EQ S).
Qed.

(** what a section's list of interpretations has to satisfy *)
Definition grd_ok (D : adf) (n : nat) (g : list N) : Prop :=
  length g = n /\ Grounded D (interp_of g).
Definition com_ok (D : adf) (n : nat) (l : list (list N)) : Prop :=
  Forall (fun v => length v = n) l /\ NoDup (map interp_of l) /\
  (forall v, In v (map interp_of l) <-> Complete D v) /\
  (exists g, Grounded D g /\ hd_error (map interp_of l) = Some g).
Definition stm_ok (D : adf) (n : nat) (l : list (list N)) : Prop :=
  Forall (fun v => length v = n) l /\ NoDup (map interp_of l) /\
  (forall v, In v (map interp_of l) <-> Stable D v).

Definition two_ok (D : adf) (n : nat) (l : list (list N)) : Prop :=
  Forall (fun v => length v = n) l /\ NoDup (map interp_of l) /\
  (forall v, In v (map interp_of l) <-> Model2 D v).

(** ** the lists returned by the enumerations consist of vectors of the right length *)

Lemma filter_st_incl {A} (p : store -> A -> option (store * bool)) : forall l st st' r,
  filter_st p st l = Some (st', r) -> incl r l.
Proof.
  induction l as [|x l IH]; intros st st' r X; cbn [filter_st] in X.
  - inversion X. intros y [].
  - apply obind_inv in X. destruct X as ([s1 b] & _ & X).
    apply obind_inv in X. destruct X as ([s2 r'] & X2 & X). inversion X; subst s2 r. clear X.
    pose proof (IH s1 st' r' X2) as I. destruct b; intros y Hy.
    + destruct Hy as [->|Hy]; [left; reflexivity|right; apply I, Hy].
    + right. apply I, Hy.
Qed.

Lemma it3_collect_lengths g : Forall (fun v => length v = length g) (it3_collect g).
Proof.
  destruct (three_val_iter_exact g) as (_ & _ & Hin & _). cbv zeta in Hin.
  apply Forall_forall. intros w Hw. apply Hin in Hw. symmetry. apply (Forall2_len _ _ _ Hw).
Qed.

Lemma it2_collect_lengths g : Forall (fun v => length v = length g) (it2_collect g).
Proof.
  destruct (two_val_iter_exact g) as (_ & _ & Hin & _). cbv zeta in Hin.
  apply Forall_forall. intros w Hw. apply Hin in Hw. apply (completion2_length g w Hw).
Qed.

Lemma Forall_incl {A} (P : A -> Prop) l r : incl r l -> Forall P l -> Forall P r.
Proof. intros I H. rewrite Forall_forall in *. intros x Hx. apply H, I, Hx. Qed.

Lemma complete_lengths c st ac st' l : WF c st -> ac_ok st ac -> complete c st ac = Some (st', l) ->
  Forall (fun v => length v = length ac) l.
Proof.
  intros W O X. unfold complete in X. apply obind_inv in X. destruct X as ([s1 g] & X1 & X).
  destruct (grounded_exact c st ac s1 g W O X1) as (_ & _ & Lg & _).
  rewrite <- Lg. apply (Forall_incl _ _ _ (filter_st_incl _ _ _ _ _ X)). apply it3_collect_lengths.
Qed.

Lemma stable_lengths c st ac st' l : WF c st -> ac_ok st ac -> stable c st ac = Some (st', l) ->
  Forall (fun v => length v = length ac) l.
Proof.
  intros W O X. unfold stable in X. apply obind_inv in X. destruct X as ([s1 g] & X1 & X).
  destruct (grounded_exact c st ac s1 g W O X1) as (_ & _ & Lg & _).
  rewrite <- Lg. apply (Forall_incl _ _ _ (filter_st_incl _ _ _ _ _ X)). apply it2_collect_lengths.
Qed.

Lemma stable_with_prefilter_lengths c st ac st' l : WF c st -> ac_ok st ac ->
  stable_with_prefilter c st ac = Some (st', l) -> Forall (fun v => length v = length ac) l.
Proof.
  intros W O X. unfold stable_with_prefilter in X. apply obind_inv in X. destruct X as ([s1 g] & X1 & X).
  destruct (grounded_exact c st ac s1 g W O X1) as (_ & _ & Lg & _).
  rewrite <- Lg. apply (Forall_incl _ _ _ (filter_st_incl _ _ _ _ _ X)). apply it2_collect_lengths.
Qed.

Lemma bio_complete_lengths c st ac st' l : WF c st -> ac_ok st ac -> bio_complete c st ac = Some (st', l) ->
  Forall (fun v => length v = length ac) l.
Proof.
  intros W O X. rewrite bio_complete_unfold in X. apply obind_inv in X. destruct X as ([s1 g] & X1 & X).
  cbn [fst snd] in X.
  destruct (grounded_internal_exact c st ac s1 g W (proj1 O) X1) as (_ & _ & Lg & _).
  rewrite <- Lg, <- (map_length bio_term g).
  apply (Forall_incl _ _ _ (filter_st_incl _ _ _ _ _ X)). apply it3_collect_lengths.
Qed.

Lemma bio_stable_lengths c st ac st' l : WF c st -> ac_ok st ac -> bio_stable c st ac = Some (st', l) ->
  Forall (fun v => length v = length ac) l.
Proof.
  intros W O X. rewrite bio_stable_unfold in X. apply obind_inv in X. destruct X as ([s1 g] & X1 & X).
  cbn [fst snd] in X.
  destruct (grounded_internal_exact c st ac s1 g W (proj1 O) X1) as (_ & _ & Lg & _).
  rewrite <- Lg, <- (map_length bio_term g).
  apply (Forall_incl _ _ _ (filter_st_incl _ _ _ _ _ X)). apply it2_collect_lengths.
Qed.

Lemma bio_stable_rew_lengths c st ac st' l : WF c st -> ac_ok st ac -> N.of_nat (length ac) <= VBOT ->
  bio_stable_rew c st ac = Some (st', l) -> Forall (fun v => length v = length ac) l.
Proof.
  intros W O B X. rewrite bio_stable_rew_unfold in X. apply obind_inv in X. destruct X as ([s1 cands] & X1 & X).
  cbn [fst snd] in X.
  destruct (stable_candidates_exact c st ac s1 cands W O B X1) as (_ & _ & _ & HQ & _).
  unfold stable_from_candidates in X.
  apply (Forall_incl _ _ _ (filter_st_incl _ _ _ _ _ X)).
  eapply Forall_impl; [|exact HQ]. intros v [H _]. exact H.
Qed.

(** ** the semantics functions under [ctx]: total, invariant-preserving, definitional answers *)

Section Ctx.
Variables (c : cfg) (D : adf) (ac : list N).

Lemma grounded_ctx st : ctx c D st ac ->
  exists s g, grounded c st ac = Some (s, g) /\ ctx c D s ac /\ grd_ok D (length ac) g.
Proof.
  intros C. pose proof C as (W & O & EQ). destruct (grounded_total c st ac W O) as (s & g & X).
  exists s, g. split; [exact X|].
  destruct (grounded_exact c st ac s g W O X) as (W' & E & L & _ & G & _).
  split; [apply (ctx_ext c D st s ac C W' E)|]. split; [exact L|]. apply (Grounded_feq _ _ _ EQ G).
Qed.

Lemma complete_ctx st : ctx c D st ac ->
  exists s l, complete c st ac = Some (s, l) /\ ctx c D s ac /\ com_ok D (length ac) l.
Proof.
  intros C. pose proof C as (W & O & EQ). destruct (complete_total c st ac W O) as (s & l & X).
  exists s, l. split; [exact X|].
  destruct (complete_exact c st ac s l W O X) as (W' & E & ND & Hin & g & G & Hd).
  split; [apply (ctx_ext c D st s ac C W' E)|].
  split; [apply (complete_lengths c st ac s l W O X)|]. split; [exact ND|]. split.
  - intros v. rewrite Hin. apply (Complete_adf_eq _ _ v EQ).
  - exists g. split; [apply (Grounded_feq _ _ _ EQ G)|exact Hd].
Qed.

Lemma stable_ctx st : ctx c D st ac ->
  exists s l, stable c st ac = Some (s, l) /\ ctx c D s ac /\ stm_ok D (length ac) l.
Proof.
  intros C. pose proof C as (W & O & EQ). destruct (stable_total c st ac W O) as (s & l & X).
  exists s, l. split; [exact X|].
  destruct (stable_exact c st ac s l W O X) as (W' & E & ND & Hin).
  split; [apply (ctx_ext c D st s ac C W' E)|].
  split; [apply (stable_lengths c st ac s l W O X)|]. split; [exact ND|].
  intros v. rewrite Hin. apply (Stable_adf_eq _ _ v EQ).
Qed.

Lemma bio_grounded_ctx st : ctx c D st ac ->
  exists s g, bio_grounded c st ac = Some (s, g) /\ ctx c D s ac /\ grd_ok D (length ac) g.
Proof.
  intros C. pose proof C as (W & O & EQ). destruct (bio_grounded_total c st ac W O) as (s & g & X).
  exists s, g. split; [exact X|].
  destruct (bio_grounded_exact c st ac s g W O X) as (W' & E & L & G).
  split; [apply (ctx_ext c D st s ac C W' E)|]. split; [exact L|]. apply (Grounded_feq _ _ _ EQ G).
Qed.

Lemma bio_complete_ctx st : ctx c D st ac ->
  exists s l, bio_complete c st ac = Some (s, l) /\ ctx c D s ac /\ com_ok D (length ac) l.
Proof.
  intros C. pose proof C as (W & O & EQ). destruct (bio_complete_total c st ac W O) as (s & l & X).
  exists s, l. split; [exact X|].
  destruct (bio_complete_exact c st ac s l W O X) as (W' & E & ND & Hin & g & G & Hd).
  split; [apply (ctx_ext c D st s ac C W' E)|].
  split; [apply (bio_complete_lengths c st ac s l W O X)|]. split; [exact ND|]. split.
  - intros v. rewrite Hin. apply (Complete_adf_eq _ _ v EQ).
  - exists g. split; [apply (Grounded_feq _ _ _ EQ G)|exact Hd].
Qed.

Lemma bio_stable_ctx st : ctx c D st ac ->
  exists s l, bio_stable c st ac = Some (s, l) /\ ctx c D s ac /\ stm_ok D (length ac) l.
Proof.
  intros C. pose proof C as (W & O & EQ). destruct (bio_stable_total c st ac W O) as (s & l & X).
  exists s, l. split; [exact X|].
  destruct (bio_stable_exact c st ac s l W O X) as (W' & E & ND & Hin).
  split; [apply (ctx_ext c D st s ac C W' E)|].
  split; [apply (bio_stable_lengths c st ac s l W O X)|]. split; [exact ND|].
  intros v. rewrite Hin. apply (Stable_adf_eq _ _ v EQ).
Qed.

Lemma bio_stable_rew_ctx st : N.of_nat (length ac) <= VBOT -> ctx c D st ac ->
  exists s l, bio_stable_rew c st ac = Some (s, l) /\ ctx c D s ac /\ stm_ok D (length ac) l.
Proof.
  intros B C. pose proof C as (W & O & EQ). destruct (bio_stable_rew_total c st ac W O B) as (s & l & X).
  exists s, l. split; [exact X|].
  destruct (bio_stable_rew_exact c st ac s l W O B X) as (W' & E & _ & ND & Hin).
  split; [apply (ctx_ext c D st s ac C W' E)|].
  split; [apply (bio_stable_rew_lengths c st ac s l W O B X)|]. split; [exact ND|].
  intros v. rewrite Hin. apply (Stable_adf_eq _ _ v EQ).
Qed.

(** the nogood search, for every built-in heuristic, when it returns *)
Lemma ng_ctx h two bud dr st s l x : ctx c D st ac ->
  nogood_search_cur c ac h two bud st dr = Some (s, l, x) ->
  ctx c D s ac /\ (if two then two_ok D (length ac) l else stm_ok D (length ac) l).
Proof.
  intros C X. pose proof C as (W & O & EQ). unfold nogood_search_cur in X.
  assert (ADM : admissible c h g_rand_filtered).
  { apply builtin_admissible. intros _. apply rand_proposes_undecided. }
  destruct (ng_sound c ac h _ two _ bud st dr s l x W O X) as (W' & E & Hs).
  destruct (ng_exact c ac h _ two _ bud st dr s l x ADM W O X) as (ND & Hin).
  split; [apply (ctx_ext c D st s ac C W' E)|].
  assert (HL : Forall (fun v => length v = length ac) l).
  { apply Forall_forall. intros v Hv. apply (Hs v Hv). }
  destruct two; (split; [exact HL|]; split; [exact ND|]); intros v; rewrite (Hin v).
  - apply (Model2_adf_eq _ _ v EQ).
  - apply (Stable_adf_eq _ _ v EQ).
Qed.

End Ctx.

(* ------------------------------------------------------------------ *)
(** * Sections *)

Definition sec_flag (s : section) : str := match s with Sec f _ _ => f end.
Definition sec_ordered (s : section) : bool := match s with Sec _ o _ => o end.
Definition sec_lines (s : section) : list str := match s with Sec _ _ l => l end.

(** the output of one flag: nothing if the flag is off, else one section with that name *)
Definition sec_if (b : bool) (flag : str) (ord : bool) (P : list str -> Prop) (o : list section) : Prop :=
  if b then exists lines, o = [Sec flag ord lines] /\ P lines else o = [].

Definition grd_lines (D : adf) (nm : list str) (lines : list str) : Prop :=
  exists g, lines = [print_interp nm g] /\ grd_ok D (length nm) g.
Definition com_lines (D : adf) (nm : list str) (lines : list str) : Prop :=
  exists l, lines = map (print_interp nm) l /\ com_ok D (length nm) l.
Definition stm_lines (D : adf) (nm : list str) (lines : list str) : Prop :=
  exists l, lines = map (print_interp nm) l /\ stm_ok D (length nm) l.
Definition two_lines (D : adf) (nm : list str) (lines : list str) : Prop :=
  exists l, lines = map (print_interp nm) l /\ two_ok D (length nm) l.

Lemma sec_if_flags b flag ord P o : sec_if b flag ord P o -> map sec_flag o = if b then [flag] else [].
Proof. unfold sec_if. destruct b; [intros (lines & -> & _)|intros ->]; reflexivity. Qed.

(** consequences for the printed lines *)
Lemma com_lines_NoDup D nm lines : com_lines D nm lines -> NoDup lines.
Proof. intros (l & -> & HL & ND & _). apply print_lines_NoDup; assumption. Qed.
Lemma stm_lines_NoDup D nm lines : stm_lines D nm lines -> NoDup lines.
Proof. intros (l & -> & HL & ND & _). apply print_lines_NoDup; assumption. Qed.

Lemma two_lines_NoDup D nm lines : two_lines D nm lines -> NoDup lines.
Proof. intros (l & -> & HL & ND & _). apply print_lines_NoDup; assumption. Qed.

Lemma grd_lines_tv D nm lines : grd_lines D nm lines ->
  exists g, Grounded D g /\ length g = length nm /\ lines = [print_tv nm g].
Proof.
  intros (g & -> & L & G). exists (interp_of g). split; [exact G|].
  split; [rewrite interp_of_length; exact L|]. rewrite print_interp_tv. reflexivity.
Qed.
Lemma com_lines_tv D nm lines : com_lines D nm lines ->
  forall line, In line lines <-> exists v, Complete D v /\ line = print_tv nm v.
Proof.
  intros (l & -> & _ & _ & Hin & _) line. rewrite print_lines_tv, in_map_iff. split.
  - intros (v & <- & Hv). exists v. split; [apply Hin, Hv|reflexivity].
  - intros (v & Cv & ->). exists v. split; [reflexivity|apply Hin, Cv].
Qed.
Lemma stm_lines_tv D nm lines : stm_lines D nm lines ->
  forall line, In line lines <-> exists v, Stable D v /\ line = print_tv nm v.
Proof.
  intros (l & -> & _ & _ & Hin) line. rewrite print_lines_tv, in_map_iff. split.
  - intros (v & <- & Hv). exists v. split; [apply Hin, Hv|reflexivity].
  - intros (v & Cv & ->). exists v. split; [reflexivity|apply Hin, Cv].
Qed.

Lemma two_lines_tv D nm lines : two_lines D nm lines ->
  forall line, In line lines <-> exists v, Model2 D v /\ line = print_tv nm v.
Proof.
  intros (l & -> & _ & _ & Hin) line. rewrite print_lines_tv, in_map_iff. split.
  - intros (v & <- & Hv). exists v. split; [apply Hin, Hv|reflexivity].
  - intros (v & Cv & ->). exists v. split; [reflexivity|apply Hin, Cv].
Qed.

(** one step of an arm: "if the flag is set, call the function and print a section" *)
Definition step {A} (b : bool) (f : store -> option (store * A)) (mk : A -> list section) (st : store)
  : option (store * list section) :=
  if b then obind (f st) (fun '(s, a) => Some (s, mk a)) else Some (st, []).
Definition step3 {A B} (b : bool) (f : store -> option (store * A * B)) (mk : A -> list section) (st : store)
  : option (store * list section) :=
  if b then obind (f st) (fun '(s, a, _) => Some (s, mk a)) else Some (st, []).

Lemma step_total {A} (I : store -> Prop) (Q : A -> Prop) f mk b st :
  (forall st, I st -> exists s a, f st = Some (s, a) /\ I s /\ Q a) -> I st ->
  exists s o, step b f mk st = Some (s, o) /\ I s /\ (if b then exists a, o = mk a /\ Q a else o = []).
Proof.
  intros Hf HI. unfold step. destruct b.
  - destruct (Hf st HI) as (s & a & X & Is & Qa). rewrite X. cbn [obind]. exists s, (mk a). eauto.
  - exists st, []. auto.
Qed.

Lemma step3_inv {A B} b (f : store -> option (store * A * B)) mk st s o :
  step3 b f mk st = Some (s, o) ->
  if b then exists a x, f st = Some (s, a, x) /\ o = mk a else s = st /\ o = [].
Proof.
  unfold step3. destruct b.
  - intros X. apply obind_inv in X. destruct X as ([[s' a] x] & X1 & X). inversion X; subst. eauto.
  - intros X. inversion X. auto.
Qed.

Lemma step3_none {A B} b (f : store -> option (store * A * B)) mk st :
  step3 b f mk st = None -> b = true.
Proof. unfold step3. destruct b; [reflexivity|discriminate]. Qed.

(* ------------------------------------------------------------------ *)
(** * Steps that print a grd / com / stm-like section, for an arbitrary store invariant *)

Section StepSpecs.
Variables (D : adf) (nm : list str) (n : nat) (I : store -> Prop).
Hypothesis Ln : n = length nm.
Local Notation pr := (map (print_interp nm)).

Lemma grd_step_spec b (f : store -> option (store * list N)) st :
  (forall st, I st -> exists s g, f st = Some (s, g) /\ I s /\ grd_ok D n g) -> I st ->
  exists s o, step b f (fun g => [Sec S_GRD true (pr [g])]) st = Some (s, o) /\ I s /\
    sec_if b S_GRD true (grd_lines D nm) o.
Proof.
  intros Hf HI.
  destruct (step_total I (grd_ok D n) f (fun g => [Sec S_GRD true (pr [g])]) b st Hf HI) as (s & o & X & Is & Ho).
  exists s, o. split; [exact X|]. split; [exact Is|]. unfold sec_if. destruct b; [|exact Ho].
  destruct Ho as (g & -> & Hg). exists (pr [g]). split; [reflexivity|]. exists g. split; [reflexivity|].
  rewrite <- Ln. exact Hg.
Qed.

Lemma com_step_spec b (f : store -> option (store * list (list N))) st :
  (forall st, I st -> exists s l, f st = Some (s, l) /\ I s /\ com_ok D n l) -> I st ->
  exists s o, step b f (fun l => [Sec S_COM true (pr l)]) st = Some (s, o) /\ I s /\
    sec_if b S_COM true (com_lines D nm) o.
Proof.
  intros Hf HI.
  destruct (step_total I (com_ok D n) f (fun l => [Sec S_COM true (pr l)]) b st Hf HI) as (s & o & X & Is & Ho).
  exists s, o. split; [exact X|]. split; [exact Is|]. unfold sec_if. destruct b; [|exact Ho].
  destruct Ho as (l & -> & Hl). exists (pr l). split; [reflexivity|]. exists l. split; [reflexivity|].
  rewrite <- Ln. exact Hl.
Qed.

Lemma stm_step_spec flag ord b (f : store -> option (store * list (list N))) st :
  (forall st, I st -> exists s l, f st = Some (s, l) /\ I s /\ stm_ok D n l) -> I st ->
  exists s o, step b f (fun l => [Sec flag ord (pr l)]) st = Some (s, o) /\ I s /\
    sec_if b flag ord (stm_lines D nm) o.
Proof.
  intros Hf HI.
  destruct (step_total I (stm_ok D n) f (fun l => [Sec flag ord (pr l)]) b st Hf HI) as (s & o & X & Is & Ho).
  exists s, o. split; [exact X|]. split; [exact Is|]. unfold sec_if. destruct b; [|exact Ho].
  destruct Ho as (l & -> & Hl). exists (pr l). split; [reflexivity|]. exists l. split; [reflexivity|].
  rewrite <- Ln. exact Hl.
Qed.

(** steps whose function is not known to be total (the nogood search has a step budget): if they
    return, the section is in place and has the stated content *)
Lemma step3_part {B} (Q : list (list N) -> Prop) flag b (f : store -> option (store * list (list N) * B)) st s o :
  (forall st s a x, I st -> f st = Some (s, a, x) -> I s /\ Q a) -> I st ->
  step3 b f (fun l => [Sec flag true (pr l)]) st = Some (s, o) ->
  I s /\ sec_if b flag true (fun lines => exists l, lines = pr l /\ Q l) o.
Proof.
  intros Hs HI X. apply step3_inv in X. unfold sec_if. destruct b.
  - destruct X as (a & x & X & ->). destruct (Hs st s a x HI X) as [Is Qa]. split; [exact Is|].
    exists (pr a). split; [reflexivity|]. exists a. auto.
  - destruct X as [-> ->]. auto.
Qed.

End StepSpecs.

(* ------------------------------------------------------------------ *)
(** * The naive arm *)

Section Arms.
Variables (c : cfg) (D : adf) (nm : list str) (ac : list N).
Hypothesis Lac : length ac = length nm.

Local Notation pr := (map (print_interp nm)).
Let I := fun s => ctx c D s ac.

Definition ng_step (fl : flags) (h : heuristic) : store -> option (store * list section) :=
  step3 (f_stmng fl) (fun s => nogood_search_cur c ac h false budget s [])
        (fun l => [Sec S_STMNG true (pr l)]).

Lemma run_naive_steps st fl h : run_naive c nm st ac fl h =
  do (s1, o1) <- step (f_grd fl) (fun s => grounded c s ac) (fun g => [Sec S_GRD true (pr [g])]) st;
  do (s2, o2) <- step (f_com fl) (fun s => complete c s ac) (fun l => [Sec S_COM true (pr l)]) s1;
  do (s3, o3) <- step (f_stm fl) (fun s => stable c s ac) (fun l => [Sec S_STM true (pr l)]) s2;
  do (s4, o4) <- ng_step fl h s3;
  Some (o1 ++ o2 ++ o3 ++ o4).
Proof. reflexivity. Qed.

Lemma run_naive_spec st fl h : ctx c D st ac ->
  exists s3 o1 o2 o3, ctx c D s3 ac /\
    sec_if (f_grd fl) S_GRD true (grd_lines D nm) o1 /\
    sec_if (f_com fl) S_COM true (com_lines D nm) o2 /\
    sec_if (f_stm fl) S_STM true (stm_lines D nm) o3 /\
    run_naive c nm st ac fl h = (do (s4, o4) <- ng_step fl h s3; Some (o1 ++ o2 ++ o3 ++ o4)).
Proof.
  intros C. rewrite run_naive_steps.
  destruct (grd_step_spec D nm (length ac) I Lac (f_grd fl) (fun s => grounded c s ac) st (grounded_ctx c D ac) C) as (s1 & o1 & X1 & C1 & P1).
  rewrite X1. cbn [obind].
  destruct (com_step_spec D nm (length ac) I Lac (f_com fl) (fun s => complete c s ac) s1 (complete_ctx c D ac) C1) as (s2 & o2 & X2 & C2 & P2).
  rewrite X2. cbn [obind].
  destruct (stm_step_spec D nm (length ac) I Lac S_STM true (f_stm fl) (fun s => stable c s ac) s2 (stable_ctx c D ac) C2) as (s3 & o3 & X3 & C3 & P3).
  rewrite X3. cbn [obind].
  exists s3, o1, o2, o3. auto.
Qed.

Lemma ng_step_spec fl h s3 s4 o4 : ctx c D s3 ac -> ng_step fl h s3 = Some (s4, o4) ->
  sec_if (f_stmng fl) S_STMNG true (stm_lines D nm) o4.
Proof.
  intros C X. unfold ng_step in X.
  refine (proj2 (step3_part nm I (stm_ok D (length nm)) S_STMNG (f_stmng fl) _ s3 s4 o4 _ C X)).
  intros st s a x Cs Xs. rewrite <- Lac. apply (ng_ctx c D ac h false budget [] st s a x Cs Xs).
Qed.

(** * The biodivine arm *)

Lemma run_bio_steps st fl : run_bio c nm st ac fl =
  do (s1, o1) <- step (f_grd fl) (fun s => bio_grounded c s ac) (fun g => [Sec S_GRD true (pr [g])]) st;
  do (s2, o2) <- step (f_com fl) (fun s => bio_complete c s ac) (fun l => [Sec S_COM true (pr l)]) s1;
  do (s3, o3) <- step (f_stm fl) (fun s => bio_stable c s ac) (fun l => [Sec S_STM true (pr l)]) s2;
  do (s4, o4) <- step (f_stmrew fl || f_stmrew2 fl) (fun s => bio_stable_rew c s ac) (fun l => [Sec S_STMREW false (pr l)]) s3;
  Some (o1 ++ o2 ++ o3 ++ o4).
Proof. reflexivity. Qed.

Lemma run_bio_spec st fl : N.of_nat (length ac) <= VBOT -> ctx c D st ac ->
  exists o1 o2 o3 o4,
    sec_if (f_grd fl) S_GRD true (grd_lines D nm) o1 /\
    sec_if (f_com fl) S_COM true (com_lines D nm) o2 /\
    sec_if (f_stm fl) S_STM true (stm_lines D nm) o3 /\
    sec_if (f_stmrew fl || f_stmrew2 fl) S_STMREW false (stm_lines D nm) o4 /\
    run_bio c nm st ac fl = Some (o1 ++ o2 ++ o3 ++ o4).
Proof.
  intros B C. rewrite run_bio_steps.
  destruct (grd_step_spec D nm (length ac) I Lac (f_grd fl) (fun s => bio_grounded c s ac) st (bio_grounded_ctx c D ac) C) as (s1 & o1 & X1 & C1 & P1).
  rewrite X1. cbn [obind].
  destruct (com_step_spec D nm (length ac) I Lac (f_com fl) (fun s => bio_complete c s ac) s1 (bio_complete_ctx c D ac) C1) as (s2 & o2 & X2 & C2 & P2).
  rewrite X2. cbn [obind].
  destruct (stm_step_spec D nm (length ac) I Lac S_STM true (f_stm fl) (fun s => bio_stable c s ac) s2 (bio_stable_ctx c D ac) C2) as (s3 & o3 & X3 & C3 & P3).
  rewrite X3. cbn [obind].
  destruct (stm_step_spec D nm (length ac) I Lac S_STMREW false (f_stmrew fl || f_stmrew2 fl) (fun s => bio_stable_rew c s ac) s3
              (fun s => bio_stable_rew_ctx c D ac s B) C3) as (s4 & o4 & X4 & C4 & P4).
  rewrite X4. cbn [obind].
  exists o1, o2, o3, o4. auto.
Qed.

End Arms.

(* ------------------------------------------------------------------ *)
(** * The hybrid arm

    The arm first runs [grounded] on the parsed conditions and continues with the returned vector:
    the pre-grounded ADF.  Every later function is the native one on that vector; by
    Adf/BridgeProofs.v its answers are the answers of the original ADF. *)

(** the two searches return well-formed extensions of the store (Adf/NgSearchProofs.v,
    Adf/CountSearchProofs.v) *)
Definition search_safe (c : cfg) : Prop :=
  forall ac h two bud st dr s l x, WF c st -> ac_ok st ac ->
    nogood_search_cur c ac h two bud st dr = Some (s, l, x) -> WF c s /\ extends st s.
Definition count_safe (c : cfg) : Prop :=
  forall heu ac st s l, WF c st -> ac_ok st ac ->
    stable_count_cur c heu ac st = Some (s, l) -> WF c s /\ extends st s.

Theorem search_safe_holds c : search_safe c.
Proof.
  intros ac h two bud st dr s l x W O X. unfold nogood_search_cur in X.
  destruct (ng_sound c ac h _ two _ bud st dr s l x W O X) as (W' & E & _). auto.
Qed.

Theorem count_safe_holds c : count_safe c.
Proof.
  intros heu ac st s l W O X. unfold stable_count_cur in X.
  destruct (count_search_sound c heu ac _ st s l W O X) as (W' & E & _). auto.
Qed.

Lemma pregrounded_adf_eq D D' g : adf_eq D D' -> adf_eq (pregrounded D g) (pregrounded D' g).
Proof.
  unfold adf_eq, pregrounded. induction 1 as [|f f' D D' Hf _ IH]; cbn [map]; constructor; [|exact IH].
  intros a. apply Hf.
Qed.

(** the vectors returned by the counting-guided search have the right length *)
Lemma stable_count_lengths c heu ac stop st st' l : WF c st -> ac_ok st ac ->
  stable_count c heu ac stop st = Some (st', l) -> Forall (fun v => length v = length ac) l.
Proof.
  intros W O X.
  destruct (stable_count_spec c heu ac stop st W O st' l X) as (s1 & g & s2 & cands & _ & _ & HP & _ & _ & Hf).
  destruct HP as (_ & _ & Fc & _). rewrite Forall_forall in Fc.
  apply Forall_forall. intros v Hv. apply (filtered_In _ _ _ Hf v) in Hv. destruct Hv as [Hv _].
  apply (Fc v Hv).
Qed.

Section Hybrid.
Variables (c : cfg) (D : adf) (nm : list str) (g : interp) (ac : list N).
Hypothesis S : Forall (supported (length D)) D.
Hypothesis G : Grounded D g.
Hypothesis Lac : length ac = length nm.

Local Notation pr := (map (print_interp nm)).

Definition hctx (s : store) : Prop :=
  WF c s /\ Forall (fun h => h < size s) ac /\ adf_eq (abs s ac) (pregrounded D g).

Lemma hctx_ok s : hctx s -> ac_ok s ac.
Proof. intros (W & V & EQ). apply (hybrid_opt_ac_ok D g s ac S V EQ). Qed.

Lemma hctx_ext s s' : hctx s -> WF c s' -> extends s s' -> hctx s'.
Proof.
  intros (W & V & EQ) W' E. split; [exact W'|]. split; [apply (valid_extends s s' ac E V)|].
  eapply adf_eq_trans; [|exact EQ]. apply adf_eq_sym. apply (abs_extends c s s' ac W E V).
Qed.

(** stable models and two-valued models of the pre-grounded vector are those of [D] *)
Lemma hctx_stable s v : hctx s -> (Stable (abs s ac) v <-> Stable D v).
Proof. intros (_ & _ & EQ). rewrite (Stable_adf_eq _ _ v EQ). apply (pregrounded_stable D g v G S). Qed.

Lemma hctx_model2 s v : hctx s -> (Model2 (abs s ac) v <-> Model2 D v).
Proof.
  intros (_ & _ & EQ). rewrite (Model2_adf_eq _ _ v EQ).
  apply (pregrounded_model2 D g v (supported_all_fext _ D S) G).
Qed.

Lemma hyb_grounded s : hctx s ->
  exists s' g', grounded c s ac = Some (s', g') /\ hctx s' /\ grd_ok D (length ac) g'.
Proof.
  intros C. pose proof (hctx_ok s C) as O. pose proof C as (W & V & EQ).
  destruct (grounded_total c s ac W O) as (s' & g' & X). exists s', g'. split; [exact X|].
  destruct (grounded_exact c s ac s' g' W O X) as (W' & E & L & _).
  split; [apply (hctx_ext s s' C W' E)|]. split; [exact L|].
  rewrite (hybrid_opt_grounded D g c s ac S G W V EQ s' g' X). exact G.
Qed.

Lemma hyb_complete s : hctx s ->
  exists s' l, complete c s ac = Some (s', l) /\ hctx s' /\ com_ok D (length ac) l.
Proof.
  intros C. pose proof (hctx_ok s C) as O. pose proof C as (W & V & EQ).
  destruct (complete_total c s ac W O) as (s' & l & X). exists s', l. split; [exact X|].
  destruct (complete_exact c s ac s' l W O X) as (W' & E & _).
  destruct (hybrid_opt_complete D g c s ac S G W V EQ s' l X) as (ND & Hin & Hd).
  split; [apply (hctx_ext s s' C W' E)|]. split; [apply (complete_lengths c s ac s' l W O X)|].
  split; [exact ND|]. split; [exact Hin|]. exists g. split; [exact G|exact Hd].
Qed.

Lemma hyb_stable s : hctx s ->
  exists s' l, stable c s ac = Some (s', l) /\ hctx s' /\ stm_ok D (length ac) l.
Proof.
  intros C. pose proof (hctx_ok s C) as O. pose proof C as (W & V & EQ).
  destruct (stable_total c s ac W O) as (s' & l & X). exists s', l. split; [exact X|].
  destruct (stable_exact c s ac s' l W O X) as (W' & E & _).
  destruct (hybrid_opt_stable D g c s ac S G W V EQ s' l X) as (ND & Hin).
  split; [apply (hctx_ext s s' C W' E)|]. split; [apply (stable_lengths c s ac s' l W O X)|].
  split; [exact ND|exact Hin].
Qed.

Lemma hyb_prefilter s : hctx s ->
  exists s' l, stable_with_prefilter c s ac = Some (s', l) /\ hctx s' /\ stm_ok D (length ac) l.
Proof.
  intros C. pose proof (hctx_ok s C) as O. pose proof C as (W & V & EQ).
  destruct (stable_with_prefilter_total c s ac W O) as (s' & l & X). exists s', l. split; [exact X|].
  destruct (stable_with_prefilter_exact c s ac s' l W O X) as (W' & E & _).
  destruct (hybrid_opt_stable_with_prefilter D g c s ac S G W V EQ s' l X) as (ND & Hin).
  split; [apply (hctx_ext s s' C W' E)|].
  split; [apply (stable_with_prefilter_lengths c s ac s' l W O X)|].
  split; [exact ND|exact Hin].
Qed.

(** the counting-guided search on the pre-grounded vector: total, exactly the stable models of [D] *)
Lemma hyb_count heu s : hctx s ->
  exists s' l, stable_count_cur c heu ac s = Some (s', l) /\ hctx s' /\ stm_ok D (length ac) l.
Proof.
  intros C. pose proof (hctx_ok s C) as O. pose proof C as (W & V & EQ). unfold stable_count_cur.
  rewrite count_loop_skips_inconsistent_cubes.
  destruct (count_search_total c heu ac false s W O) as (s' & l & X). exists s', l. split; [exact X|].
  destruct (count_search_exact c heu ac s s' l W O X) as (W' & E & ND & Hin).
  split; [apply (hctx_ext s s' C W' E)|]. split; [apply (stable_count_lengths c heu ac false s s' l W O X)|].
  split; [exact ND|]. intros v. rewrite (Hin v). apply (hctx_stable s v C).
Qed.

(** the nogood search on the pre-grounded vector, when it returns: exactly the two-valued models,
    respectively the stable models, of [D]; for every built-in heuristic *)
Lemma hyb_ng h two bud dr s s' l x : hctx s ->
  nogood_search_cur c ac h two bud s dr = Some (s', l, x) ->
  hctx s' /\ (if two then two_ok D (length ac) l else stm_ok D (length ac) l).
Proof.
  intros C X. pose proof (hctx_ok s C) as O. pose proof C as (W & V & EQ). unfold nogood_search_cur in X.
  assert (ADM : admissible c h g_rand_filtered).
  { apply builtin_admissible. intros _. apply rand_proposes_undecided. }
  destruct (ng_sound c ac h _ two _ bud s dr s' l x W O X) as (W' & E & Hs).
  destruct (ng_exact c ac h _ two _ bud s dr s' l x ADM W O X) as (ND & Hin).
  split; [apply (hctx_ext s s' C W' E)|].
  assert (HL : Forall (fun v => length v = length ac) l).
  { apply Forall_forall. intros v Hv. apply (Hs v Hv). }
  destruct two; (split; [exact HL|]; split; [exact ND|]); intros v; rewrite (Hin v).
  - apply (hctx_model2 s v C).
  - apply (hctx_stable s v C).
Qed.

(** the stmrew section: candidates from the parsed conditions, stability filter on the
    pre-grounded vector *)
Variables (st0 : store) (ac0 : list N).
Hypothesis C0 : ctx c D st0 ac0.
Hypothesis B0 : N.of_nat (length ac0) <= VBOT.
Hypothesis L0 : length ac = length ac0.

Definition hyb_rew_step (b : bool) (s7 : store) : option (store * list section) :=
  if b then
    do (sa, cands) <- stable_candidates c st0 ac0;
    do (s, l) <- stable_from_candidates c s7 ac cands; Some (s, [Sec S_STMREW false (pr l)])
  else Some (s7, []).

Lemma hyb_rew_spec b s7 : hctx s7 ->
  exists s o, hyb_rew_step b s7 = Some (s, o) /\ hctx s /\ sec_if b S_STMREW false (stm_lines D nm) o.
Proof.
  intros C. unfold hyb_rew_step, sec_if. destruct b; [|exists s7, []; auto].
  pose proof C0 as (W0 & O0 & EQ0). pose proof (hctx_ok s7 C) as O. pose proof C as (W & V & EQ).
  destruct (stable_candidates_total c st0 ac0 W0 O0 B0) as (sa & cands & X1). rewrite X1. cbn [obind].
  destruct (stable_candidates_exact c st0 ac0 sa cands W0 O0 B0 X1) as (_ & _ & NDc & HQ & HM).
  destruct (stable_from_candidates_total c s7 ac cands W O) as (s & l & X2). rewrite X2. cbn [obind].
  assert (HQ' : Forall (fun v => length v = length ac /\ Forall (fun h => is_tv h = true) v) cands).
  { rewrite L0. exact HQ. }
  destruct (stable_from_candidates_filtered c s7 ac cands s l W O HQ' X2) as (W' & E & Hf).
  exists s, [Sec S_STMREW false (pr l)]. split; [reflexivity|]. split; [apply (hctx_ext s7 s C W' E)|].
  exists (pr l). split; [reflexivity|]. exists l. split; [reflexivity|].
  assert (NDm : NoDup (map interp_of cands)).
  { apply NoDup_map_on; [exact NDc|]. intros x y Hx Hy. rewrite Forall_forall in HQ.
    apply interp_of_inj_tv; [apply (HQ x Hx)|apply (HQ y Hy)]. }
  split; [|split].
  - rewrite <- Lac. apply (Forall_incl _ cands l).
    + intros x Hx. apply (filtered_In _ _ _ Hf x). exact Hx.
    + eapply Forall_impl; [|exact HQ']. intros v [H _]. exact H.
  - apply (filtered_map_NoDup _ interp_of cands l Hf NDm).
  - intros v. rewrite in_map_iff. split.
    + intros (x & <- & Hx). apply (filtered_In _ _ _ Hf x) in Hx. apply (hctx_stable s7 _ C). apply Hx.
    + intros Sv. assert (M : In v (map interp_of cands)).
      { apply HM. apply (Model2_adf_eq _ _ v EQ0). apply Sv. }
      apply in_map_iff in M. destruct M as (x & <- & Hx). exists x. split; [reflexivity|].
      apply (filtered_In _ _ _ Hf x). split; [exact Hx|]. apply (hctx_stable s7 _ C). exact Sv.
Qed.

(** the arm after its first line, as a sequence of steps *)
Definition hyb_body (fl : flags) (h : heuristic) (st : store) : option (list section) :=
  do (s1, o1) <- step (f_grd fl) (fun s => grounded c s ac) (fun g => [Sec S_GRD true (pr [g])]) st;
  do (s2, o2) <- step (f_com fl) (fun s => complete c s ac) (fun l => [Sec S_COM true (pr l)]) s1;
  do (s3, o3) <- step3 (f_twoval fl) (fun s => nogood_search_cur c ac h true budget s []) (fun l => [Sec S_TWOVAL true (pr l)]) s2;
  do (s4, o4) <- step (f_stm fl) (fun s => stable c s ac) (fun l => [Sec S_STM true (pr l)]) s3;
  do (s5, o5) <- step (f_stmca fl) (fun s => stable_count_cur c heu_a ac s) (fun l => [Sec S_STMCA true (pr l)]) s4;
  do (s6, o6) <- step (f_stmcb fl) (fun s => stable_count_cur c heu_b ac s) (fun l => [Sec S_STMCB true (pr l)]) s5;
  do (s7, o7) <- step (f_stmpre fl) (fun s => stable_with_prefilter c s ac) (fun l => [Sec S_STMPRE true (pr l)]) s6;
  do (s8, o8) <- hyb_rew_step (f_stmrew fl || f_stmrew2 fl) s7;
  do (s9, o9) <- step3 (f_stmng fl) (fun s => nogood_search_cur c ac h false budget s []) (fun l => [Sec S_STMNG true (pr l)]) s8;
  Some (o1 ++ o2 ++ o3 ++ o4 ++ o5 ++ o6 ++ o7 ++ o8 ++ o9).

(** the sections of the hybrid arm, in order, with their contents *)
Definition hyb_sections (fl : flags) (secs : list section) : Prop :=
  exists o1 o2 o3 o4 o5 o6 o7 o8 o9,
    secs = o1 ++ o2 ++ o3 ++ o4 ++ o5 ++ o6 ++ o7 ++ o8 ++ o9 /\
    sec_if (f_grd fl) S_GRD true (grd_lines D nm) o1 /\
    sec_if (f_com fl) S_COM true (com_lines D nm) o2 /\
    sec_if (f_twoval fl) S_TWOVAL true (two_lines D nm) o3 /\
    sec_if (f_stm fl) S_STM true (stm_lines D nm) o4 /\
    sec_if (f_stmca fl) S_STMCA true (stm_lines D nm) o5 /\
    sec_if (f_stmcb fl) S_STMCB true (stm_lines D nm) o6 /\
    sec_if (f_stmpre fl) S_STMPRE true (stm_lines D nm) o7 /\
    sec_if (f_stmrew fl || f_stmrew2 fl) S_STMREW false (stm_lines D nm) o8 /\
    sec_if (f_stmng fl) S_STMNG true (stm_lines D nm) o9.

Lemma hyb_body_spec fl h st : hctx st ->
  match hyb_body fl h st with
  | Some secs => hyb_sections fl secs
  | None => f_twoval fl = true \/ f_stmng fl = true
  end.
Proof.
  intros C. unfold hyb_body.
  destruct (grd_step_spec D nm (length ac) hctx Lac (f_grd fl) (fun s => grounded c s ac) st hyb_grounded C)
    as (s1 & o1 & X1 & C1 & P1).
  rewrite X1. cbn [obind].
  destruct (com_step_spec D nm (length ac) hctx Lac (f_com fl) (fun s => complete c s ac) s1 hyb_complete C1)
    as (s2 & o2 & X2 & C2 & P2).
  rewrite X2. cbn [obind].
  destruct (step3 (f_twoval fl) _ _ s2) as [[s3 o3]|] eqn:X3; cbn [obind];
    [|left; apply (step3_none _ _ _ _ X3)].
  destruct (step3_part nm hctx (two_ok D (length nm)) S_TWOVAL (f_twoval fl) _ s2 s3 o3
              (fun st s a x Hs Xs => eq_rect _ (fun n => hctx s /\ two_ok D n a)
                                       (hyb_ng h true budget [] st s a x Hs Xs) _ Lac)
              C2 X3) as (C3 & P3).
  destruct (stm_step_spec D nm (length ac) hctx Lac S_STM true (f_stm fl) (fun s => stable c s ac) s3 hyb_stable C3)
    as (s4 & o4 & X4 & C4 & P4).
  rewrite X4. cbn [obind].
  destruct (stm_step_spec D nm (length ac) hctx Lac S_STMCA true (f_stmca fl)
              (fun s => stable_count_cur c heu_a ac s) s4 (hyb_count heu_a) C4) as (s5 & o5 & X5 & C5 & P5).
  rewrite X5. cbn [obind].
  destruct (stm_step_spec D nm (length ac) hctx Lac S_STMCB true (f_stmcb fl)
              (fun s => stable_count_cur c heu_b ac s) s5 (hyb_count heu_b) C5) as (s6 & o6 & X6 & C6 & P6).
  rewrite X6. cbn [obind].
  destruct (stm_step_spec D nm (length ac) hctx Lac S_STMPRE true (f_stmpre fl) (fun s => stable_with_prefilter c s ac) s6
              hyb_prefilter C6) as (s7 & o7 & X7 & C7 & P7).
  rewrite X7. cbn [obind].
  destruct (hyb_rew_spec (f_stmrew fl || f_stmrew2 fl) s7 C7) as (s8 & o8 & X8 & C8 & P8).
  rewrite X8. cbn [obind].
  destruct (step3 (f_stmng fl) _ _ s8) as [[s9 o9]|] eqn:X9; cbn [obind];
    [|right; apply (step3_none _ _ _ _ X9)].
  destruct (step3_part nm hctx (stm_ok D (length nm)) S_STMNG (f_stmng fl) _ s8 s9 o9
              (fun st s a x Hs Xs => eq_rect _ (fun n => hctx s /\ stm_ok D n a)
                                       (hyb_ng h false budget [] st s a x Hs Xs) _ Lac)
              C8 X9) as (C9 & P9).
  exists o1, o2, o3, o4, o5, o6, o7, o8, o9. split; [reflexivity|]. repeat (split; [assumption|]). exact P9.
Qed.

End Hybrid.

Lemma run_hybrid_body c nm st0 ac0 fl h :
  run_hybrid c nm st0 ac0 fl h =
  (do (st, ac) <- grounded c st0 ac0; hyb_body c nm ac st0 ac0 fl h st).
Proof. reflexivity. Qed.

Lemma run_hybrid_spec c D nm st0 ac0 fl h :
  ctx c D st0 ac0 -> length ac0 = length nm -> N.of_nat (length ac0) <= VBOT ->
  match run_hybrid c nm st0 ac0 fl h with
  | Some secs => hyb_sections D nm fl secs
  | None => f_twoval fl = true \/ f_stmng fl = true
  end.
Proof.
  intros C0 L0 B0. rewrite run_hybrid_body. pose proof C0 as (W0 & O0 & EQ0).
  destruct (grounded_total c st0 ac0 W0 O0) as (st & ac & X). rewrite X. cbn [obind].
  destruct (grounded_exact c st0 ac0 st ac W0 O0 X) as (W & E & L & V & G & Dg).
  pose proof (ctx_supported c D st0 ac0 C0) as S.
  assert (GD : Grounded D (interp_of ac)) by (apply (Grounded_feq _ _ _ EQ0 G)).
  assert (C : hctx c D (interp_of ac) ac st).
  { split; [exact W|]. split; [exact V|].
    eapply adf_eq_trans; [apply (grounded_vector_pregrounded st0 st ac0 ac (interp_of ac) Dg)|].
    apply pregrounded_adf_eq. exact EQ0. }
  apply (hyb_body_spec c D nm (interp_of ac) ac S GD (eq_trans L L0) st0 ac0 C0 B0 L fl h st C).
Qed.

(* ------------------------------------------------------------------ *)
(** * The command line tool *)

Section CliRun.
Variables (c : cfg) (sm : sortmode) (text : str) (ps0 : pstate) (fs : list (nat * formula)).
Hypothesis P : parse text = (ps0, true).
Let ps := sorted_state sm ps0.
Hypothesis R : resolve_acs (names ps) (acs ps) = Some fs.
Hypothesis B : N.of_nat (length (names ps)) <= VBOT.

(** the ADF written in the file (C09) *)
Let D := sem_from_parser (length (names ps)) fs.
Let nm := names ps.

Lemma cli_setup : exists st ac,
  from_parser c (length nm) fs = Some (st, ac) /\ ctx c D st ac /\ length ac = length nm.
Proof.
  pose proof (resolved_atoms _ _ _ R) as HA.
  destruct (from_parser_total c (length nm) fs B HA) as (st & ac & X). exists st, ac. split; [exact X|].
  destruct (from_parser_ok c (length nm) fs st ac B HA X) as (W & O & L & EQ).
  split; [|exact L]. split; [exact W|]. split; [exact O|exact EQ].
Qed.

(** naive mode: grd, com, stm, stmng in this order; each section prints exactly the definitional
    interpretations; the nogood search (step budget of the model) either hits the budget or
    prints, last, exactly the stable models - for every built-in heuristic *)
Theorem cli_naive_faithful fl h :
  exists o1 o2 o3,
    sec_if (f_grd fl) S_GRD true (grd_lines D nm) o1 /\
    sec_if (f_com fl) S_COM true (com_lines D nm) o2 /\
    sec_if (f_stm fl) S_STM true (stm_lines D nm) o3 /\
    ((f_stmng fl = true /\ cli_run c MNaive sm fl h text = None) \/
     exists o4, sec_if (f_stmng fl) S_STMNG true (stm_lines D nm) o4 /\
                cli_run c MNaive sm fl h text = Some (0, o1 ++ o2 ++ o3 ++ o4)).
Proof.
  destruct cli_setup as (st & ac & X & C & L).
  rewrite (cli_run_ok c MNaive sm fl h text ps0 fs P R). fold ps. fold nm. rewrite X. cbn [obind].
  destruct (run_naive_spec c D nm ac L st fl h C) as (s3 & o1 & o2 & o3 & C3 & P1 & P2 & P3 & E).
  exists o1, o2, o3. split; [exact P1|]. split; [exact P2|]. split; [exact P3|].
  rewrite E.
  destruct (ng_step c nm ac fl h s3) as [[s4 o4]|] eqn:X4; cbn [obind].
  - right. exists o4. split; [|reflexivity]. apply (ng_step_spec c D nm ac L fl h s3 s4 o4 C3 X4).
  - left. split; [apply (step3_none _ _ _ _ X4)|reflexivity].
Qed.

(** the form asked for, for the flags whose functions are total in the model *)
Corollary cli_naive_total fl h : f_stmng fl = false ->
  exists o1 o2 o3,
    cli_run c MNaive sm fl h text = Some (0, o1 ++ o2 ++ o3) /\
    sec_if (f_grd fl) S_GRD true (grd_lines D nm) o1 /\
    sec_if (f_com fl) S_COM true (com_lines D nm) o2 /\
    sec_if (f_stm fl) S_STM true (stm_lines D nm) o3.
Proof.
  intros Hng. destruct (cli_naive_faithful fl h) as (o1 & o2 & o3 & P1 & P2 & P3 & [[Hn _]|(o4 & P4 & E)]);
    [congruence|].
  exists o1, o2, o3. rewrite Hng in P4. cbn in P4. subst o4. rewrite app_nil_r in E. auto.
Qed.

(** biodivine mode: grd, com, stm, stmrew; always terminates in the model *)
Theorem cli_bio_faithful fl h :
  exists o1 o2 o3 o4,
    cli_run c MBio sm fl h text = Some (0, o1 ++ o2 ++ o3 ++ o4) /\
    sec_if (f_grd fl) S_GRD true (grd_lines D nm) o1 /\
    sec_if (f_com fl) S_COM true (com_lines D nm) o2 /\
    sec_if (f_stm fl) S_STM true (stm_lines D nm) o3 /\
    sec_if (f_stmrew fl || f_stmrew2 fl) S_STMREW false (stm_lines D nm) o4.
Proof.
  destruct cli_setup as (st & ac & X & C & L).
  rewrite (cli_run_ok c MBio sm fl h text ps0 fs P R). fold ps. fold nm. rewrite X. cbn [obind].
  assert (Bac : N.of_nat (length ac) <= VBOT) by (rewrite L; exact B).
  destruct (run_bio_spec c D nm ac L st fl Bac C) as (o1 & o2 & o3 & o4 & P1 & P2 & P3 & P4 & E).
  exists o1, o2, o3, o4. rewrite E. cbn [obind]. auto.
Qed.

(** hybrid mode: grd, com, twoval, stm, stmca, stmcb, stmpre, stmrew, stmng, every section with
    its definitional content; [None] (a bound of the model) only with a nogood flag *)
Theorem cli_hybrid_faithful fl h :
  match cli_run c MHybrid sm fl h text with
  | Some (e, secs) => e = 0 /\ hyb_sections D nm fl secs
  | None => f_twoval fl = true \/ f_stmng fl = true
  end.
Proof.
  destruct cli_setup as (st & ac & X & C & L).
  rewrite (cli_run_ok c MHybrid sm fl h text ps0 fs P R). fold ps. fold nm. rewrite X. cbn [obind].
  assert (Bac : N.of_nat (length ac) <= VBOT) by (rewrite L; exact B).
  pose proof (run_hybrid_spec c D nm st ac fl h C L Bac) as H.
  destruct (run_hybrid c nm st ac fl h) as [secs|]; cbn [obind]; [split; [reflexivity|exact H]|exact H].
Qed.

(** without the nogood searches the hybrid arm terminates in the model *)
Corollary cli_hybrid_total fl h : f_twoval fl = false -> f_stmng fl = false ->
  exists secs, cli_run c MHybrid sm fl h text = Some (0, secs) /\ hyb_sections D nm fl secs.
Proof.
  intros H1 H4. pose proof (cli_hybrid_faithful fl h) as H.
  destruct (cli_run c MHybrid sm fl h text) as [[e secs]|].
  - destruct H as [-> H]. exists secs. auto.
  - destruct H as [H|H]; congruence.
Qed.

(** the only way to [None]: a nogood search and the step budget of the model *)
Theorem cli_none m fl h : cli_run c m sm fl h text = None ->
  (m = MNaive /\ f_stmng fl = true) \/ (m = MHybrid /\ (f_twoval fl = true \/ f_stmng fl = true)).
Proof.
  intros X. destruct m.
  - right. split; [reflexivity|]. pose proof (cli_hybrid_faithful fl h) as H. rewrite X in H. exact H.
  - destruct (cli_bio_faithful fl h) as (o1 & o2 & o3 & o4 & E & _). congruence.
  - left. split; [reflexivity|].
    destruct (cli_naive_faithful fl h) as (o1 & o2 & o3 & _ & _ & _ & [[H _]|(o4 & _ & E)]); [exact H|congruence].
Qed.

End CliRun.

(* ------------------------------------------------------------------ *)
(** * The order of the sections *)

Definition flag_list (l : list (bool * str)) : list str := map snd (filter fst l).

Lemma flag_list_cons b f l : flag_list ((b, f) :: l) = (if b then [f] else []) ++ flag_list l.
Proof. unfold flag_list. cbn [filter fst]. destruct b; reflexivity. Qed.

(** the flags an arm looks at, with the names of their sections, in the order of the source *)
Definition mode_flags (m : mode) (fl : flags) : list (bool * str) :=
  match m with
  | MHybrid => [(f_grd fl, S_GRD); (f_com fl, S_COM); (f_twoval fl, S_TWOVAL); (f_stm fl, S_STM);
                (f_stmca fl, S_STMCA); (f_stmcb fl, S_STMCB); (f_stmpre fl, S_STMPRE);
                (f_stmrew fl || f_stmrew2 fl, S_STMREW); (f_stmng fl, S_STMNG)]
  | MBio => [(f_grd fl, S_GRD); (f_com fl, S_COM); (f_stm fl, S_STM); (f_stmrew fl || f_stmrew2 fl, S_STMREW)]
  | MNaive => [(f_grd fl, S_GRD); (f_com fl, S_COM); (f_stm fl, S_STM); (f_stmng fl, S_STMNG)]
  end.

Lemma naive_order fl o1 o2 o3 o4 P1 P2 P3 P4 :
  sec_if (f_grd fl) S_GRD true P1 o1 -> sec_if (f_com fl) S_COM true P2 o2 ->
  sec_if (f_stm fl) S_STM true P3 o3 -> sec_if (f_stmng fl) S_STMNG true P4 o4 ->
  map sec_flag (o1 ++ o2 ++ o3 ++ o4) = flag_list (mode_flags MNaive fl).
Proof.
  intros H1 H2 H3 H4. rewrite !map_app.
  rewrite (sec_if_flags _ _ _ _ _ H1), (sec_if_flags _ _ _ _ _ H2), (sec_if_flags _ _ _ _ _ H3),
    (sec_if_flags _ _ _ _ _ H4).
  cbn [mode_flags]. rewrite !flag_list_cons. unfold flag_list. cbn [filter map]. rewrite app_nil_r. reflexivity.
Qed.

Lemma bio_order fl o1 o2 o3 o4 P1 P2 P3 P4 :
  sec_if (f_grd fl) S_GRD true P1 o1 -> sec_if (f_com fl) S_COM true P2 o2 ->
  sec_if (f_stm fl) S_STM true P3 o3 -> sec_if (f_stmrew fl || f_stmrew2 fl) S_STMREW false P4 o4 ->
  map sec_flag (o1 ++ o2 ++ o3 ++ o4) = flag_list (mode_flags MBio fl).
Proof.
  intros H1 H2 H3 H4. rewrite !map_app.
  rewrite (sec_if_flags _ _ _ _ _ H1), (sec_if_flags _ _ _ _ _ H2), (sec_if_flags _ _ _ _ _ H3),
    (sec_if_flags _ _ _ _ _ H4).
  cbn [mode_flags]. rewrite !flag_list_cons. unfold flag_list. cbn [filter map]. rewrite app_nil_r. reflexivity.
Qed.

Lemma hybrid_order D nm fl secs : hyb_sections D nm fl secs ->
  map sec_flag secs = flag_list (mode_flags MHybrid fl).
Proof.
  intros (o1 & o2 & o3 & o4 & o5 & o6 & o7 & o8 & o9 & -> & H1 & H2 & H3 & H4 & H5 & H6 & H7 & H8 & H9).
  rewrite !map_app.
  rewrite (sec_if_flags _ _ _ _ _ H1), (sec_if_flags _ _ _ _ _ H2), (sec_if_flags _ _ _ _ _ H3),
    (sec_if_flags _ _ _ _ _ H4), (sec_if_flags _ _ _ _ _ H5), (sec_if_flags _ _ _ _ _ H6),
    (sec_if_flags _ _ _ _ _ H7), (sec_if_flags _ _ _ _ _ H8), (sec_if_flags _ _ _ _ _ H9).
  cbn [mode_flags]. rewrite !flag_list_cons. unfold flag_list. cbn [filter map]. rewrite app_nil_r. reflexivity.
Qed.

Ltac unfold_flags :=
  unfold S_GRD, S_COM, S_STM, S_STMCA, S_STMCB, S_STMPRE, S_STMREW, S_STMNG, S_TWOVAL in *.

Lemma flag_list_NoDup l : NoDup (map snd l) -> NoDup (flag_list l).
Proof.
  unfold flag_list. induction l as [|[b f] l IH]; cbn [map snd filter fst]; intros ND; [constructor|].
  inversion ND as [|? ? Hn ND']; subst. destruct b; cbn [map snd]; [|apply IH; exact ND'].
  constructor; [|apply IH; exact ND']. intros Hin. apply Hn. apply in_map_iff in Hin.
  destruct Hin as (p & <- & Hp). apply filter_In in Hp. apply in_map. apply Hp.
Qed.

Lemma in_flag_list f l : In f (flag_list l) <-> In (true, f) l.
Proof.
  unfold flag_list. rewrite in_map_iff. split.
  - intros ([b f'] & <- & Hp). apply filter_In in Hp. cbn [fst snd] in *. destruct Hp as [Hp ->]. exact Hp.
  - intros H. exists (true, f). split; [reflexivity|]. apply filter_In. auto.
Qed.

Lemma mode_flags_NoDup m fl : NoDup (flag_list (mode_flags m fl)).
Proof.
  apply flag_list_NoDup. destruct m; cbn [mode_flags map snd]; unfold_flags;
    repeat (constructor; [cbn [In]; intros H; repeat (destruct H as [H|H]; [discriminate H|]); exact H|]);
    constructor.
Qed.

(** the three common sections are present iff their flag is set, in every mode *)
Lemma pair_flag_eq (b : bool) (f f' : str) : (b, f) = (true, f') -> b = true /\ f = f'.
Proof. intros H. inversion H. auto. Qed.

Lemma common_present m fl :
  (In S_GRD (flag_list (mode_flags m fl)) <-> f_grd fl = true) /\
  (In S_COM (flag_list (mode_flags m fl)) <-> f_com fl = true) /\
  (In S_STM (flag_list (mode_flags m fl)) <-> f_stm fl = true).
Proof.
  rewrite !in_flag_list.
  destruct m; cbn [mode_flags In]; unfold_flags; (split; [|split]);
    (split;
     [intros H;
      repeat (destruct H as [H|H];
              [apply pair_flag_eq in H; destruct H as [H1 H2]; try discriminate H2; exact H1|]);
      destruct H
     |intros E; rewrite E; repeat (first [left; reflexivity | right])]).
Qed.

(* ------------------------------------------------------------------ *)
(** * Every section, identified by its name, has its definitional content - in every mode *)

Definition stable_flags : list str := [S_STM; S_STMCA; S_STMCB; S_STMPRE; S_STMREW; S_STMNG].

Definition sec_ok (D : adf) (nm : list str) (s : section) : Prop :=
  (sec_flag s = S_GRD -> grd_lines D nm (sec_lines s)) /\
  (sec_flag s = S_COM -> com_lines D nm (sec_lines s)) /\
  (sec_flag s = S_TWOVAL -> two_lines D nm (sec_lines s)) /\
  (In (sec_flag s) stable_flags -> stm_lines D nm (sec_lines s)).

Definition secs_ok (D : adf) (nm : list str) (secs : list section) : Prop :=
  NoDup (map sec_flag secs) /\ Forall (sec_ok D nm) secs.

Ltac absurd_flag H :=
  unfold stable_flags in H; unfold_flags; cbn [In] in H;
  try discriminate H; repeat (destruct H as [H|H]; [discriminate H|]); destruct H.

Lemma sec_ok_grd D nm ord lines : grd_lines D nm lines -> sec_ok D nm (Sec S_GRD ord lines).
Proof.
  intros Hl. unfold sec_ok. cbn [sec_flag sec_lines]. repeat split; intros H; try exact Hl; exfalso; absurd_flag H.
Qed.
Lemma sec_ok_com D nm ord lines : com_lines D nm lines -> sec_ok D nm (Sec S_COM ord lines).
Proof.
  intros Hl. unfold sec_ok. cbn [sec_flag sec_lines]. repeat split; intros H; try exact Hl; exfalso; absurd_flag H.
Qed.
Lemma sec_ok_two D nm ord lines : two_lines D nm lines -> sec_ok D nm (Sec S_TWOVAL ord lines).
Proof.
  intros Hl. unfold sec_ok. cbn [sec_flag sec_lines]. repeat split; intros H; try exact Hl; exfalso; absurd_flag H.
Qed.
Lemma sec_ok_stm D nm flag ord lines : In flag stable_flags -> stm_lines D nm lines ->
  sec_ok D nm (Sec flag ord lines).
Proof.
  intros Hf Hl. unfold sec_ok. cbn [sec_flag sec_lines]. repeat split; intros H; try exact Hl;
    exfalso; subst flag; absurd_flag Hf.
Qed.

Lemma sec_if_Forall D nm b flag ord P o : sec_if b flag ord P o ->
  (forall lines, P lines -> sec_ok D nm (Sec flag ord lines)) -> Forall (sec_ok D nm) o.
Proof.
  unfold sec_if. intros H HP. destruct b; [destruct H as (lines & -> & Hl)|subst o; constructor].
  constructor; [apply HP; exact Hl|constructor].
Qed.

Lemma stable_flag_in flag : In flag stable_flags <->
  flag = S_STM \/ flag = S_STMCA \/ flag = S_STMCB \/ flag = S_STMPRE \/ flag = S_STMREW \/ flag = S_STMNG.
Proof. unfold stable_flags. cbn [In]. intuition congruence. Qed.

Lemma hyb_sections_ok D nm fl secs : hyb_sections D nm fl secs -> Forall (sec_ok D nm) secs.
Proof.
  intros (o1 & o2 & o3 & o4 & o5 & o6 & o7 & o8 & o9 & -> & H1 & H2 & H3 & H4 & H5 & H6 & H7 & H8 & H9).
  repeat (apply Forall_app; split).
  - apply (sec_if_Forall D nm _ _ _ _ _ H1). intros lines. apply sec_ok_grd.
  - apply (sec_if_Forall D nm _ _ _ _ _ H2). intros lines. apply sec_ok_com.
  - apply (sec_if_Forall D nm _ _ _ _ _ H3). intros lines. apply sec_ok_two.
  - apply (sec_if_Forall D nm _ _ _ _ _ H4). intros lines. apply sec_ok_stm. apply stable_flag_in. tauto.
  - apply (sec_if_Forall D nm _ _ _ _ _ H5). intros lines. apply sec_ok_stm. apply stable_flag_in. tauto.
  - apply (sec_if_Forall D nm _ _ _ _ _ H6). intros lines. apply sec_ok_stm. apply stable_flag_in. tauto.
  - apply (sec_if_Forall D nm _ _ _ _ _ H7). intros lines. apply sec_ok_stm. apply stable_flag_in. tauto.
  - apply (sec_if_Forall D nm _ _ _ _ _ H8). intros lines. apply sec_ok_stm. apply stable_flag_in. tauto.
  - apply (sec_if_Forall D nm _ _ _ _ _ H9). intros lines. apply sec_ok_stm. apply stable_flag_in. tauto.
Qed.

(** the lines printed under a section name *)
Definition lines_of (flag : str) (secs : list section) : list str :=
  flat_map sec_lines (filter (fun s => str_eqb (sec_flag s) flag) secs).

Lemma lines_of_cons flag s secs :
  lines_of flag (s :: secs) = (if str_eqb (sec_flag s) flag then sec_lines s else []) ++ lines_of flag secs.
Proof. unfold lines_of. cbn [filter]. destruct (str_eqb (sec_flag s) flag); reflexivity. Qed.

Lemma str_eqb_true a b : str_eqb a b = true -> a = b.
Proof.
  intros H. destruct (str_eq_dec a b) as [E|E]; [exact E|]. rewrite (str_eqb_neq a b E) in H. discriminate H.
Qed.

Lemma lines_of_absent flag secs : ~ In flag (map sec_flag secs) -> lines_of flag secs = [].
Proof.
  induction secs as [|s secs IH]; intros Hn; [reflexivity|]. rewrite lines_of_cons.
  cbn [map In] in Hn. destruct (str_eqb (sec_flag s) flag) eqn:E.
  - exfalso. apply Hn. left. apply str_eqb_true. exact E.
  - cbn [app]. apply IH. tauto.
Qed.

Lemma lines_of_present secs s : NoDup (map sec_flag secs) -> In s secs ->
  lines_of (sec_flag s) secs = sec_lines s.
Proof.
  induction secs as [|a secs IH]; intros ND Hin; [destruct Hin|]. rewrite lines_of_cons.
  cbn [map] in ND. inversion ND as [|? ? Hn ND']; subst. destruct Hin as [->|Hin].
  - rewrite str_eqb_refl, (lines_of_absent _ _ Hn). apply app_nil_r.
  - rewrite str_eqb_neq; [cbn [app]; apply IH; assumption|].
    intros E. apply Hn. rewrite E. apply in_map. exact Hin.
Qed.

Lemma present_section flag secs : In flag (map sec_flag secs) -> exists s, In s secs /\ sec_flag s = flag.
Proof. intros H. apply in_map_iff in H. destruct H as (s & E & Hs). eauto. Qed.

Section SecsOk.
Variables (D : adf) (nm : list str) (secs : list section).
Hypothesis OK : secs_ok D nm secs.

Lemma secs_ok_section flag : In flag (map sec_flag secs) ->
  exists s, In s secs /\ sec_flag s = flag /\ sec_ok D nm s /\ lines_of flag secs = sec_lines s.
Proof.
  intros H. destruct OK as [ND F]. destruct (present_section flag secs H) as (s & Hs & E).
  exists s. split; [exact Hs|]. split; [exact E|]. rewrite Forall_forall in F. split; [apply F, Hs|].
  rewrite <- E. apply lines_of_present; assumption.
Qed.

Lemma secs_ok_grd : In S_GRD (map sec_flag secs) ->
  exists g, Grounded D g /\ length g = length nm /\ lines_of S_GRD secs = [print_tv nm g].
Proof.
  intros H. destruct (secs_ok_section S_GRD H) as (s & _ & E & (Hg & _) & ->).
  destruct (grd_lines_tv D nm _ (Hg E)) as (g & G & L & El). exists g. auto.
Qed.

Lemma secs_ok_com : In S_COM (map sec_flag secs) ->
  forall line, In line (lines_of S_COM secs) <-> exists v, Complete D v /\ line = print_tv nm v.
Proof.
  intros H. destruct (secs_ok_section S_COM H) as (s & _ & E & (_ & Hc & _) & ->).
  apply (com_lines_tv D nm _ (Hc E)).
Qed.

Lemma secs_ok_two : In S_TWOVAL (map sec_flag secs) ->
  forall line, In line (lines_of S_TWOVAL secs) <-> exists v, Model2 D v /\ line = print_tv nm v.
Proof.
  intros H. destruct (secs_ok_section S_TWOVAL H) as (s & _ & E & (_ & _ & Ht & _) & ->).
  apply (two_lines_tv D nm _ (Ht E)).
Qed.

Lemma secs_ok_stm flag : In flag stable_flags -> In flag (map sec_flag secs) ->
  forall line, In line (lines_of flag secs) <-> exists v, Stable D v /\ line = print_tv nm v.
Proof.
  intros Hf H. destruct (secs_ok_section flag H) as (s & _ & E & (_ & _ & _ & Hs) & ->).
  rewrite <- E in Hf. apply (stm_lines_tv D nm _ (Hs Hf)).
Qed.

End SecsOk.

(* ------------------------------------------------------------------ *)
(** * All modes at once; the modes agree *)

Section Agree.
Variables (c : cfg) (sm : sortmode) (text : str) (ps0 : pstate) (fs : list (nat * formula)).
Hypothesis P : parse text = (ps0, true).
Let ps := sorted_state sm ps0.
Hypothesis R : resolve_acs (names ps) (acs ps) = Some fs.
Hypothesis B : N.of_nat (length (names ps)) <= VBOT.
Let D := sem_from_parser (length (names ps)) fs.
Let nm := names ps.

(** whatever a mode prints: exit status 0, the sections of the set flags the mode wires, in the
    order of the source, each once, each with the definitional content for its name *)
Theorem cli_sections m fl h e secs : cli_run c m sm fl h text = Some (e, secs) ->
  e = 0 /\ map sec_flag secs = flag_list (mode_flags m fl) /\ secs_ok D nm secs.
Proof.
  intros X.
  assert (H : e = 0 /\ map sec_flag secs = flag_list (mode_flags m fl) /\ Forall (sec_ok D nm) secs).
  { destruct m.
    - pose proof (cli_hybrid_faithful c sm text ps0 fs P R B fl h) as H. rewrite X in H.
      destruct H as [-> H]. split; [reflexivity|]. split; [apply (hybrid_order _ _ _ _ H)|].
      apply (hyb_sections_ok _ _ _ _ H).
    - destruct (cli_bio_faithful c sm text ps0 fs P R B fl h) as (o1 & o2 & o3 & o4 & E & P1 & P2 & P3 & P4).
      rewrite X in E. inversion E; subst e secs. split; [reflexivity|].
      split; [apply (bio_order _ _ _ _ _ _ _ _ _ P1 P2 P3 P4)|].
      repeat (apply Forall_app; split).
      + apply (sec_if_Forall D nm _ _ _ _ _ P1). intros lines. apply sec_ok_grd.
      + apply (sec_if_Forall D nm _ _ _ _ _ P2). intros lines. apply sec_ok_com.
      + apply (sec_if_Forall D nm _ _ _ _ _ P3). intros lines. apply sec_ok_stm. apply stable_flag_in. tauto.
      + apply (sec_if_Forall D nm _ _ _ _ _ P4). intros lines. apply sec_ok_stm. apply stable_flag_in. tauto.
    - destruct (cli_naive_faithful c sm text ps0 fs P R B fl h) as (o1 & o2 & o3 & P1 & P2 & P3 & [[_ E]|(o4 & P4 & E)]);
        [congruence|].
      rewrite X in E. inversion E; subst e secs. split; [reflexivity|].
      split; [apply (naive_order _ _ _ _ _ _ _ _ _ P1 P2 P3 P4)|].
      repeat (apply Forall_app; split).
      + apply (sec_if_Forall D nm _ _ _ _ _ P1). intros lines. apply sec_ok_grd.
      + apply (sec_if_Forall D nm _ _ _ _ _ P2). intros lines. apply sec_ok_com.
      + apply (sec_if_Forall D nm _ _ _ _ _ P3). intros lines. apply sec_ok_stm. apply stable_flag_in. tauto.
      + apply (sec_if_Forall D nm _ _ _ _ _ P4). intros lines. apply sec_ok_stm. apply stable_flag_in. tauto. }
  destruct H as (He & Ho & Hf). split; [exact He|]. split; [exact Ho|]. split; [|exact Hf].
  rewrite Ho. apply mode_flags_NoDup.
Qed.

(** two runs of any two modes on the same document (any flag sets, any heuristics): the sections
    with the same name carry the same lines (grd) / the same set of lines (com, twoval), and ALL
    stable-type sections present in the two runs (stm, stmca, stmcb, stmpre, stmrew, stmng) carry
    the same set of lines *)
Theorem cli_present_agree m1 m2 fl1 fl2 h1 h2 e1 secs1 e2 secs2 :
  cli_run c m1 sm fl1 h1 text = Some (e1, secs1) -> cli_run c m2 sm fl2 h2 text = Some (e2, secs2) ->
  e1 = e2 /\
  (In S_GRD (map sec_flag secs1) -> In S_GRD (map sec_flag secs2) -> lines_of S_GRD secs1 = lines_of S_GRD secs2) /\
  (In S_COM (map sec_flag secs1) -> In S_COM (map sec_flag secs2) ->
     forall line, In line (lines_of S_COM secs1) <-> In line (lines_of S_COM secs2)) /\
  (In S_TWOVAL (map sec_flag secs1) -> In S_TWOVAL (map sec_flag secs2) ->
     forall line, In line (lines_of S_TWOVAL secs1) <-> In line (lines_of S_TWOVAL secs2)) /\
  (forall f1 f2, In f1 stable_flags -> In f2 stable_flags ->
     In f1 (map sec_flag secs1) -> In f2 (map sec_flag secs2) ->
     forall line, In line (lines_of f1 secs1) <-> In line (lines_of f2 secs2)).
Proof.
  intros X1 X2.
  destruct (cli_sections m1 fl1 h1 e1 secs1 X1) as (-> & _ & OK1).
  destruct (cli_sections m2 fl2 h2 e2 secs2 X2) as (-> & _ & OK2).
  split; [reflexivity|]. split; [|split; [|split]].
  - intros H1 H2. destruct (secs_ok_grd D nm secs1 OK1 H1) as (g1 & G1 & _ & ->).
    destruct (secs_ok_grd D nm secs2 OK2 H2) as (g2 & G2 & _ & ->).
    rewrite (Grounded_unique D g1 g2 G1 G2). reflexivity.
  - intros H1 H2 line. rewrite (secs_ok_com D nm secs1 OK1 H1 line), (secs_ok_com D nm secs2 OK2 H2 line). reflexivity.
  - intros H1 H2 line. rewrite (secs_ok_two D nm secs1 OK1 H1 line), (secs_ok_two D nm secs2 OK2 H2 line). reflexivity.
  - intros f1 f2 F1 F2 H1 H2 line.
    rewrite (secs_ok_stm D nm secs1 OK1 f1 F1 H1 line), (secs_ok_stm D nm secs2 OK2 f2 F2 H2 line). reflexivity.
Qed.

(** with the same flags: same exit status, the same grd line, the same sets of com lines and of
    stm lines (unconditionally: present in both runs or in none), and all stable-type sections
    of the two runs carry the same set of lines *)
Corollary cli_modes_agree m1 m2 fl h1 h2 e1 secs1 e2 secs2 :
  cli_run c m1 sm fl h1 text = Some (e1, secs1) -> cli_run c m2 sm fl h2 text = Some (e2, secs2) ->
  e1 = e2 /\ lines_of S_GRD secs1 = lines_of S_GRD secs2 /\
  (forall line, In line (lines_of S_COM secs1) <-> In line (lines_of S_COM secs2)) /\
  (forall line, In line (lines_of S_STM secs1) <-> In line (lines_of S_STM secs2)) /\
  (forall f1 f2, In f1 stable_flags -> In f2 stable_flags ->
     In f1 (map sec_flag secs1) -> In f2 (map sec_flag secs2) ->
     forall line, In line (lines_of f1 secs1) <-> In line (lines_of f2 secs2)).
Proof.
  intros X1 X2.
  destruct (cli_present_agree m1 m2 fl fl h1 h2 e1 secs1 e2 secs2 X1 X2) as (Ee & Hg & Hc & _ & Hs).
  destruct (cli_sections m1 fl h1 e1 secs1 X1) as (_ & O1 & _).
  destruct (cli_sections m2 fl h2 e2 secs2 X2) as (_ & O2 & _).
  destruct (common_present m1 fl) as (G1 & C1 & S1). destruct (common_present m2 fl) as (G2 & C2 & S2).
  rewrite <- O1 in G1, C1, S1. rewrite <- O2 in G2, C2, S2.
  split; [exact Ee|]. split; [|split; [|split; [|exact Hs]]].
  - destruct (f_grd fl) eqn:F.
    + apply Hg; [apply G1|apply G2]; reflexivity.
    + rewrite !lines_of_absent; [reflexivity| |]; intros H; [apply G2 in H|apply G1 in H]; discriminate H.
  - intros line. destruct (f_com fl) eqn:F.
    + apply Hc; [apply C1|apply C2]; reflexivity.
    + rewrite !lines_of_absent; [reflexivity| |]; intros H; [apply C2 in H|apply C1 in H]; discriminate H.
  - intros line. destruct (f_stm fl) eqn:F.
    + apply Hs; [apply stable_flag_in; tauto|apply stable_flag_in; tauto|apply S1|apply S2]; reflexivity.
    + rewrite !lines_of_absent; [reflexivity| |]; intros H; [apply S2 in H|apply S1 in H]; discriminate H.
Qed.

End Agree.

(* ------------------------------------------------------------------ *)
(** * Flags an arm does not wire are ignored *)

(** the output of the biodivine arm only depends on grd, com, stm and (stmrew or stmrew2) - not on
    stmca, stmcb, stmpre, stmng, twoval, nor on the heuristic *)
Theorem cli_bio_depends c sm fl fl' h h' text :
  f_grd fl = f_grd fl' -> f_com fl = f_com fl' -> f_stm fl = f_stm fl' ->
  f_stmrew fl || f_stmrew2 fl = f_stmrew fl' || f_stmrew2 fl' ->
  cli_run c MBio sm fl h text = cli_run c MBio sm fl' h' text.
Proof.
  intros H1 H2 H3 H4. unfold cli_run, run_bio. rewrite H1, H2, H3, H4. reflexivity.
Qed.

(** the output of the naive arm only depends on grd, com, stm, stmng (and the heuristic) - not on
    stmca, stmcb, stmpre, stmrew, stmrew2, twoval *)
Theorem cli_naive_depends c sm fl fl' h text :
  f_grd fl = f_grd fl' -> f_com fl = f_com fl' -> f_stm fl = f_stm fl' -> f_stmng fl = f_stmng fl' ->
  cli_run c MNaive sm fl h text = cli_run c MNaive sm fl' h text.
Proof.
  intros H1 H2 H3 H4. unfold cli_run, run_naive. rewrite H1, H2, H3, H4. reflexivity.
Qed.

(** setting a flag by the name of its section *)
Definition set_flag (flag : str) (b : bool) (fl : flags) : flags :=
  if str_eqb flag S_GRD then mkF b (f_com fl) (f_stm fl) (f_stmca fl) (f_stmcb fl) (f_stmpre fl) (f_stmrew fl) (f_stmrew2 fl) (f_stmng fl) (f_twoval fl)
  else if str_eqb flag S_COM then mkF (f_grd fl) b (f_stm fl) (f_stmca fl) (f_stmcb fl) (f_stmpre fl) (f_stmrew fl) (f_stmrew2 fl) (f_stmng fl) (f_twoval fl)
  else if str_eqb flag S_STM then mkF (f_grd fl) (f_com fl) b (f_stmca fl) (f_stmcb fl) (f_stmpre fl) (f_stmrew fl) (f_stmrew2 fl) (f_stmng fl) (f_twoval fl)
  else if str_eqb flag S_STMCA then mkF (f_grd fl) (f_com fl) (f_stm fl) b (f_stmcb fl) (f_stmpre fl) (f_stmrew fl) (f_stmrew2 fl) (f_stmng fl) (f_twoval fl)
  else if str_eqb flag S_STMCB then mkF (f_grd fl) (f_com fl) (f_stm fl) (f_stmca fl) b (f_stmpre fl) (f_stmrew fl) (f_stmrew2 fl) (f_stmng fl) (f_twoval fl)
  else if str_eqb flag S_STMPRE then mkF (f_grd fl) (f_com fl) (f_stm fl) (f_stmca fl) (f_stmcb fl) b (f_stmrew fl) (f_stmrew2 fl) (f_stmng fl) (f_twoval fl)
  else if str_eqb flag S_STMREW then mkF (f_grd fl) (f_com fl) (f_stm fl) (f_stmca fl) (f_stmcb fl) (f_stmpre fl) b (f_stmrew2 fl) (f_stmng fl) (f_twoval fl)
  else if str_eqb flag S_STMNG then mkF (f_grd fl) (f_com fl) (f_stm fl) (f_stmca fl) (f_stmcb fl) (f_stmpre fl) (f_stmrew fl) (f_stmrew2 fl) b (f_twoval fl)
  else if str_eqb flag S_TWOVAL then mkF (f_grd fl) (f_com fl) (f_stm fl) (f_stmca fl) (f_stmcb fl) (f_stmpre fl) (f_stmrew fl) (f_stmrew2 fl) (f_stmng fl) b
  else fl.
(** stmrew2 has no section name of its own (it prints under stmrew) *)
Definition set_stmrew2 (b : bool) (fl : flags) : flags :=
  mkF (f_grd fl) (f_com fl) (f_stm fl) (f_stmca fl) (f_stmcb fl) (f_stmpre fl) (f_stmrew fl) b (f_stmng fl) (f_twoval fl).

(** the unwired pairs, by computation *)
Example unwired_bio : map (wired MBio) [S_STMCA; S_STMCB; S_STMPRE; S_STMNG; S_TWOVAL] = [false; false; false; false; false].
Proof. reflexivity. Qed.
Example unwired_naive : map (wired MNaive) [S_STMCA; S_STMCB; S_STMPRE; S_STMREW; S_TWOVAL] = [false; false; false; false; false].
Proof. reflexivity. Qed.
Example wired_bio : map (wired MBio) [S_GRD; S_COM; S_STM; S_STMREW] = [true; true; true; true].
Proof. reflexivity. Qed.
Example wired_naive : map (wired MNaive) [S_GRD; S_COM; S_STM; S_STMNG] = [true; true; true; true].
Proof. reflexivity. Qed.

(** an unwired flag is silently ignored: setting or clearing it does not change exit status or
    output (the recorded finding) *)
Theorem cli_ignored c m sm fl h text flag b : wired m flag = false ->
  cli_run c m sm (set_flag flag b fl) h text = cli_run c m sm fl h text.
Proof.
  intros Hw. destruct m; cbn [wired] in Hw; [discriminate Hw| |].
  - apply orb_false_elim in Hw. destruct Hw as [Hw H4]. apply orb_false_elim in Hw. destruct Hw as [Hw H3].
    apply orb_false_elim in Hw. destruct Hw as [H1 H2].
    apply cli_bio_depends; unfold set_flag; rewrite H1, H2, H3, ?H4;
      repeat match goal with |- context [if str_eqb flag ?s then _ else _] => destruct (str_eqb flag s) end;
      reflexivity.
  - apply orb_false_elim in Hw. destruct Hw as [Hw H4]. apply orb_false_elim in Hw. destruct Hw as [Hw H3].
    apply orb_false_elim in Hw. destruct Hw as [H1 H2].
    apply cli_naive_depends; unfold set_flag; rewrite H1, H2, H3;
      repeat match goal with |- context [if str_eqb flag ?s then _ else _] => destruct (str_eqb flag s) eqn:? end;
      try reflexivity; congruence.
Qed.

(** [set_flag] does set the named flag (so [cli_ignored] is not vacuous) *)
Example set_flag_sets fl b :
  f_stmca (set_flag S_STMCA b fl) = b /\ f_stmcb (set_flag S_STMCB b fl) = b /\
  f_stmpre (set_flag S_STMPRE b fl) = b /\ f_stmng (set_flag S_STMNG b fl) = b /\
  f_twoval (set_flag S_TWOVAL b fl) = b /\ f_stmrew (set_flag S_STMREW b fl) = b /\
  f_grd (set_flag S_GRD b fl) = b /\ f_com (set_flag S_COM b fl) = b /\ f_stm (set_flag S_STM b fl) = b.
Proof. repeat split. Qed.

(** the recorded finding, flag by flag *)
Corollary cli_bio_ignores c sm fl h text flag b :
  In flag [S_STMCA; S_STMCB; S_STMPRE; S_STMNG; S_TWOVAL] ->
  cli_run c MBio sm (set_flag flag b fl) h text = cli_run c MBio sm fl h text.
Proof.
  intros H. apply cli_ignored. cbn [In] in H.
  destruct H as [<-|[<-|[<-|[<-|[<-|[]]]]]]; reflexivity.
Qed.

Corollary cli_naive_ignores c sm fl h text flag b :
  In flag [S_STMCA; S_STMCB; S_STMPRE; S_STMREW; S_TWOVAL] ->
  cli_run c MNaive sm (set_flag flag b fl) h text = cli_run c MNaive sm fl h text.
Proof.
  intros H. apply cli_ignored. cbn [In] in H.
  destruct H as [<-|[<-|[<-|[<-|[<-|[]]]]]]; reflexivity.
Qed.

Theorem cli_naive_ignores_stmrew2 c sm fl h text b :
  cli_run c MNaive sm (set_stmrew2 b fl) h text = cli_run c MNaive sm fl h text.
Proof. apply cli_naive_depends; reflexivity. Qed.

(** the hybrid arm wires every flag; the biodivine and naive arms ignore the heuristic / only the
    naive and hybrid arms use it *)
Theorem cli_bio_ignores_heuristic c sm fl h h' text :
  cli_run c MBio sm fl h text = cli_run c MBio sm fl h' text.
Proof. apply cli_bio_depends; reflexivity. Qed.

(* ------------------------------------------------------------------ *)
(** * The hypotheses are inhabited: a <- not b, b <- not a through the whole tool *)

From Coq Require Import String Ascii.

Definition bytes (s : String.string) : str := map Ascii.N_of_ascii (String.list_ascii_of_string s).
Arguments bytes s%string_scope.
Definition ex_text : str := bytes "s(b).s(a).ac(a,neg(b)).ac(b,neg(a)).".
Definition ex_flags : flags := mkF true true true false false true true false false false.

Definition ex_ps0 : pstate := fst (parse ex_text).
Definition ex_fs : list (nat * formula) := [(0%nat, FNot (FAtom 1)); (1%nat, FNot (FAtom 0))].

Example ex_parse : parse ex_text = (ex_ps0, true).
Proof. vm_compute. reflexivity. Qed.
Example ex_names : names (sorted_state SLexi ex_ps0) = [bytes "a"; bytes "b"].
Proof. vm_compute. reflexivity. Qed.
Example ex_resolve :
  resolve_acs (names (sorted_state SLexi ex_ps0)) (acs (sorted_state SLexi ex_ps0)) = Some ex_fs.
Proof. vm_compute. reflexivity. Qed.
Example ex_bound : N.of_nat (List.length (names (sorted_state SLexi ex_ps0))) <= VBOT.
Proof. vm_compute. discriminate. Qed.

(** the theorems applied to the example: the three sections of the naive mode print the grounded
    interpretation, the complete interpretations and the stable models of the ADF in the file *)
Example ex_naive_faithful :
  exists o1 o2 o3,
    cli_run cfg_default MNaive SLexi ex_flags HSimple ex_text = Some (0, o1 ++ o2 ++ o3) /\
    sec_if true S_GRD true (grd_lines (sem_from_parser 2 ex_fs) [bytes "a"; bytes "b"]) o1 /\
    sec_if true S_COM true (com_lines (sem_from_parser 2 ex_fs) [bytes "a"; bytes "b"]) o2 /\
    sec_if true S_STM true (stm_lines (sem_from_parser 2 ex_fs) [bytes "a"; bytes "b"]) o3.
Proof.
  pose proof (cli_naive_total cfg_default SLexi ex_text ex_ps0 ex_fs ex_parse ex_resolve ex_bound
                ex_flags HSimple eq_refl) as H.
  rewrite ex_names in H. exact H.
Qed.

Example ex_naive :
  cli_run cfg_default MNaive SLexi ex_flags HSimple ex_text =
  Some (0, [Sec S_GRD true [bytes "u(a) u(b) 
"];
            Sec S_COM true [bytes "u(a) u(b) 
"; bytes "T(a) F(b) 
"; bytes "F(a) T(b) 
"];
            Sec S_STM true [bytes "F(a) T(b) 
"; bytes "T(a) F(b) 
"]]).
Proof. vm_compute. reflexivity. Qed.

Example ex_bio_hybrid_flags :
  option_map (fun r => map sec_flag (snd r)) (cli_run cfg_default MBio SLexi ex_flags HSimple ex_text)
    = Some [S_GRD; S_COM; S_STM; S_STMREW] /\
  option_map (fun r => map sec_flag (snd r)) (cli_run cfg_default MHybrid SLexi ex_flags HSimple ex_text)
    = Some [S_GRD; S_COM; S_STM; S_STMPRE; S_STMREW] /\
  option_map (fun r => map sec_flag (snd r))
    (cli_run cfg_default MHybrid SLexi (mkF true true true true true true true true true true) HSimple ex_text)
    = Some [S_GRD; S_COM; S_TWOVAL; S_STM; S_STMCA; S_STMCB; S_STMPRE; S_STMREW; S_STMNG].
Proof. vm_compute. repeat split. Qed.

Example ex_errors :
  cli_run cfg_default MHybrid SNone ex_flags HSimple (bytes "s(a).ac(a,b).") = Some (101, []) /\
  cli_run cfg_default MBio SNone ex_flags HSimple (bytes "s(a).ac(a,neg(a)") = Some (101, []).
Proof. vm_compute. split; reflexivity. Qed.

Print Assumptions print_interp_spec.
Print Assumptions print_interp_same_interp.
Print Assumptions print_interp_inj.
Print Assumptions cli_malformed.
Print Assumptions cli_undeclared.
Print Assumptions from_parser_total.
Print Assumptions search_safe_holds.
Print Assumptions count_safe_holds.
Print Assumptions cli_naive_faithful.
Print Assumptions cli_naive_total.
Print Assumptions cli_bio_faithful.
Print Assumptions cli_hybrid_faithful.
Print Assumptions cli_hybrid_total.
Print Assumptions cli_none.
Print Assumptions naive_order.
Print Assumptions bio_order.
Print Assumptions hybrid_order.
Print Assumptions cli_sections.
Print Assumptions cli_present_agree.
Print Assumptions cli_modes_agree.
Print Assumptions cli_bio_depends.
Print Assumptions cli_naive_depends.
Print Assumptions cli_ignored.
Print Assumptions cli_bio_ignores.
Print Assumptions cli_naive_ignores.
Print Assumptions cli_naive_ignores_stmrew2.
