(** Executable model of lib/src/parser.rs: the nom grammar transcribed combinator for
    combinator over byte lists, the side effects of parse_statement / parse_ac,
    the sort step and formula_order.  No proofs in this file. *)
From Coq Require Import NArith List Bool.
From ADF Require Import Spec.Spec.
Import ListNotations.
Local Open Scope N_scope.

Definition str := list N.     (* bytes *)

Fixpoint str_eqb (a b : str) : bool :=
  match a, b with
  | [], [] => true
  | x :: r, y :: s => (x =? y) && str_eqb r s
  | _, _ => false
  end.

(** formulas as parsed: atoms are still labels *)
Inductive pform :=
| PBot | PTop | PAtom (x : str) | PNot (f : pform)
| PAnd (f g : pform) | POr (f g : pform) | PImp (f g : pform) | PXor (f g : pform) | PIff (f g : pform).

Definition res (A : Type) := option (str * A).   (* Some (remaining input, value) | recoverable error *)

(** nom::bytes::complete::tag *)
Fixpoint tag (t : str) (inp : str) : res unit :=
  match t with
  | [] => Some (inp, tt)
  | c :: r => match inp with
              | d :: s => if c =? d then tag r s else None
              | [] => None
              end
  end.

Definition is_space (c : N) : bool := (c =? 32) || (c =? 9) || (c =? 10) || (c =? 13).
Definition is_alnum (c : N) : bool :=
  ((48 <=? c) && (c <=? 57)) || ((65 <=? c) && (c <=? 90)) || ((97 <=? c) && (c <=? 122)).

(** multispace0 *)
Fixpoint multispace0 (inp : str) : str :=
  match inp with
  | c :: r => if is_space c then multispace0 r else inp
  | [] => []
  end.

(** alphanumeric1 *)
Fixpoint take_alnum (inp : str) : str * str :=   (* (taken, rest) *)
  match inp with
  | c :: r => if is_alnum c then let '(t, s) := take_alnum r in (c :: t, s) else ([], inp)
  | [] => ([], [])
  end.
Definition alphanumeric1 (inp : str) : res str :=
  match take_alnum inp with
  | ([], _) => None
  | (t, r) => Some (r, t)
  end.

(** take_until(quote): everything before the first double quote (byte 34); error if there is none *)
Fixpoint take_until_quote (inp : str) : res str :=
  match inp with
  | [] => None
  | c :: r => if c =? 34 then Some (inp, [])
              else match take_until_quote r with
                   | Some (rest, t) => Some (rest, c :: t)
                   | None => None
                   end
  end.

(** AdfParser::atomic = alt((delimited(tag(quote), take_until(quote), tag(quote)), alphanumeric1)) *)
Definition atomic (inp : str) : res str :=
  match (match tag [34] inp with
         | Some (r1, _) =>
           match take_until_quote r1 with
           | Some (r2, lbl) => match tag [34] r2 with Some (r3, _) => Some (r3, lbl) | None => None end
           | None => None
           end
         | None => None
         end) with
  | Some x => Some x
  | None => alphanumeric1 inp
  end.

Definition S_AND : str := [97;110;100].   Definition S_OR : str := [111;114].
Definition S_IMP : str := [105;109;112].  Definition S_XOR : str := [120;111;114].
Definition S_IFF : str := [105;102;102].  Definition S_NEG : str := [110;101;103].
Definition S_C : str := [99].  Definition S_V : str := [118].  Definition S_F : str := [102].
Definition S_LP : str := [40]. Definition S_RP : str := [41].  Definition S_COMMA : str := [44].
Definition S_DOT : str := [46]. Definition S_S : str := [115]. Definition S_AC : str := [97;99].

(** AdfParser::constant *)
Definition constant_p (inp : str) : res pform :=
  let one (l : str) (v : pform) :=
    match tag S_C inp with
    | Some (r1, _) => match tag S_LP r1 with
      | Some (r2, _) => match tag l r2 with
        | Some (r3, _) => match tag S_RP r3 with Some (r4, _) => Some (r4, v) | None => None end
        | None => None end
      | None => None end
    | None => None end in
  match one S_V PTop with Some x => Some x | None => one S_F PBot end.

(** delimited(multispace0, tag(comma), multispace0) *)
Definition comma_sep (inp : str) : res unit :=
  match tag S_COMMA (multispace0 inp) with
  | Some (r, _) => Some (multispace0 r, tt)
  | None => None
  end.

(** AdfParser::formula = alt((constant, binary_op, unary_op, atomic_term)); fuel = input length + 1 *)
Fixpoint formula_f (fuel : nat) (inp : str) : res pform :=
  match fuel with
  | O => None
  | S f =>
    let pair (inp : str) : res (pform * pform) :=     (* formula_pair *)
      match tag S_LP inp with
      | Some (r1, _) =>
        match formula_f f r1 with
        | Some (r2, a) =>
          match comma_sep r2 with
          | Some (r3, _) =>
            match formula_f f r3 with
            | Some (r4, b) => match tag S_RP r4 with Some (r5, _) => Some (r5, (a, b)) | None => None end
            | None => None end
          | None => None end
        | None => None end
      | None => None end in
    let binop (kw : str) (mk : pform -> pform -> pform) : res pform :=
      match tag kw inp with
      | Some (r1, _) => match pair r1 with Some (r2, (a, b)) => Some (r2, mk a b) | None => None end
      | None => None end in
    let unary : res pform :=
      match tag S_NEG inp with
      | Some (r1, _) => match tag S_LP r1 with
        | Some (r2, _) => match formula_f f r2 with
          | Some (r3, a) => match tag S_RP r3 with Some (r4, _) => Some (r4, PNot a) | None => None end
          | None => None end
        | None => None end
      | None => None end in
    match constant_p inp with Some x => Some x | None =>
    match binop S_AND PAnd with Some x => Some x | None =>
    match binop S_OR POr with Some x => Some x | None =>
    match binop S_IMP PImp with Some x => Some x | None =>
    match binop S_XOR PXor with Some x => Some x | None =>
    match binop S_IFF PIff with Some x => Some x | None =>
    match unary with Some x => Some x | None =>
    match atomic inp with Some (r, l) => Some (r, PAtom l) | None => None end
    end end end end end end end
  end.
Definition formula_p (inp : str) : res pform := formula_f (S (length inp)) inp.

(** terminated(tag(dot), multispace0) *)
Definition dot_ws (inp : str) : res unit :=
  match tag S_DOT inp with Some (r, _) => Some (multispace0 r, tt) | None => None end.

(** AdfParser::statement then the terminator *)
Definition statement_fact (inp : str) : res str :=
  match tag S_S inp with
  | Some (r1, _) => match tag S_LP r1 with
    | Some (r2, _) => match atomic r2 with
      | Some (r3, l) => match tag S_RP r3 with
        | Some (r4, _) => match dot_ws r4 with Some (r5, _) => Some (r5, l) | None => None end
        | None => None end
      | None => None end
    | None => None end
  | None => None end.

(** AdfParser::ac then the terminator *)
Definition ac_fact (inp : str) : res (str * pform) :=
  match tag S_AC inp with
  | Some (r1, _) => match tag S_LP r1 with
    | Some (r2, _) => match atomic r2 with
      | Some (r3, l) => match comma_sep r3 with
        | Some (r4, _) => match formula_p r4 with
          | Some (r5, f) => match tag S_RP r5 with
            | Some (r6, _) => match dot_ws r6 with Some (r7, _) => Some (r7, (l, f)) | None => None end
            | None => None end
          | None => None end
        | None => None end
      | None => None end
    | None => None end
  | None => None end.

(** parser state: namelist (dict = position in namelist), formulae with their names, in insertion order *)
Record pstate := mkP { names : list str; acs : list (str * pform) }.
Definition pinit : pstate := mkP [] [].

Fixpoint index_of (x : str) (l : list str) (i : nat) : option nat :=
  match l with
  | [] => None
  | y :: r => if str_eqb x y then Some i else index_of x r (S i)
  end.

(** one iteration of many1(alt((parse_statement, parse_ac))) with the side effects *)
Definition fact (ps : pstate) (inp : str) : option (str * pstate) :=
  match statement_fact inp with
  | Some (r, l) =>
    Some (r, match index_of l (names ps) 0 with
             | Some _ => ps
             | None => mkP (names ps ++ [l]) (acs ps) end)
  | None =>
    match ac_fact inp with
    | Some (r, (l, f)) => Some (r, mkP (names ps) (acs ps ++ [(l, f)]))
    | None => None
    end
  end.

(** many1: repeat until the first recoverable error; nom also stops with an error if an
    iteration consumes nothing, which cannot happen here (every fact consumes its dot) *)
Fixpoint facts_f (fuel : nat) (ps : pstate) (inp : str) : str * pstate :=
  match fuel with
  | O => (inp, ps)
  | S f => match fact ps inp with
           | Some (r, ps') => facts_f f ps' r
           | None => (inp, ps)
           end
  end.

(** AdfParser::parse = all_consuming(many1(...)).
    Returns the final state and whether the parse succeeded; the state is returned in both
    cases because the side effects of the facts parsed before an error persist. *)
Definition parse (inp : str) : pstate * bool :=
  match fact pinit inp with
  | None => (pinit, false)
  | Some (r, ps1) =>
    let '(rest, ps) := facts_f (length inp) ps1 r in
    (ps, match rest with [] => true | _ => false end)
  end.

(** a further call of parse() on the SAME parser object: the name list and the conditions collected so far stay,
    the new facts are added behind them ([parse] is the first call) *)
Definition parse_from (ps0 : pstate) (inp : str) : pstate * bool :=
  match fact ps0 inp with
  | None => (ps0, false)
  | Some (r, ps1) =>
    let '(rest, ps) := facts_f (length inp) ps1 r in
    (ps, match rest with [] => true | _ => false end)
  end.
Lemma parse_from_pinit inp : parse_from pinit inp = parse inp.
Proof. reflexivity. Qed.

(** byte-wise lexicographic order on labels (String's Ord), used by varsort_lexi *)
Fixpoint str_leb (a b : str) : bool :=
  match a, b with
  | [], _ => true
  | _ :: _, [] => false
  | x :: r, y :: s => if x <? y then true else if y <? x then false else str_leb r s
  end.
Fixpoint insert_sorted (x : str) (l : list str) : list str :=
  match l with
  | [] => [x]
  | y :: r => if str_leb x y then x :: l else y :: insert_sorted x r
  end.
Definition sort_lexi (l : list str) : list str := fold_right insert_sorted [] l.
Definition varsort_lexi (ps : pstate) : pstate := mkP (sort_lexi (names ps)) (acs ps).

(** resolve labels through the dictionary; None = the Rust code panics
    (Variable should exist / Dictionary should contain all the used formulanames) *)
Fixpoint resolve (nm : list str) (f : pform) : option formula :=
  match f with
  | PBot => Some FBot | PTop => Some FTop
  | PAtom x => match index_of x nm 0 with Some i => Some (FAtom (N.of_nat i)) | None => None end
  | PNot g => match resolve nm g with Some a => Some (FNot a) | None => None end
  | PAnd g h => match resolve nm g, resolve nm h with Some a, Some b => Some (FAnd a b) | _, _ => None end
  | POr g h => match resolve nm g, resolve nm h with Some a, Some b => Some (FOr a b) | _, _ => None end
  | PImp g h => match resolve nm g, resolve nm h with Some a, Some b => Some (FImp a b) | _, _ => None end
  | PXor g h => match resolve nm g, resolve nm h with Some a, Some b => Some (FXor a b) | _, _ => None end
  | PIff g h => match resolve nm g, resolve nm h with Some a, Some b => Some (FIff a b) | _, _ => None end
  end.

(** formula_order + the per-fact resolution of from_parser: (target position, formula) in
    insertion order *)
Fixpoint resolve_acs (nm : list str) (l : list (str * pform)) : option (list (nat * formula)) :=
  match l with
  | [] => Some []
  | (name, f) :: r =>
    match index_of name nm 0, resolve nm f, resolve_acs nm r with
    | Some pos, Some g, Some r' => Some ((pos, g) :: r')
    | _, _, _ => None
    end
  end.
