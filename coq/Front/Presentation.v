(** Property C10, part B: answers do not depend on presentation.

    From documents to label maps: the order of the facts, the variable order (declaration
    order, lexicographic sorting, any other permutation of the name list) and a consistent
    renaming of the statements change neither the grounded interpretation nor the sets of
    complete, stable and two-valued models, read as maps from statement label to truth value.

    Constructive, no axioms, no functional extensionality. *)
From Coq Require Import NArith List Bool Lia Arith Permutation Sorted.
From ADF Require Import Spec.Spec Spec.Theory Spec.Equivariance Adf.Iter Adf.NativeBase
  Adf.NativeExamples Front.Parser Front.ParserProofs.
Import ListNotations.

(* ------------------------------------------------------------------ *)
(** * Renaming the atoms of a formula *)

Fixpoint rename_formula (r : N -> N) (f : formula) : formula :=
  match f with
  | FBot => FBot | FTop => FTop
  | FAtom x => FAtom (r x)
  | FNot g => FNot (rename_formula r g)
  | FAnd g h => FAnd (rename_formula r g) (rename_formula r h)
  | FOr g h => FOr (rename_formula r g) (rename_formula r h)
  | FImp g h => FImp (rename_formula r g) (rename_formula r h)
  | FXor g h => FXor (rename_formula r g) (rename_formula r h)
  | FIff g h => FIff (rename_formula r g) (rename_formula r h)
  end.

Lemma feval_rename r f a : feval (rename_formula r f) a = feval f (fun x => a (r x)).
Proof.
  induction f; cbn [rename_formula feval]; try reflexivity;
    try rewrite IHf; try rewrite IHf1, IHf2; reflexivity.
Qed.

(* ------------------------------------------------------------------ *)
(** * [index_of] is the position function *)

Definition spos (x : str) (l : list str) : nat := idx str_eq_dec x l.

Lemma str_eqb_refl a : str_eqb a a = true.
Proof. apply str_eqb_eq. reflexivity. Qed.

Lemma str_eqb_neq a b : a <> b -> str_eqb a b = false.
Proof.
  intros NE. destruct (str_eqb a b) eqn:E; [|reflexivity].
  apply str_eqb_eq in E. contradiction.
Qed.

Lemma index_of_In x l : forall i, In x l -> index_of x l i = Some (i + spos x l).
Proof.
  unfold spos. induction l as [|y l IH]; intros i Hin; cbn [index_of idx In] in *; [tauto|].
  destruct (str_eq_dec y x) as [E|NE].
  - subst y. rewrite str_eqb_refl. f_equal. lia.
  - rewrite str_eqb_neq by congruence.
    destruct Hin as [Hin|Hin]; [contradiction|].
    rewrite (IH (S i) Hin). f_equal. lia.
Qed.

Lemma index_of_Some x l i k : index_of x l i = Some k -> In x l /\ k = i + spos x l.
Proof.
  intros H. destruct (in_dec str_eq_dec x l) as [Hin|Hnin].
  - rewrite (index_of_In x l i Hin) in H. inversion H. auto.
  - apply (index_of_none x l i) in Hnin. congruence.
Qed.

Lemma index_of_0_Some x l k : index_of x l 0 = Some k -> In x l /\ k = spos x l.
Proof. intros H. apply index_of_Some in H. exact H. Qed.

Lemma spos_lt x l : In x l -> spos x l < length l.
Proof. apply idx_lt_In. Qed.

Lemma nth_spos x l : In x l -> nth (spos x l) l [] = x.
Proof. apply nth_idx. Qed.

Lemma spos_nth l i : NoDup l -> i < length l -> spos (nth i l []) l = i.
Proof. intros ND Hi. apply idx_nth; assumption. Qed.

(* ------------------------------------------------------------------ *)
(** * Resolving labels through another name list = renaming atoms *)

(** old statement number [j] (position in [nm]) is number [sigma nm nm' j] in [nm'] *)
Definition sigma (nm nm' : list str) (j : nat) : nat := spos (nth j nm []) nm'.
Definition sigmaN (nm nm' : list str) (x : N) : N := N.of_nat (sigma nm nm' (N.to_nat x)).
Definition rename_fact (nm nm' : list str) (pf : nat * formula) : nat * formula :=
  (sigma nm nm' (fst pf), rename_formula (sigmaN nm nm') (snd pf)).

Ltac res_inv H :=
  repeat match type of H with
         | match ?x with _ => _ end = Some _ => destruct x eqn:?; try discriminate H
         end;
  inversion H; subst; clear H.

Lemma resolve_atoms nm f : forall g, resolve nm f = Some g -> atoms_lt (N.of_nat (length nm)) g.
Proof.
  induction f; intros g0 H; cbn [resolve] in H; res_inv H; cbn [atoms_lt]; auto.
  match goal with E : index_of _ _ _ = Some _ |- _ => apply index_of_0_Some in E; destruct E as [Hin ->] end.
  pose proof (spos_lt _ _ Hin). lia.
Qed.

Lemma resolve_incl nm nm' f : incl nm nm' ->
  forall g, resolve nm f = Some g -> resolve nm' f = Some (rename_formula (sigmaN nm nm') g).
Proof.
  intros I. induction f; intros g0 H; cbn [resolve] in H; res_inv H; cbn [resolve rename_formula];
    try reflexivity;
    try (rewrite (IHf _ eq_refl); reflexivity);
    try (rewrite (IHf1 _ eq_refl), (IHf2 _ eq_refl); reflexivity).
  match goal with E : index_of _ _ _ = Some _ |- _ => apply index_of_0_Some in E; destruct E as [Hin ->] end.
  rewrite (index_of_In x nm' 0 (I _ Hin)). cbn [plus].
  unfold sigmaN, sigma. rewrite Nat2N.id. rewrite (nth_spos x nm Hin). reflexivity.
Qed.

(** the statement asked for: through a permuted name list *)
Lemma resolve_perm nm nm' f g :
  NoDup nm -> Permutation nm nm' -> resolve nm f = Some g ->
  exists g', resolve nm' f = Some g' /\ g' = rename_formula (sigmaN nm nm') g.
Proof.
  intros _ P H. eexists. split; [|reflexivity].
  apply resolve_incl; [|exact H]. intros x Hx. eapply Permutation_in; eauto.
Qed.

Lemma resolve_acs_incl nm nm' acs : incl nm nm' ->
  forall fs, resolve_acs nm acs = Some fs ->
             resolve_acs nm' acs = Some (map (rename_fact nm nm') fs).
Proof.
  intros I. induction acs as [|[name f] acs IH]; intros fs H; cbn [resolve_acs] in H.
  - inversion H. reflexivity.
  - res_inv H. cbn [resolve_acs map].
    match goal with E : index_of _ _ _ = Some _ |- _ => apply index_of_0_Some in E; destruct E as [Hin ->] end.
    rewrite (index_of_In name nm' 0 (I _ Hin)). cbn [plus].
    match goal with E : resolve _ _ = Some _ |- _ => rewrite (resolve_incl nm nm' f I _ E) end.
    rewrite (IH _ eq_refl). unfold rename_fact at 2. cbn [fst snd].
    unfold sigma. rewrite (nth_spos name nm Hin). reflexivity.
Qed.

(** what [resolve_acs] produces is well-formed *)
Definition fact_ok (n : nat) (pf : nat * formula) : Prop :=
  fst pf < n /\ atoms_lt (N.of_nat n) (snd pf).

Lemma resolve_acs_ok nm acs : forall fs, resolve_acs nm acs = Some fs -> Forall (fact_ok (length nm)) fs.
Proof.
  induction acs as [|[name f] acs IH]; intros fs H; cbn [resolve_acs] in H.
  - inversion H. constructor.
  - res_inv H. constructor; [|apply IH; reflexivity].
    match goal with E : index_of _ _ _ = Some _ |- _ => apply index_of_0_Some in E; destruct E as [Hin ->] end.
    split; cbn [fst snd]; [apply spos_lt; exact Hin|]. eapply resolve_atoms; eauto.
Qed.

Lemma resolve_acs_fst nm acs : forall fs, resolve_acs nm acs = Some fs ->
  map fst fs = map (fun x => spos x nm) (map fst acs) /\ Forall (fun x => In x nm) (map fst acs).
Proof.
  induction acs as [|[name f] acs IH]; intros fs H; cbn [resolve_acs] in H.
  - inversion H. split; [reflexivity|constructor].
  - res_inv H. destruct (IH _ eq_refl) as [E F].
    match goal with E : index_of _ _ _ = Some _ |- _ => apply index_of_0_Some in E; destruct E as [Hin ->] end.
    cbn [map fst]. split; [f_equal; exact E|constructor; assumption].
Qed.

(* ------------------------------------------------------------------ *)
(** * The ADF denoted by a fact list, by lookup *)

(** the formula of the LAST fact for position [i] *)
Fixpoint last_fact (i : nat) (fs : list (nat * formula)) : option formula :=
  match fs with
  | [] => None
  | pf :: r => match last_fact i r with
               | Some h => Some h
               | None => if fst pf =? i then Some (snd pf) else None
               end
  end.

Lemma nth_set_nth {A} (l : list A) x d : forall j i, i < length l ->
  nth i (set_nth l j x) d = if j =? i then x else nth i l d.
Proof.
  induction l as [|y l IH]; intros j i Hi; cbn [length] in Hi; [lia|].
  destruct j as [|j], i as [|i]; cbn [set_nth nth Nat.eqb]; try reflexivity.
  apply IH. lia.
Qed.

Lemma sem_facts_length fs : forall D0, length (sem_facts D0 fs) = length D0.
Proof.
  unfold sem_facts. induction fs as [|pf fs IH]; intros D0; cbn [fold_left]; [reflexivity|].
  rewrite IH. apply set_nth_length.
Qed.

Lemma sem_from_parser_length n fs : length (sem_from_parser n fs) = n.
Proof. unfold sem_from_parser. rewrite sem_facts_length. apply repeat_length. Qed.

Lemma sem_facts_nth fs : forall D0 i d, i < length D0 ->
  nth i (sem_facts D0 fs) d = match last_fact i fs with Some g => feval g | None => nth i D0 d end.
Proof.
  unfold sem_facts. induction fs as [|pf fs IH]; intros D0 i d Hi; cbn [fold_left last_fact]; [reflexivity|].
  rewrite IH by (rewrite set_nth_length; exact Hi).
  destruct (last_fact i fs); [reflexivity|].
  rewrite nth_set_nth by exact Hi. destruct (fst pf =? i); reflexivity.
Qed.

Lemma sem_from_parser_nth n fs i : i < n ->
  nth i (sem_from_parser n fs) (fun _ => false) =
  match last_fact i fs with Some g => feval g | None => fun _ => false end.
Proof.
  intros Hi. unfold sem_from_parser. rewrite sem_facts_nth by (rewrite repeat_length; exact Hi).
  destruct (last_fact i fs); [reflexivity|]. apply nth_repeat.
Qed.

Lemma last_fact_In i fs g : last_fact i fs = Some g -> In (i, g) fs.
Proof.
  induction fs as [|[j h] fs IH]; cbn [last_fact fst snd]; [discriminate|].
  destruct (last_fact i fs) as [h'|].
  - intros H. right. apply IH. exact H.
  - destruct (Nat.eqb_spec j i) as [->|NE]; [|discriminate]. intros H. inversion H. left. reflexivity.
Qed.

Lemma last_fact_None i fs : last_fact i fs = None <-> ~ In i (map fst fs).
Proof.
  induction fs as [|[j h] fs IH]; cbn [last_fact map fst snd In]; [tauto|].
  destruct (last_fact i fs) as [h'|].
  - split; [discriminate|]. intros H. exfalso. apply H. right.
    destruct IH as [_ IH]. destruct (in_dec Nat.eq_dec i (map fst fs)) as [Y|N]; [exact Y|].
    specialize (IH N). discriminate.
  - destruct (Nat.eqb_spec j i) as [->|NE].
    + split; [discriminate|]. intros H. exfalso. apply H. left. reflexivity.
    + split; [|reflexivity]. intros _ [H|H]; [contradiction|]. apply (proj1 IH eq_refl H).
Qed.

Lemma last_fact_NoDup i fs g : NoDup (map fst fs) -> In (i, g) fs -> last_fact i fs = Some g.
Proof.
  induction fs as [|[j h] fs IH]; cbn [last_fact map fst snd In]; [tauto|].
  intros ND Hin. inversion ND as [|? ? Hj ND']; subst.
  destruct Hin as [E|Hin].
  - inversion E; subst.
    assert (N : last_fact i fs = None) by (apply last_fact_None; exact Hj).
    rewrite N, Nat.eqb_refl. reflexivity.
  - rewrite (IH ND' Hin). reflexivity.
Qed.

(** fact order: facts with pairwise different targets can be permuted *)
Lemma last_fact_perm i fs fs' :
  NoDup (map fst fs) -> Permutation fs fs' -> last_fact i fs = last_fact i fs'.
Proof.
  intros ND P.
  assert (ND' : NoDup (map fst fs')).
  { eapply Permutation_NoDup; [apply Permutation_map; exact P|exact ND]. }
  destruct (last_fact i fs) as [g|] eqn:E.
  - symmetry. apply last_fact_NoDup; [exact ND'|].
    eapply Permutation_in; [exact P|]. apply last_fact_In. exact E.
  - symmetry. apply last_fact_None. apply last_fact_None in E. intros H. apply E.
    eapply Permutation_in; [apply Permutation_map, Permutation_sym; exact P|exact H].
Qed.

Theorem sem_facts_perm n fs fs' :
  NoDup (map fst fs) -> Permutation fs fs' -> sem_from_parser n fs = sem_from_parser n fs'.
Proof.
  intros ND P. apply (list_eq_of_nth (fun _ => false)).
  - rewrite !sem_from_parser_length. reflexivity.
  - intros i Hi. rewrite sem_from_parser_length in Hi.
    rewrite !sem_from_parser_nth by exact Hi.
    rewrite (last_fact_perm i fs fs' ND P). reflexivity.
Qed.

(** without the side condition the statement is false: a later fact for the same
    statement wins *)
Example sem_facts_perm_refuted :
  exists n fs fs', Permutation fs fs' /\
    ~ adf_eq (sem_from_parser n fs) (sem_from_parser n fs').
Proof.
  exists 1, [(0, FTop); (0, FBot)], [(0, FBot); (0, FTop)]. split; [apply perm_swap|].
  intros H. inversion H as [|f g l l' E _]; subst. specialize (E (fun _ => false)). discriminate E.
Qed.

Lemma sem_from_parser_supported n fs :
  Forall (fact_ok n) fs -> Forall (supported n) (sem_from_parser n fs).
Proof.
  intros OK. unfold sem_from_parser, sem_facts.
  assert (S0 : Forall (supported n) (repeat (fun _ : asg => false) n)).
  { apply Forall_forall. intros f Hf. apply repeat_spec in Hf. subst f. intros a b _. reflexivity. }
  revert S0. generalize (repeat (fun _ : asg => false) n).
  induction OK as [|pf fs [_ A] _ IH]; intros D0 S0; cbn [fold_left]; [exact S0|].
  apply IH. apply Forall_set_nth; [exact S0|]. apply feval_supported. exact A.
Qed.

(** renaming positions and formulas in the fact list *)
Lemma last_fact_map n (s : nat -> nat) (h : formula -> formula) fs j :
  (forall i k, i < n -> k < n -> s i = s k -> i = k) ->
  Forall (fun pf => fst pf < n) fs -> j < n ->
  last_fact (s j) (map (fun pf => (s (fst pf), h (snd pf))) fs) = option_map h (last_fact j fs).
Proof.
  intros Inj OK Hj. induction OK as [|pf fs Hpf _ IH]; cbn [map last_fact fst snd]; [reflexivity|].
  rewrite IH. destruct (last_fact j fs); cbn [option_map]; [reflexivity|].
  destruct (Nat.eqb_spec (fst pf) j) as [->|NE].
  - rewrite Nat.eqb_refl. reflexivity.
  - destruct (Nat.eqb_spec (s (fst pf)) (s j)) as [E|_]; [|reflexivity].
    exfalso. apply NE. apply Inj; assumption.
Qed.

(* ------------------------------------------------------------------ *)
(** * A permuted name list is a permutation of the statements *)

(** position [i] of [nm'] holds the old statement [spos (nth i nm') nm] *)
Definition perm_of (nm nm' : list str) : list nat := map (fun x => spos x nm) nm'.

Lemma map_spos_self l : NoDup l -> map (fun x => spos x l) l = seq 0 (length l).
Proof.
  intros ND. apply (list_eq_of_nth 0).
  - rewrite map_length, seq_length. reflexivity.
  - intros i Hi. rewrite map_length in Hi.
    rewrite (nth_map_lt (fun x => spos x l) l i 0 []) by exact Hi.
    rewrite seq_nth by exact Hi. apply spos_nth; assumption.
Qed.

Lemma perm_of_ok nm nm' : NoDup nm -> Permutation nm nm' -> perm_ok (length nm) (perm_of nm nm').
Proof.
  intros ND P. unfold perm_ok, perm_of. rewrite <- (map_spos_self nm ND).
  apply Permutation_map. apply Permutation_sym. exact P.
Qed.

Lemma perm_of_names nm nm' : incl nm' nm -> permute_list (perm_of nm nm') nm [] = nm'.
Proof.
  intros I. unfold permute_list, perm_of. rewrite map_map.
  rewrite <- (map_id nm') at 2. apply map_ext_in. intros x Hx. apply nth_spos. apply I. exact Hx.
Qed.

Lemma fwd_perm_of nm nm' i : length nm' = length nm -> i < length nm ->
  fwd (perm_of nm nm') i = spos (nth i nm' []) nm.
Proof.
  intros HL Hi. unfold fwd, perm_of.
  apply (nth_map_lt (fun x => spos x nm) nm' i). lia.
Qed.

Lemma inv_perm_of nm nm' j : NoDup nm -> Permutation nm nm' -> j < length nm ->
  inv_of (perm_of nm nm') j = sigma nm nm' j.
Proof.
  intros ND P Hj. pose proof (Permutation_length P) as HL.
  assert (Hin : In (nth j nm []) nm') by (eapply Permutation_in; [exact P|apply nth_In; exact Hj]).
  apply (inv_unique (length nm)).
  - apply perm_of_ok; assumption.
  - unfold sigma. rewrite HL. apply spos_lt. exact Hin.
  - rewrite fwd_perm_of by (unfold sigma; try lia; rewrite HL; apply spos_lt; exact Hin).
    unfold sigma. rewrite (nth_spos _ _ Hin). apply spos_nth; assumption.
Qed.

Lemma sigma_inj nm nm' i k : NoDup nm -> Permutation nm nm' ->
  i < length nm -> k < length nm -> sigma nm nm' i = sigma nm nm' k -> i = k.
Proof.
  intros ND P Hi Hk E. pose proof (perm_of_ok nm nm' ND P) as OK.
  rewrite <- !(inv_perm_of nm nm' _ ND P) in E by assumption.
  rewrite <- (fwd_inv _ _ i OK Hi), <- (fwd_inv _ _ k OK Hk). rewrite E. reflexivity.
Qed.

(* ------------------------------------------------------------------ *)
(** * From documents to ADFs *)

Definition label_map (nm : list str) (v : interp) : list (str * tv) := combine nm v.

Definition adf_of (nm : list str) (acs : list (str * pform)) : option adf :=
  match resolve_acs nm acs with
  | Some fs => Some (sem_from_parser (length nm) fs)
  | None => None
  end.
Definition adf_of_state (ps : pstate) : option adf := adf_of (names ps) (acs ps).

Lemma adf_of_inv nm acs D : adf_of nm acs = Some D ->
  exists fs, resolve_acs nm acs = Some fs /\ D = sem_from_parser (length nm) fs.
Proof.
  unfold adf_of. destruct (resolve_acs nm acs) as [fs|]; [|discriminate].
  intros H. inversion H. eauto.
Qed.

Lemma adf_of_length nm acs D : adf_of nm acs = Some D -> length D = length nm.
Proof. intros H. apply adf_of_inv in H. destruct H as (fs & _ & ->). apply sem_from_parser_length. Qed.

Lemma adf_of_supported nm acs D : adf_of nm acs = Some D -> Forall (supported (length nm)) D.
Proof.
  intros H. apply adf_of_inv in H. destruct H as (fs & R & ->).
  apply sem_from_parser_supported. eapply resolve_acs_ok; eauto.
Qed.

(** the ADF of the document read through a permuted name list is the permuted ADF *)
Theorem adf_of_perm nm nm' acs D :
  NoDup nm -> Permutation nm nm' -> adf_of nm acs = Some D ->
  exists D', adf_of nm' acs = Some D' /\ adf_eq D' (permute_adf (perm_of nm nm') D).
Proof.
  intros ND P H. apply adf_of_inv in H. destruct H as (fs & R & ->).
  pose proof (Permutation_length P) as HL.
  pose proof (perm_of_ok nm nm' ND P) as OK.
  pose proof (perm_length _ _ OK) as HP.
  assert (I : incl nm nm') by (intros x Hx; eapply Permutation_in; eauto).
  pose proof (resolve_acs_ok nm acs fs R) as FOK.
  set (n := length nm) in *. set (p := perm_of nm nm') in *.
  exists (sem_from_parser (length nm') (map (rename_fact nm nm') fs)). split.
  - unfold adf_of. rewrite (resolve_acs_incl nm nm' acs I fs R). reflexivity.
  - rewrite <- HL. fold n. unfold adf_eq.
    apply (Forall2_of_nth feq (fun _ => false) (fun _ => false)).
    + rewrite sem_from_parser_length, permute_adf_length. symmetry. exact HP.
    + intros i Hi. rewrite sem_from_parser_length in Hi.
      rewrite sem_from_parser_nth by exact Hi.
      unfold permute_adf.
      rewrite (nth_map_lt (rename_fun p) _ i _ (fun _ => false))
        by (rewrite permute_list_length; lia).
      rewrite nth_permute_list by (rewrite sem_from_parser_length; lia).
      pose proof (fwd_lt n p i OK Hi) as Hf.
      rewrite sem_from_parser_nth by exact Hf.
      assert (Ei : i = sigma nm nm' (fwd p i)).
      { rewrite <- (inv_perm_of nm nm' _ ND P Hf). symmetry. apply (inv_fwd n p i OK Hi). }
      rewrite Ei at 1. unfold rename_fact.
      rewrite (last_fact_map n (sigma nm nm') (rename_formula (sigmaN nm nm')) fs (fwd p i)).
      * destruct (last_fact (fwd p i) fs) as [g|] eqn:EL; cbn [option_map].
        -- intros a. rewrite feval_rename. unfold rename_fun.
           assert (A : atoms_lt (N.of_nat n) g).
           { apply last_fact_In in EL. rewrite Forall_forall in FOK. apply (FOK _ EL). }
           apply (feval_supported n g A). intros x Hx. unfold sigmaN.
           rewrite <- (inv_perm_of nm nm' _ ND P Hx). reflexivity.
        -- intros a. reflexivity.
      * intros i0 k0. apply sigma_inj; assumption.
      * eapply Forall_impl; [|exact FOK]. intros pf [X _]. exact X.
      * exact Hf.
Qed.

(* ------------------------------------------------------------------ *)
(** * Semantics that are invariant under permutation of the statements *)

Record sem_ok (sem : adf -> interp -> Prop) : Prop := {
  sem_equivariant : forall n p D v,
    perm_ok n p -> length D = n -> length v = n -> Forall (supported n) D ->
    (sem (permute_adf p D) (permute_interp p v) <-> sem D v);
  sem_extensional : forall D D' v, adf_eq D D' -> sem D v -> sem D' v
}.

Lemma Grounded_sem_ok : sem_ok Grounded.
Proof. split; [apply Grounded_permute|apply Grounded_feq]. Qed.

Lemma Complete_sem_ok : sem_ok Complete.
Proof. split; [apply Complete_permute|apply Complete_feq]. Qed.

Lemma Model2_sem_ok : sem_ok Model2.
Proof.
  split; [apply Model2_permute|]. intros D D' v E [C TV]. split; [|exact TV].
  eapply Complete_feq; eauto.
Qed.

Lemma Stable_sem_ok : sem_ok Stable.
Proof. split; [apply Stable_permute|apply Stable_feq]. Qed.

(** the explicit correspondence of answers *)
Theorem answers_permute sem nm nm' acs D :
  sem_ok sem -> NoDup nm -> Permutation nm nm' -> adf_of nm acs = Some D ->
  exists D', adf_of nm' acs = Some D' /\
    forall v, length v = length nm ->
      (sem D' (permute_interp (perm_of nm nm') v) <-> sem D v) /\
      label_map nm' (permute_interp (perm_of nm nm') v)
        = permute_list (perm_of nm nm') (label_map nm v) ([], U) /\
      Permutation (label_map nm' (permute_interp (perm_of nm nm') v)) (label_map nm v).
Proof.
  intros [EQV EXT] ND P H.
  destruct (adf_of_perm nm nm' acs D ND P H) as (D' & H' & E).
  pose proof (perm_of_ok nm nm' ND P) as OK.
  pose proof (adf_of_length _ _ _ H) as LD. pose proof (adf_of_supported _ _ _ H) as SD.
  exists D'. split; [exact H'|]. intros v HV.
  assert (LM : label_map nm' (permute_interp (perm_of nm nm') v)
               = permute_list (perm_of nm nm') (label_map nm v) ([], U)).
  { unfold label_map, permute_interp.
    rewrite <- (perm_of_names nm nm') at 1
      by (intros x Hx; eapply Permutation_in; [apply Permutation_sym; exact P|exact Hx]).
    apply permute_list_combine; [symmetry; exact HV|]. apply perm_Forall_lt. exact OK. }
  split; [|split; [exact LM|]].
  - rewrite <- (EQV _ _ D v OK LD HV SD). split; intros X.
    + eapply EXT; [exact E|exact X].
    + eapply EXT; [apply adf_eq_sym; exact E|exact X].
  - rewrite LM. apply permute_list_Permutation.
    unfold label_map. rewrite combine_length, HV, Nat.min_id. exact OK.
Qed.

(** the headline: the set of answers, read as label maps (finite maps compared up to
    [Permutation]), does not depend on the variable order *)
Theorem label_maps_invariant sem nm nm' acs D :
  sem_ok sem -> NoDup nm -> Permutation nm nm' -> adf_of nm acs = Some D ->
  exists D', adf_of nm' acs = Some D' /\
    forall m : list (str * tv),
      (exists v, sem D v /\ length v = length nm /\ Permutation m (label_map nm v)) <->
      (exists v', sem D' v' /\ length v' = length nm' /\ Permutation m (label_map nm' v')).
Proof.
  intros OKS ND P H.
  destruct (answers_permute sem nm nm' acs D OKS ND P H) as (D' & H' & A).
  pose proof (perm_of_ok nm nm' ND P) as OK.
  pose proof (Permutation_length P) as HL.
  exists D'. split; [exact H'|]. intros m. split.
  - intros (v & Sv & HV & Pm). destruct (A v HV) as (S' & _ & PL).
    exists (permute_interp (perm_of nm nm') v). split; [apply S'; exact Sv|]. split.
    + rewrite permute_interp_length. rewrite (perm_length _ _ OK). exact HL.
    + eapply Permutation_trans; [exact Pm|apply Permutation_sym; exact PL].
  - intros (v' & Sv' & HV' & Pm). rewrite <- HL in HV'.
    destruct (permute_interp_surj _ _ v' OK HV') as [E L].
    destruct (A _ L) as (S' & _ & PL). rewrite E in S', PL.
    exists (permute_interp (inv_perm (perm_of nm nm')) v'). split; [apply S'; exact Sv'|].
    split; [exact L|]. eapply Permutation_trans; [exact Pm|exact PL].
Qed.

Corollary grounded_label_map_invariant nm nm' acs D :
  NoDup nm -> Permutation nm nm' -> adf_of nm acs = Some D ->
  exists D', adf_of nm' acs = Some D' /\
    forall m, (exists v, Grounded D v /\ length v = length nm /\ Permutation m (label_map nm v)) <->
              (exists v', Grounded D' v' /\ length v' = length nm' /\ Permutation m (label_map nm' v')).
Proof. apply label_maps_invariant, Grounded_sem_ok. Qed.

Corollary complete_label_maps_invariant nm nm' acs D :
  NoDup nm -> Permutation nm nm' -> adf_of nm acs = Some D ->
  exists D', adf_of nm' acs = Some D' /\
    forall m, (exists v, Complete D v /\ length v = length nm /\ Permutation m (label_map nm v)) <->
              (exists v', Complete D' v' /\ length v' = length nm' /\ Permutation m (label_map nm' v')).
Proof. apply label_maps_invariant, Complete_sem_ok. Qed.

Corollary model2_label_maps_invariant nm nm' acs D :
  NoDup nm -> Permutation nm nm' -> adf_of nm acs = Some D ->
  exists D', adf_of nm' acs = Some D' /\
    forall m, (exists v, Model2 D v /\ length v = length nm /\ Permutation m (label_map nm v)) <->
              (exists v', Model2 D' v' /\ length v' = length nm' /\ Permutation m (label_map nm' v')).
Proof. apply label_maps_invariant, Model2_sem_ok. Qed.

Corollary stable_label_maps_invariant nm nm' acs D :
  NoDup nm -> Permutation nm nm' -> adf_of nm acs = Some D ->
  exists D', adf_of nm' acs = Some D' /\
    forall m, (exists v, Stable D v /\ length v = length nm /\ Permutation m (label_map nm v)) <->
              (exists v', Stable D' v' /\ length v' = length nm' /\ Permutation m (label_map nm' v')).
Proof. apply label_maps_invariant, Stable_sem_ok. Qed.

(* ------------------------------------------------------------------ *)
(** * Fact order *)

Lemma resolve_acs_Permutation nm acs acs' : Permutation acs acs' ->
  forall fs, resolve_acs nm acs = Some fs ->
  exists fs', resolve_acs nm acs' = Some fs' /\ Permutation fs fs'.
Proof.
  induction 1 as [|[name f] l l' P IH|[n1 f1] [n2 f2] l|l1 l2 l3 P1 IH1 P2 IH2]; intros fs H.
  - exists fs. split; [exact H|apply Permutation_refl].
  - cbn [resolve_acs] in H |- *. res_inv H.
    destruct (IH _ eq_refl) as (fs' & -> & P'). eexists. split; [reflexivity|].
    apply perm_skip. exact P'.
  - cbn [resolve_acs] in H |- *.
    destruct (index_of n2 nm 0) as [p2|]; [|discriminate].
    destruct (resolve nm f2) as [g2|]; [|discriminate].
    destruct (index_of n1 nm 0) as [p1|]; [|discriminate].
    destruct (resolve nm f1) as [g1|]; [|discriminate].
    destruct (resolve_acs nm l) as [r|]; [|discriminate].
    inversion H; subst. eexists. split; [reflexivity|apply perm_swap].
  - destruct (IH1 _ H) as (fs2 & H2 & Q1). destruct (IH2 _ H2) as (fs3 & H3 & Q2).
    exists fs3. split; [exact H3|eapply Permutation_trans; eauto].
Qed.

Lemma NoDup_map_inj_on {A B} (f : A -> B) l :
  (forall x y, In x l -> In y l -> f x = f y -> x = y) -> NoDup l -> NoDup (map f l).
Proof.
  intros Inj ND. induction ND as [|x l Hx ND IH]; cbn [map]; constructor.
  - intros H. apply in_map_iff in H. destruct H as (y & E & Hy).
    assert (y = x) by (apply Inj; [right; exact Hy|left; reflexivity|exact E]). subst y. contradiction.
  - apply IH. intros a b Ha Hb. apply Inj; right; assumption.
Qed.

Lemma resolve_acs_NoDup nm acs fs :
  NoDup (map fst acs) -> resolve_acs nm acs = Some fs -> NoDup (map fst fs).
Proof.
  intros ND R. destruct (resolve_acs_fst nm acs fs R) as [E F]. rewrite E.
  apply NoDup_map_inj_on; [|exact ND]. rewrite Forall_forall in F.
  intros x y Hx Hy Exy. rewrite <- (nth_spos x nm (F _ Hx)), <- (nth_spos y nm (F _ Hy)).
  rewrite Exy. reflexivity.
Qed.

(** a document whose ac-facts have pairwise different heads denotes the same ADF
    whatever the order of the facts *)
Theorem adf_of_fact_order nm acs acs' D :
  NoDup (map fst acs) -> Permutation acs acs' -> adf_of nm acs = Some D -> adf_of nm acs' = Some D.
Proof.
  intros ND P H. apply adf_of_inv in H. destruct H as (fs & R & ->).
  destruct (resolve_acs_Permutation nm acs acs' P fs R) as (fs' & R' & Q).
  unfold adf_of. rewrite R'. f_equal. symmetry.
  apply sem_facts_perm; [|exact Q]. eapply resolve_acs_NoDup; eauto.
Qed.

(** with two facts for one statement the later one wins, so the order matters *)
Example adf_of_fact_order_refuted :
  exists nm acs acs' D D', Permutation acs acs' /\ adf_of nm acs = Some D /\
    adf_of nm acs' = Some D' /\ ~ adf_eq D D'.
Proof.
  exists [[97%N]], [([97%N], PTop); ([97%N], PBot)], [([97%N], PBot); ([97%N], PTop)].
  eexists. eexists. split; [apply perm_swap|]. split; [reflexivity|]. split; [reflexivity|].
  intros H. inversion H as [|f g l l' E _]; subst. specialize (E (fun _ => false)). discriminate E.
Qed.

(** variable order and fact order together *)
Theorem label_maps_invariant_facts sem nm nm' acs acs' D :
  sem_ok sem -> NoDup nm -> Permutation nm nm' ->
  NoDup (map fst acs) -> Permutation acs acs' -> adf_of nm acs = Some D ->
  exists D', adf_of nm' acs' = Some D' /\
    forall m : list (str * tv),
      (exists v, sem D v /\ length v = length nm /\ Permutation m (label_map nm v)) <->
      (exists v', sem D' v' /\ length v' = length nm' /\ Permutation m (label_map nm' v')).
Proof.
  intros OKS ND P NDa Pa H.
  apply (label_maps_invariant sem nm nm' acs' D OKS ND P).
  eapply adf_of_fact_order; eauto.
Qed.

(* ------------------------------------------------------------------ *)
(** * Lexicographic sorting *)

Definition str_le (a b : str) : Prop := str_leb a b = true.

Lemma str_leb_refl a : str_leb a a = true.
Proof. induction a as [|x a IH]; cbn [str_leb]; [reflexivity|]. rewrite N.ltb_irrefl. exact IH. Qed.

Lemma str_leb_total a : forall b, str_leb a b = true \/ str_leb b a = true.
Proof.
  induction a as [|x a IH]; intros [|y b]; cbn [str_leb]; auto.
  destruct (N.ltb_spec x y), (N.ltb_spec y x); auto.
Qed.

Lemma str_leb_trans a : forall b c, str_leb a b = true -> str_leb b c = true -> str_leb a c = true.
Proof.
  induction a as [|x a IH]; intros [|y b] [|z c]; cbn [str_leb]; try (intros; reflexivity || discriminate).
  destruct (N.ltb_spec x y), (N.ltb_spec y x), (N.ltb_spec y z), (N.ltb_spec z y),
    (N.ltb_spec x z), (N.ltb_spec z x); intros L1 L2; try reflexivity; try discriminate; try lia.
  eapply IH; eauto.
Qed.

Lemma str_leb_antisym a : forall b, str_leb a b = true -> str_leb b a = true -> a = b.
Proof.
  induction a as [|x a IH]; intros [|y b]; cbn [str_leb]; try (intros; reflexivity || discriminate).
  destruct (N.ltb_spec x y), (N.ltb_spec y x); intros L1 L2; try discriminate; try lia.
  assert (x = y) by lia. subst. f_equal. apply IH; assumption.
Qed.

Lemma insert_sorted_perm x l : Permutation (insert_sorted x l) (x :: l).
Proof.
  induction l as [|y l IH]; cbn [insert_sorted]; [apply Permutation_refl|].
  destruct (str_leb x y); [apply Permutation_refl|].
  eapply Permutation_trans; [apply perm_skip; exact IH|apply perm_swap].
Qed.

Lemma sort_lexi_perm l : Permutation (sort_lexi l) l.
Proof.
  unfold sort_lexi. induction l as [|x l IH]; cbn [fold_right]; [apply Permutation_refl|].
  eapply Permutation_trans; [apply insert_sorted_perm|]. apply perm_skip. exact IH.
Qed.

Lemma insert_sorted_sorted x l :
  StronglySorted str_le l -> StronglySorted str_le (insert_sorted x l).
Proof.
  induction 1 as [|y l SS IH HF]; cbn [insert_sorted].
  - constructor; constructor.
  - destruct (str_leb x y) eqn:E.
    + constructor; [constructor; assumption|]. constructor; [exact E|].
      eapply Forall_impl; [|exact HF]. intros z Hz. unfold str_le in *. eapply str_leb_trans; eauto.
    + constructor; [exact IH|]. apply Forall_forall. intros z Hz.
      apply (Permutation_in _ (insert_sorted_perm x l)) in Hz. destruct Hz as [<-|Hz].
      * unfold str_le. destruct (str_leb_total x y) as [T|T]; congruence.
      * rewrite Forall_forall in HF. apply HF. exact Hz.
Qed.

(** "reported in byte-wise label order" *)
Lemma sort_lexi_sorted l : StronglySorted (fun a b => str_leb a b = true) (sort_lexi l).
Proof.
  change (StronglySorted str_le (sort_lexi l)).
  unfold sort_lexi. induction l as [|x l IH]; cbn [fold_right]; [constructor|].
  apply insert_sorted_sorted. exact IH.
Qed.

Lemma sort_lexi_nodup l : NoDup l -> NoDup (sort_lexi l).
Proof. intros ND. eapply Permutation_NoDup; [apply Permutation_sym, sort_lexi_perm|exact ND]. Qed.

Lemma sort_lexi_length l : length (sort_lexi l) = length l.
Proof. apply Permutation_length, sort_lexi_perm. Qed.

(** the sorted order is determined by the set of labels alone *)
Lemma sorted_unique l : forall l', StronglySorted str_le l -> StronglySorted str_le l' ->
  Permutation l l' -> l = l'.
Proof.
  induction l as [|a l IH]; intros l' S S' P.
  - apply Permutation_nil in P. auto.
  - destruct l' as [|b l']; [apply Permutation_sym, Permutation_nil in P; discriminate|].
    inversion S as [|? ? Sl Fa]; subst. inversion S' as [|? ? Sl' Fb]; subst.
    rewrite Forall_forall in Fa, Fb.
    assert (a = b).
    { assert (Ha : In a (b :: l')) by (eapply Permutation_in; [exact P|left; reflexivity]).
      assert (Hb : In b (a :: l)) by (eapply Permutation_in; [apply Permutation_sym; exact P|left; reflexivity]).
      destruct Ha as [->|Ha]; [reflexivity|]. destruct Hb as [->|Hb]; [reflexivity|].
      apply str_leb_antisym; [apply Fa; exact Hb|apply Fb; exact Ha]. }
    subst b. f_equal. apply IH; try assumption. eapply Permutation_cons_inv; eauto.
Qed.

Theorem sort_lexi_canonical l l' : Permutation l l' -> sort_lexi l = sort_lexi l'.
Proof.
  intros P. apply sorted_unique; try apply sort_lexi_sorted.
  eapply Permutation_trans; [apply sort_lexi_perm|].
  eapply Permutation_trans; [exact P|apply Permutation_sym, sort_lexi_perm].
Qed.

(** lexicographic sorting: same label maps, statements reported in byte-wise label order *)
Corollary label_maps_invariant_sort_lexi sem ps D :
  sem_ok sem -> NoDup (names ps) -> adf_of_state ps = Some D ->
  exists D', adf_of_state (varsort_lexi ps) = Some D' /\
    StronglySorted (fun a b => str_leb a b = true) (names (varsort_lexi ps)) /\
    NoDup (names (varsort_lexi ps)) /\
    forall m : list (str * tv),
      (exists v, sem D v /\ length v = length (names ps) /\ Permutation m (label_map (names ps) v)) <->
      (exists v', sem D' v' /\ length v' = length (names (varsort_lexi ps)) /\
                  Permutation m (label_map (names (varsort_lexi ps)) v')).
Proof.
  intros OKS ND H. unfold adf_of_state, varsort_lexi in *. cbn [names acs].
  destruct (label_maps_invariant sem (names ps) (sort_lexi (names ps)) (acs ps) D OKS ND
              (Permutation_sym (sort_lexi_perm _)) H) as (D' & H' & A).
  exists D'. split; [exact H'|]. split; [apply sort_lexi_sorted|]. split; [apply sort_lexi_nodup; exact ND|exact A].
Qed.

(* ------------------------------------------------------------------ *)
(** * Consistent renaming of the statements *)

Fixpoint rename_pform (rho : str -> str) (f : pform) : pform :=
  match f with
  | PBot => PBot | PTop => PTop
  | PAtom x => PAtom (rho x)
  | PNot g => PNot (rename_pform rho g)
  | PAnd g h => PAnd (rename_pform rho g) (rename_pform rho h)
  | POr g h => POr (rename_pform rho g) (rename_pform rho h)
  | PImp g h => PImp (rename_pform rho g) (rename_pform rho h)
  | PXor g h => PXor (rename_pform rho g) (rename_pform rho h)
  | PIff g h => PIff (rename_pform rho g) (rename_pform rho h)
  end.

Fixpoint patoms (f : pform) : list str :=
  match f with
  | PBot | PTop => []
  | PAtom x => [x]
  | PNot g => patoms g
  | PAnd g h | POr g h | PImp g h | PXor g h | PIff g h => patoms g ++ patoms h
  end.

Definition rename_acs (rho : str -> str) (acs : list (str * pform)) : list (str * pform) :=
  map (fun e => (rho (fst e), rename_pform rho (snd e))) acs.
Definition labels_of (acs : list (str * pform)) : list str :=
  flat_map (fun e => fst e :: patoms (snd e)) acs.
Definition rename_entry (rho : str -> str) (e : str * tv) : str * tv := (rho (fst e), snd e).

(** injectivity on the labels in use *)
Definition inj_on (L : list str) (rho : str -> str) : Prop :=
  forall x y, In x L -> In y L -> rho x = rho y -> x = y.

Lemma index_of_rename rho x nm :
  (forall y, In y nm -> rho x = rho y -> x = y) ->
  forall i, index_of (rho x) (map rho nm) i = index_of x nm i.
Proof.
  induction nm as [|y nm IH]; intros Inj i; cbn [map index_of]; [reflexivity|].
  destruct (str_eq_dec x y) as [->|NE].
  - rewrite !str_eqb_refl. reflexivity.
  - rewrite (str_eqb_neq x y NE).
    rewrite str_eqb_neq by (intros E; apply NE; apply Inj; [left; reflexivity|exact E]).
    apply IH. intros z Hz. apply Inj. right. exact Hz.
Qed.

Lemma resolve_rename_labels rho nm f :
  (forall x y, In x (patoms f) -> In y nm -> rho x = rho y -> x = y) ->
  resolve (map rho nm) (rename_pform rho f) = resolve nm f.
Proof.
  induction f; intros Inj; cbn [rename_pform resolve patoms] in *; try reflexivity;
    try (rewrite IHf by exact Inj; reflexivity);
    try (rewrite IHf1, IHf2 by (intros a b Ha; apply Inj; apply in_or_app; auto); reflexivity).
  rewrite index_of_rename; [reflexivity|]. intros y Hy. apply Inj; [left; reflexivity|exact Hy].
Qed.

Lemma resolve_acs_rename rho nm acs :
  (forall x y, In x (labels_of acs) -> In y nm -> rho x = rho y -> x = y) ->
  resolve_acs (map rho nm) (rename_acs rho acs) = resolve_acs nm acs.
Proof.
  induction acs as [|[name f] acs IH]; intros Inj; cbn [rename_acs map resolve_acs fst snd]; [reflexivity|].
  cbn [labels_of flat_map fst snd] in Inj.
  rewrite index_of_rename by (intros y Hy; apply Inj; [left; reflexivity|exact Hy]).
  rewrite resolve_rename_labels
    by (intros a b Ha; apply Inj; right; apply in_or_app; left; exact Ha).
  fold (rename_acs rho acs).
  rewrite IH by (intros a b Ha; apply Inj; right; apply in_or_app; right; exact Ha).
  reflexivity.
Qed.

(** the renamed document denotes the identical ADF *)
Theorem adf_of_rename rho nm acs :
  (forall x y, In x (labels_of acs) -> In y nm -> rho x = rho y -> x = y) ->
  adf_of (map rho nm) (rename_acs rho acs) = adf_of nm acs.
Proof.
  intros Inj. unfold adf_of. rewrite (resolve_acs_rename rho nm acs Inj), map_length. reflexivity.
Qed.

(** and the label map of an answer is the renamed label map *)
Lemma label_map_rename rho nm : forall v,
  label_map (map rho nm) v = map (rename_entry rho) (label_map nm v).
Proof.
  unfold label_map. induction nm as [|x nm IH]; intros [|t v]; cbn [map combine]; try reflexivity.
  rewrite IH. reflexivity.
Qed.

(** injectivity is needed: a non-injective renaming can merge two statements *)
Example adf_of_rename_refuted :
  exists rho nm acs D D', adf_of nm acs = Some D /\
    adf_of (map rho nm) (rename_acs rho acs) = Some D' /\ ~ adf_eq D D'.
Proof.
  exists (fun _ => [97%N]), [[97%N]; [98%N]], [([98%N], PTop)].
  eexists. eexists. split; [reflexivity|]. split; [reflexivity|].
  intros H. inversion H as [|f g l l' E _]; subst. specialize (E (fun _ => false)). discriminate E.
Qed.

(* ------------------------------------------------------------------ *)
(** * All presentation changes together *)

Lemma in_labels_of_head acs x : In x (map fst acs) -> In x (labels_of acs).
Proof.
  unfold labels_of. intros H. apply in_map_iff in H. destruct H as (e & <- & He).
  apply in_flat_map. exists e. split; [exact He|left; reflexivity].
Qed.

(** rename the statements injectively, then reorder the name list (e.g. by sorting) and the
    facts: the answers, as label maps, are the renamed answers *)
Theorem presentation_invariant sem rho nm nm' acs acs' D :
  sem_ok sem -> NoDup nm -> NoDup (map fst acs) ->
  inj_on (nm ++ labels_of acs) rho ->
  Permutation (map rho nm) nm' -> Permutation (rename_acs rho acs) acs' ->
  adf_of nm acs = Some D ->
  exists D', adf_of nm' acs' = Some D' /\
    forall m : list (str * tv),
      (exists v, sem D v /\ length v = length nm /\
                 Permutation m (map (rename_entry rho) (label_map nm v))) <->
      (exists v', sem D' v' /\ length v' = length nm' /\ Permutation m (label_map nm' v')).
Proof.
  intros OKS ND NDa Inj P Pa H.
  assert (H1 : adf_of (map rho nm) (rename_acs rho acs) = Some D).
  { rewrite adf_of_rename; [exact H|]. intros x y Hx Hy. apply Inj; apply in_or_app; auto. }
  assert (ND1 : NoDup (map rho nm)).
  { apply NoDup_map_inj_on; [|exact ND]. intros x y Hx Hy. apply Inj; apply in_or_app; auto. }
  assert (NDa1 : NoDup (map fst (rename_acs rho acs))).
  { unfold rename_acs. rewrite map_map. cbn [fst]. rewrite <- (map_map fst rho).
    apply NoDup_map_inj_on; [|exact NDa]. intros x y Hx Hy.
    apply Inj; apply in_or_app; right; apply in_labels_of_head; assumption. }
  destruct (label_maps_invariant_facts sem (map rho nm) nm' _ acs' D OKS ND1 P NDa1 Pa H1)
    as (D' & H' & A).
  exists D'. split; [exact H'|]. intros m. rewrite <- A. rewrite map_length.
  split; intros (v & Sv & HV & Pm); exists v; (split; [exact Sv|split; [exact HV|]]).
  - rewrite label_map_rename. exact Pm.
  - rewrite <- label_map_rename. exact Pm.
Qed.

(* ------------------------------------------------------------------ *)
(** * Documents: reordering the s/ac facts of the input text *)

Lemma parse_names_NoDup s ps b : parse s = (ps, b) -> NoDup (names ps).
Proof.
  intros H. apply parse_inv in H.
  destruct H as [(_ & -> & _)|(d & rest & _ & _ & _ & -> & _)].
  - constructor.
  - cbn [state_of names]. apply dedup_NoDup.
Qed.

Lemma flat_map_Permutation {A B} (f : A -> list B) l l' :
  Permutation l l' -> Permutation (flat_map f l) (flat_map f l').
Proof.
  induction 1 as [|x l l' P IH|x y l|l1 l2 l3 P1 IH1 P2 IH2]; cbn [flat_map].
  - apply Permutation_refl.
  - apply Permutation_app_head. exact IH.
  - rewrite !app_assoc. apply Permutation_app_tail. apply Permutation_app_comm.
  - eapply Permutation_trans; eauto.
Qed.

(** permuting the facts of a document permutes the declared names and the ac-facts *)
Lemma state_of_Permutation d d' : Permutation d d' ->
  Permutation (names (state_of d)) (names (state_of d')) /\
  Permutation (acs (state_of d)) (acs (state_of d')).
Proof.
  intros P. cbn [state_of names acs]. split.
  - apply NoDup_Permutation; try apply dedup_NoDup.
    intros x. rewrite !dedup_In. unfold ds_bodies.
    split; apply Permutation_in; [|apply Permutation_sym]; apply flat_map_Permutation; exact P.
  - unfold ac_list. apply flat_map_Permutation. exact P.
Qed.

(** the facts of a document (s- and ac-facts, in any interleaving) can be reordered
    when no statement has two ac-facts: same answers as label maps, with and without
    lexicographic sorting; with sorting even the reported order is identical *)
Theorem doc_fact_order sem d d' D :
  sem_ok sem -> Permutation d d' -> NoDup (map fst (ac_list d)) ->
  adf_of_state (state_of d) = Some D ->
  (exists D', adf_of_state (state_of d') = Some D' /\
     forall m : list (str * tv),
       (exists v, sem D v /\ length v = length (names (state_of d)) /\
                  Permutation m (label_map (names (state_of d)) v)) <->
       (exists v', sem D' v' /\ length v' = length (names (state_of d')) /\
                   Permutation m (label_map (names (state_of d')) v'))) /\
  (exists D', adf_of_state (varsort_lexi (state_of d')) = Some D' /\
     names (varsort_lexi (state_of d')) = names (varsort_lexi (state_of d)) /\
     StronglySorted (fun a b => str_leb a b = true) (names (varsort_lexi (state_of d'))) /\
     forall m : list (str * tv),
       (exists v, sem D v /\ length v = length (names (state_of d)) /\
                  Permutation m (label_map (names (state_of d)) v)) <->
       (exists v', sem D' v' /\ length v' = length (names (varsort_lexi (state_of d'))) /\
                   Permutation m (label_map (names (varsort_lexi (state_of d'))) v'))).
Proof.
  intros OKS P NDa H. destruct (state_of_Permutation d d' P) as [Pn Pa].
  assert (ND : NoDup (names (state_of d))) by (cbn [state_of names]; apply dedup_NoDup).
  unfold adf_of_state in *. split.
  - apply (label_maps_invariant_facts sem _ _ _ _ D OKS ND Pn NDa Pa H).
  - unfold varsort_lexi. cbn [names acs].
    assert (Ps : Permutation (dedup (ds_bodies d)) (sort_lexi (dedup (ds_bodies d')))).
    { eapply Permutation_trans; [exact Pn|apply Permutation_sym, sort_lexi_perm]. }
    destruct (label_maps_invariant_facts sem _ _ _ _ D OKS ND Ps NDa Pa H) as (D' & H' & A).
    exists D'. split; [exact H'|]. split; [|split; [apply sort_lexi_sorted|exact A]].
    apply sort_lexi_canonical. apply Permutation_sym. exact Pn.
Qed.

(* ------------------------------------------------------------------ *)
(** * A worked instance (the hypotheses are satisfiable) *)

(** s(b). s(a). ac(b,neg(a)). ac(a,neg(b)).  - declaration order b, a *)
Definition ex_ps : pstate :=
  mkP [[98%N]; [97%N]] [([98%N], PNot (PAtom [97%N])); ([97%N], PNot (PAtom [98%N]))].

Example ex_ps_adf : adf_of_state ex_ps = Some exD2.
Proof. reflexivity. Qed.

Example ex_ps_sorted :
  names (varsort_lexi ex_ps) = [[97%N]; [98%N]] /\ perm_of (names ex_ps) (names (varsort_lexi ex_ps)) = [1; 0].
Proof. split; reflexivity. Qed.

(** the stable model b := T, a := F is found again, under the sorted order, as the same label map *)
Example ex_ps_stable_sorted :
  exists D' v', adf_of_state (varsort_lexi ex_ps) = Some D' /\ Stable D' v' /\
    Permutation [([98%N], T); ([97%N], F)] (label_map [[97%N]; [98%N]] v').
Proof.
  assert (ND : NoDup (names ex_ps)).
  { cbn. repeat constructor; cbn; intuition discriminate. }
  destruct (label_maps_invariant_sort_lexi Stable ex_ps exD2 Stable_sem_ok ND ex_ps_adf)
    as (D' & H' & _ & _ & A).
  destruct (proj1 (A [([98%N], T); ([97%N], F)])) as (v' & S' & _ & P').
  - exists [T; F]. split; [exact exD2_stable|]. split; [reflexivity|apply Permutation_refl].
  - exists D', v'. auto.
Qed.

Print Assumptions feval_rename.
Print Assumptions resolve_perm.
Print Assumptions sem_facts_perm.
Print Assumptions adf_of_perm.
Print Assumptions answers_permute.
Print Assumptions label_maps_invariant.
Print Assumptions grounded_label_map_invariant.
Print Assumptions complete_label_maps_invariant.
Print Assumptions model2_label_maps_invariant.
Print Assumptions stable_label_maps_invariant.
Print Assumptions adf_of_fact_order.
Print Assumptions label_maps_invariant_facts.
Print Assumptions sort_lexi_perm.
Print Assumptions sort_lexi_sorted.
Print Assumptions sort_lexi_nodup.
Print Assumptions sort_lexi_canonical.
Print Assumptions label_maps_invariant_sort_lexi.
Print Assumptions adf_of_rename.
Print Assumptions label_map_rename.
Print Assumptions presentation_invariant.
Print Assumptions doc_fact_order.
