(** Correctness of the parser model (Front/Parser.v) against the documented grammar.

    The grammar is DEFINED here as a renderer: a document is a list of facts with explicit
    layout (whitespace strings) and labels; [render_doc] writes it out as bytes.
      - [parse_render]  (completeness): every well-formed document is accepted and yields
                        exactly the written statements and formulas;
      - [parse_sound]   (soundness): every accepted text is the rendering of a well-formed
                        document and the resulting state is the state of that document.
    No axioms, nothing admitted. *)
From Coq Require Import NArith List Bool Lia.
From Coq Require String Ascii.
From ADF Require Import Front.Parser.
Import ListNotations.
Local Open Scope N_scope.

(* ------------------------------------------------------------------ *)
(** * The grammar, as a renderer *)

(** labels: a non-empty run of ASCII letters/digits, or a double-quoted string without a
    double quote (byte 34) inside *)
Record label := mkL { quoted : bool; body : str }.
Definition wf_label (l : label) : Prop :=
  if quoted l then ~ In 34 (body l)
  else (body l <> [] /\ forallb is_alnum (body l) = true).
Definition render_label (l : label) : str :=
  if quoted l then [34] ++ body l ++ [34] else body l.

(** whitespace strings: plain byte strings with a side condition *)
Definition is_ws (w : str) : Prop := forallb is_space w = true.

Inductive binop := BAnd | BOr | BImp | BXor | BIff.

(** formulas with labels as atoms and a layout at every comma
    (w1 / w2 = whitespace before / after the comma) *)
Inductive dform :=
| DBot | DTop | DAtom (l : label) | DNot (f : dform)
| DBin (op : binop) (w1 w2 : str) (f g : dform).

(** facts, with the layout at the comma and after the dot *)
Inductive dfact :=
| DS (l : label) (after : str)
| DAc (l : label) (w1 w2 : str) (f : dform) (after : str).
Definition doc := list dfact.

Definition kw_of (op : binop) : str :=
  match op with
  | BAnd => [97;110;100]   (* and *)
  | BOr  => [111;114]      (* or  *)
  | BImp => [105;109;112]  (* imp *)
  | BXor => [120;111;114]  (* xor *)
  | BIff => [105;102;102]  (* iff *)
  end.

Fixpoint render_form (f : dform) : str :=
  match f with
  | DBot => [99;40;102;41]                                     (* c(f) *)
  | DTop => [99;40;118;41]                                     (* c(v) *)
  | DAtom l => render_label l
  | DNot g => [110;101;103;40] ++ render_form g ++ [41]        (* neg( g ) *)
  | DBin op w1 w2 g h =>                                       (* op( g w1 , w2 h ) *)
    kw_of op ++ [40] ++ render_form g ++ w1 ++ [44] ++ w2 ++ render_form h ++ [41]
  end.

Definition render_fact (x : dfact) : str :=
  match x with
  | DS l after =>                                              (* s( l ). after *)
    [115;40] ++ render_label l ++ [41;46] ++ after
  | DAc l w1 w2 f after =>                                     (* ac( l w1 , w2 f ). after *)
    [97;99;40] ++ render_label l ++ w1 ++ [44] ++ w2 ++ render_form f ++ [41;46] ++ after
  end.

Definition render_doc (d : doc) : str := flat_map render_fact d.

Fixpoint wf_form (f : dform) : Prop :=
  match f with
  | DBot | DTop => True
  | DAtom l => wf_label l
  | DNot g => wf_form g
  | DBin _ w1 w2 g h => is_ws w1 /\ is_ws w2 /\ wf_form g /\ wf_form h
  end.
Definition wf_fact (x : dfact) : Prop :=
  match x with
  | DS l after => wf_label l /\ is_ws after
  | DAc l w1 w2 f after => wf_label l /\ is_ws w1 /\ is_ws w2 /\ wf_form f /\ is_ws after
  end.
Definition wf_doc (d : doc) : Prop := Forall wf_fact d.

(** forget layout; atoms become [PAtom (body l)] *)
Definition mk_of (op : binop) : pform -> pform -> pform :=
  match op with BAnd => PAnd | BOr => POr | BImp => PImp | BXor => PXor | BIff => PIff end.
Fixpoint erase (f : dform) : pform :=
  match f with
  | DBot => PBot | DTop => PTop
  | DAtom l => PAtom (body l)
  | DNot g => PNot (erase g)
  | DBin op _ _ g h => mk_of op (erase g) (erase h)
  end.

(** the state a document denotes: the bodies of the [DS] facts in order, first occurrence
    only, and the [(body l, erase f)] of the [DAc] facts in order *)
Definition str_eq_dec : forall a b : str, {a = b} + {a <> b} := list_eq_dec N.eq_dec.
Fixpoint dedup (l : list str) : list str :=      (* keep first occurrences *)
  match l with
  | [] => []
  | x :: r => x :: filter (fun y => if str_eq_dec y x then false else true) (dedup r)
  end.
Definition ds_bodies (d : doc) : list str :=
  flat_map (fun x => match x with DS l _ => [body l] | DAc _ _ _ _ _ => [] end) d.
Definition ac_list (d : doc) : list (str * pform) :=
  flat_map (fun x => match x with DS _ _ => [] | DAc l _ _ f _ => [(body l, erase f)] end) d.
Definition state_of (d : doc) : pstate := mkP (dedup (ds_bodies d)) (ac_list d).

(** the byte literals above are the intended ASCII strings *)
Definition bytes (s : String.string) : str :=
  List.map Ascii.N_of_ascii (String.list_ascii_of_string s).
Module RenderExamples.
Import String.
Local Open Scope string_scope.
Example kw_strings :
  kw_of BAnd = bytes "and" /\ kw_of BOr = bytes "or" /\ kw_of BImp = bytes "imp" /\
  kw_of BXor = bytes "xor" /\ kw_of BIff = bytes "iff".
Proof. repeat split. Qed.
Example render_strings :
  render_form DBot = bytes "c(f)" /\ render_form DTop = bytes "c(v)" /\
  render_form (DNot DTop) = bytes "neg(c(v))" /\
  render_form (DBin BAnd (bytes " ") (bytes "  ") (DAtom (mkL false (bytes "and")))
                         (DAtom (mkL true (bytes "x y")))) = bytes "and(and ,  ""x y"")" /\
  render_fact (DS (mkL false (bytes "a")) [10]) = (bytes "s(a)." ++ [10])%list /\
  render_fact (DAc (mkL false (bytes "a")) [] [32] DBot []) = bytes "ac(a, c(f)).".
Proof. repeat split. Qed.
End RenderExamples.

(* ------------------------------------------------------------------ *)
(** * Character classes and heads of strings *)

Definition hd_not (P : N -> bool) (r : str) : Prop :=
  match r with [] => True | c :: _ => P c = false end.
(** what may follow a formula: not alphanumeric, not an opening parenthesis *)
Definition okrest (r : str) : Prop :=
  match r with [] => True | c :: _ => is_alnum c = false /\ c <> 40 end.

Lemma alnum_not_space c : is_alnum c = true -> is_space c = false.
Proof.
  unfold is_alnum, is_space. intros H.
  repeat match goal with |- context [?a =? ?b] => destruct (N.eqb_spec a b); subst end;
    try reflexivity; vm_compute in H; discriminate.
Qed.

Lemma alnum_not_lp c : is_alnum c = true -> c <> 40.
Proof. intros H ->. vm_compute in H. discriminate. Qed.

Lemma okrest_noalnum r : okrest r -> hd_not is_alnum r.
Proof. destruct r; cbn; tauto. Qed.

Lemma hd_not_app_cons P c r s : P c = false -> hd_not P ((c :: r) ++ s).
Proof. cbn. auto. Qed.

(* ------------------------------------------------------------------ *)
(** * tag *)

Lemma tag_app t r : tag t (t ++ r) = Some (r, tt).
Proof. induction t as [|c t IH]; cbn [tag app]; [reflexivity|]. now rewrite N.eqb_refl. Qed.

Lemma tag_inv t : forall inp r u, tag t inp = Some (r, u) -> inp = t ++ r.
Proof.
  induction t as [|c t IH]; cbn [tag app]; intros inp r u H.
  - now inversion H.
  - destruct inp as [|d s]; [discriminate|].
    destruct (N.eqb_spec c d); [|discriminate]. subst. f_equal. eauto.
Qed.

Lemma tag_nil_inp c t : tag (c :: t) [] = None.
Proof. reflexivity. Qed.

(** a keyword made of alphanumerics, matched against an alphanumeric run followed by
    something that is neither alphanumeric nor "(", is never followed by "(" *)
Lemma kw_paren_fail kw : forall l rest,
  forallb is_alnum kw = true -> forallb is_alnum l = true -> okrest rest ->
  match tag kw (l ++ rest) with
  | Some (r1, _) => tag [40] r1 = None
  | None => True
  end.
Proof.
  induction kw as [|c k IH]; intros l rest Hk Hl Hr; cbn [tag].
  - destruct l as [|d l']; cbn [app].
    + destruct rest as [|e rest']; [reflexivity|]. cbn in Hr. destruct Hr as [_ Hne].
      cbn [tag]. destruct (N.eqb_spec 40 e); [congruence|reflexivity].
    + cbn in Hl. apply andb_true_iff in Hl. destruct Hl as [Hd _].
      cbn [tag]. destruct (N.eqb_spec 40 d); [|reflexivity].
      subst. vm_compute in Hd. discriminate.
  - cbn in Hk. apply andb_true_iff in Hk. destruct Hk as [Hc Hk].
    destruct l as [|d l']; cbn [app].
    + destruct rest as [|e rest']; [exact I|]. cbn in Hr. destruct Hr as [He _].
      destruct (N.eqb_spec c e); [|exact I]. subst. congruence.
    + cbn in Hl. apply andb_true_iff in Hl. destruct Hl as [_ Hl].
      destruct (N.eqb_spec c d); [|exact I]. apply IH; assumption.
Qed.

(* ------------------------------------------------------------------ *)
(** * multispace0 *)

Lemma multispace0_app w r : is_ws w -> hd_not is_space r -> multispace0 (w ++ r) = r.
Proof.
  unfold is_ws. induction w as [|c w IH]; cbn [app forallb multispace0]; intros Hw Hr.
  - destruct r as [|d r']; [reflexivity|]. cbn in Hr. cbn [multispace0]. now rewrite Hr.
  - apply andb_true_iff in Hw. destruct Hw as [Hc Hw]. rewrite Hc. auto.
Qed.

Lemma multispace0_inv inp :
  exists w, inp = w ++ multispace0 inp /\ is_ws w /\ hd_not is_space (multispace0 inp).
Proof.
  induction inp as [|c r IH]; cbn [multispace0].
  - exists []. repeat split.
  - destruct (is_space c) eqn:Hc.
    + destruct IH as (w & E & Hw & Hh). exists (c :: w). cbn [app]. split; [congruence|].
      split; [|assumption]. unfold is_ws. cbn. now rewrite Hc.
    + exists []. repeat split. exact Hc.
Qed.

(* ------------------------------------------------------------------ *)
(** * alphanumeric1 *)

Lemma take_alnum_app t r :
  forallb is_alnum t = true -> hd_not is_alnum r -> take_alnum (t ++ r) = (t, r).
Proof.
  induction t as [|c t IH]; cbn [app forallb take_alnum]; intros Ht Hr.
  - destruct r as [|d r']; [reflexivity|]. cbn in Hr. cbn [take_alnum]. now rewrite Hr.
  - apply andb_true_iff in Ht. destruct Ht as [Hc Ht]. rewrite Hc, IH; auto.
Qed.

Lemma take_alnum_inv inp : forall t r,
  take_alnum inp = (t, r) -> inp = t ++ r /\ forallb is_alnum t = true /\ hd_not is_alnum r.
Proof.
  induction inp as [|c s IH]; cbn [take_alnum]; intros t r H.
  - inversion H. repeat split.
  - destruct (is_alnum c) eqn:Hc.
    + destruct (take_alnum s) as [t' s'] eqn:E. inversion H; subst.
      destruct (IH _ _ eq_refl) as (E1 & E2 & E3). subst s.
      repeat split; [|assumption]. cbn. now rewrite Hc.
    + inversion H; subst. repeat split. exact Hc.
Qed.

Lemma alphanumeric1_app t r :
  t <> [] -> forallb is_alnum t = true -> hd_not is_alnum r ->
  alphanumeric1 (t ++ r) = Some (r, t).
Proof.
  intros Hne Ht Hr. unfold alphanumeric1. rewrite take_alnum_app by assumption.
  destruct t; [congruence|reflexivity].
Qed.

Lemma alphanumeric1_inv inp r t :
  alphanumeric1 inp = Some (r, t) ->
  inp = t ++ r /\ t <> [] /\ forallb is_alnum t = true /\ hd_not is_alnum r.
Proof.
  unfold alphanumeric1. destruct (take_alnum inp) as [t' r'] eqn:E. intros H.
  destruct t' as [|c t']; [discriminate|]. inversion H; subst.
  destruct (take_alnum_inv _ _ _ E) as (E1 & E2 & E3). repeat split; try assumption. discriminate.
Qed.

(* ------------------------------------------------------------------ *)
(** * take_until(quote) *)

Lemma take_until_quote_app t r :
  ~ In 34 t -> take_until_quote (t ++ 34 :: r) = Some (34 :: r, t).
Proof.
  induction t as [|c t IH]; cbn [app take_until_quote]; intros Hn.
  - reflexivity.
  - destruct (N.eqb_spec c 34) as [->|Hc]; [exfalso; apply Hn; now left|].
    rewrite IH; [reflexivity|]. intros Hi. apply Hn. now right.
Qed.

Lemma take_until_quote_inv inp : forall r t,
  take_until_quote inp = Some (r, t) -> inp = t ++ r /\ ~ In 34 t /\ exists r', r = 34 :: r'.
Proof.
  induction inp as [|c s IH]; cbn [take_until_quote]; intros r t H; [discriminate|].
  destruct (N.eqb_spec c 34) as [->|Hc].
  - inversion H; subst. repeat split; [intros []|eauto].
  - destruct (take_until_quote s) as [[r0 t0]|] eqn:E; [|discriminate].
    inversion H; subst. destruct (IH _ _ eq_refl) as (E1 & E2 & E3). subst s.
    repeat split; [|assumption]. intros [Hi|Hi]; [congruence|auto].
Qed.

(* ------------------------------------------------------------------ *)
(** * atomic *)

Lemma render_label_head l : wf_label l ->
  exists c r, render_label l = c :: r /\ is_space c = false /\ (quoted l = true -> c = 34) /\
              (quoted l = false -> is_alnum c = true).
Proof.
  unfold wf_label, render_label. destruct l as [q b]; cbn [quoted body]. destruct q; intros H.
  - exists 34, (b ++ [34]). repeat split; congruence.
  - destruct H as [Hne Hal]. destruct b as [|c b]; [congruence|].
    cbn in Hal. apply andb_true_iff in Hal. destruct Hal as [Hc _].
    exists c, b. repeat split; auto using alnum_not_space. discriminate.
Qed.

Lemma atomic_render l r :
  wf_label l -> hd_not is_alnum r -> atomic (render_label l ++ r) = Some (r, body l).
Proof.
  unfold wf_label, render_label. destruct l as [q b]; cbn [quoted body]. destruct q; intros H Hr.
  - unfold atomic. rewrite <- !app_assoc. rewrite tag_app.
    cbn [app]. rewrite take_until_quote_app by assumption.
    change (34 :: r) with ([34] ++ r). rewrite tag_app. reflexivity.
  - destruct H as [Hne Hal]. unfold atomic.
    destruct b as [|c b]; [congruence|].
    assert (Hc : is_alnum c = true) by (cbn in Hal; apply andb_true_iff in Hal; tauto).
    cbn [app tag]. destruct (N.eqb_spec 34 c) as [<-|_]; [vm_compute in Hc; discriminate|].
    change (c :: b ++ r) with ((c :: b) ++ r). apply alphanumeric1_app; [discriminate|assumption|assumption].
Qed.

Lemma atomic_inv inp r t :
  atomic inp = Some (r, t) ->
  exists l, wf_label l /\ body l = t /\ inp = render_label l ++ r /\
            (quoted l = false -> hd_not is_alnum r).
Proof.
  unfold atomic.
  destruct (tag [34] inp) as [[r1 u1]|] eqn:E1.
  - destruct (take_until_quote r1) as [[r2 lbl]|] eqn:E2.
    + destruct (tag [34] r2) as [[r3 u3]|] eqn:E3.
      * intros H; inversion H; subst. exists (mkL true t).
        apply tag_inv in E1. apply tag_inv in E3.
        apply take_until_quote_inv in E2. destruct E2 as (E2 & Hn & _).
        subst. unfold wf_label, render_label; cbn [quoted body].
        repeat split; try assumption; try discriminate.
        now rewrite <- !app_assoc.
      * intros H. apply alphanumeric1_inv in H. destruct H as (E & Hne & Hal & Hh).
        exists (mkL false t). unfold wf_label, render_label; cbn [quoted body]. auto.
    + intros H. apply alphanumeric1_inv in H. destruct H as (E & Hne & Hal & Hh).
      exists (mkL false t). unfold wf_label, render_label; cbn [quoted body]. auto.
  - intros H. apply alphanumeric1_inv in H. destruct H as (E & Hne & Hal & Hh).
    exists (mkL false t). unfold wf_label, render_label; cbn [quoted body]. auto.
Qed.

(* ------------------------------------------------------------------ *)
(** * comma_sep, dot_ws *)

Lemma comma_not_space : is_space 44 = false. Proof. reflexivity. Qed.

Lemma comma_sep_render w1 w2 r :
  is_ws w1 -> is_ws w2 -> hd_not is_space r ->
  comma_sep (w1 ++ [44] ++ w2 ++ r) = Some (r, tt).
Proof.
  intros H1 H2 Hr. unfold comma_sep.
  rewrite multispace0_app by (assumption || exact comma_not_space).
  unfold S_COMMA. rewrite tag_app. now rewrite multispace0_app.
Qed.

Lemma comma_sep_inv inp r u :
  comma_sep inp = Some (r, u) ->
  exists w1 w2, inp = w1 ++ [44] ++ w2 ++ r /\ is_ws w1 /\ is_ws w2 /\ hd_not is_space r.
Proof.
  unfold comma_sep. destruct (multispace0_inv inp) as (w1 & E1 & Hw1 & _).
  destruct (tag S_COMMA (multispace0 inp)) as [[r1 u1]|] eqn:E; [|discriminate].
  intros H; inversion H; subst r. apply tag_inv in E.
  destruct (multispace0_inv r1) as (w2 & E2 & Hw2 & Hh).
  exists w1, w2. repeat split; try assumption.
  rewrite E1 at 1. rewrite E. unfold S_COMMA. now rewrite E2 at 1.
Qed.

Lemma dot_ws_render w r : is_ws w -> hd_not is_space r -> dot_ws ([46] ++ w ++ r) = Some (r, tt).
Proof.
  intros Hw Hr. unfold dot_ws, S_DOT. rewrite tag_app. now rewrite multispace0_app.
Qed.

Lemma dot_ws_inv inp r u :
  dot_ws inp = Some (r, u) -> exists w, inp = [46] ++ w ++ r /\ is_ws w /\ hd_not is_space r.
Proof.
  unfold dot_ws. destruct (tag S_DOT inp) as [[r1 u1]|] eqn:E; [|discriminate].
  intros H; inversion H; subst r. apply tag_inv in E.
  destruct (multispace0_inv r1) as (w & E2 & Hw & Hh).
  exists w. repeat split; try assumption. rewrite E. unfold S_DOT. now rewrite E2 at 1.
Qed.

(* ------------------------------------------------------------------ *)
(** * constant *)

Lemma constant_p_inv inp r p :
  constant_p inp = Some (r, p) ->
  (inp = [99;40;118;41] ++ r /\ p = PTop) \/ (inp = [99;40;102;41] ++ r /\ p = PBot).
Proof.
  unfold constant_p.
  destruct (tag S_C inp) as [[r1 u1]|] eqn:E1; [|discriminate].
  destruct (tag S_LP r1) as [[r2 u2]|] eqn:E2; [|discriminate].
  apply tag_inv in E1. apply tag_inv in E2. subst.
  destruct (tag S_V r2) as [[r3 u3]|] eqn:E3.
  - destruct (tag S_RP r3) as [[r4 u4]|] eqn:E4.
    + intros H; inversion H; subst. apply tag_inv in E3. apply tag_inv in E4. subst. now left.
    + destruct (tag S_F r2) as [[r5 u5]|] eqn:E5; [|discriminate].
      apply tag_inv in E3. apply tag_inv in E5. subst. discriminate.
  - destruct (tag S_F r2) as [[r5 u5]|] eqn:E5; [|discriminate].
    destruct (tag S_RP r5) as [[r6 u6]|] eqn:E6; [|discriminate].
    intros H; inversion H; subst. apply tag_inv in E5. apply tag_inv in E6. subst. now right.
Qed.

Lemma constant_p_alnum_fail l rest :
  forallb is_alnum l = true -> okrest rest -> constant_p (l ++ rest) = None.
Proof.
  intros Hl Hr. unfold constant_p.
  pose proof (kw_paren_fail S_C l rest eq_refl Hl Hr) as H.
  destruct (tag S_C (l ++ rest)) as [[r1 u1]|]; [|reflexivity].
  unfold S_LP. now rewrite H.
Qed.

(* ------------------------------------------------------------------ *)
(** * formula: the body of [formula_f], alternative by alternative *)

Definition pair_f (rec : str -> res pform) (inp : str) : res (pform * pform) :=
  match tag S_LP inp with
  | Some (r1, _) =>
    match rec r1 with
    | Some (r2, a) =>
      match comma_sep r2 with
      | Some (r3, _) =>
        match rec r3 with
        | Some (r4, b) => match tag S_RP r4 with Some (r5, _) => Some (r5, (a, b)) | None => None end
        | None => None end
      | None => None end
    | None => None end
  | None => None end.

Definition binop_f (rec : str -> res pform) (kw : str) (mk : pform -> pform -> pform)
           (inp : str) : res pform :=
  match tag kw inp with
  | Some (r1, _) => match pair_f rec r1 with Some (r2, (a, b)) => Some (r2, mk a b) | None => None end
  | None => None end.

Definition unary_f (rec : str -> res pform) (inp : str) : res pform :=
  match tag S_NEG inp with
  | Some (r1, _) => match tag S_LP r1 with
    | Some (r2, _) => match rec r2 with
      | Some (r3, a) => match tag S_RP r3 with Some (r4, _) => Some (r4, PNot a) | None => None end
      | None => None end
    | None => None end
  | None => None end.

Definition atom_f (inp : str) : res pform :=
  match atomic inp with Some (r, l) => Some (r, PAtom l) | None => None end.

Definition orelse {A} (x y : option A) : option A :=
  match x with Some v => Some v | None => y end.

Lemma orelse_none_l {A} (x y : option A) : x = None -> orelse x y = y.
Proof. now intros ->. Qed.

Lemma formula_f_S f inp :
  formula_f (S f) inp =
  orelse (constant_p inp)
 (orelse (binop_f (formula_f f) S_AND PAnd inp)
 (orelse (binop_f (formula_f f) S_OR POr inp)
 (orelse (binop_f (formula_f f) S_IMP PImp inp)
 (orelse (binop_f (formula_f f) S_XOR PXor inp)
 (orelse (binop_f (formula_f f) S_IFF PIff inp)
 (orelse (unary_f (formula_f f) inp)
         (atom_f inp))))))).
Proof. reflexivity. Qed.

Lemma binop_f_tag_none rec kw mk inp : tag kw inp = None -> binop_f rec kw mk inp = None.
Proof. unfold binop_f. now intros ->. Qed.

Lemma unary_f_tag_none rec inp : tag S_NEG inp = None -> unary_f rec inp = None.
Proof. unfold unary_f. now intros ->. Qed.

Lemma binop_f_alnum_fail rec kw mk l rest :
  forallb is_alnum kw = true -> forallb is_alnum l = true -> okrest rest ->
  binop_f rec kw mk (l ++ rest) = None.
Proof.
  intros Hk Hl Hr. unfold binop_f.
  pose proof (kw_paren_fail kw l rest Hk Hl Hr) as H.
  destruct (tag kw (l ++ rest)) as [[r1 u1]|]; [|reflexivity].
  unfold pair_f, S_LP. now rewrite H.
Qed.

Lemma unary_f_alnum_fail rec l rest :
  forallb is_alnum l = true -> okrest rest -> unary_f rec (l ++ rest) = None.
Proof.
  intros Hl Hr. unfold unary_f.
  pose proof (kw_paren_fail S_NEG l rest eq_refl Hl Hr) as H.
  destruct (tag S_NEG (l ++ rest)) as [[r1 u1]|]; [|reflexivity].
  unfold S_LP. now rewrite H.
Qed.

Lemma pair_f_ok rec r1 w1 w2 r3 a b rest :
  rec r1 = Some (w1 ++ [44] ++ w2 ++ r3, a) -> is_ws w1 -> is_ws w2 -> hd_not is_space r3 ->
  rec r3 = Some ([41] ++ rest, b) ->
  pair_f rec ([40] ++ r1) = Some (rest, (a, b)).
Proof.
  intros H1 Hw1 Hw2 Hh H3. unfold pair_f, S_LP, S_RP. rewrite tag_app, H1.
  rewrite comma_sep_render by assumption. rewrite H3, tag_app. reflexivity.
Qed.

Lemma pair_f_inv rec inp rest a b :
  pair_f rec inp = Some (rest, (a, b)) ->
  exists r1 w1 w2 r3,
    inp = [40] ++ r1 /\ rec r1 = Some (w1 ++ [44] ++ w2 ++ r3, a) /\
    is_ws w1 /\ is_ws w2 /\ hd_not is_space r3 /\ rec r3 = Some ([41] ++ rest, b).
Proof.
  unfold pair_f.
  destruct (tag S_LP inp) as [[r1 u1]|] eqn:E1; [|discriminate].
  destruct (rec r1) as [[r2 a']|] eqn:E2; [|discriminate].
  destruct (comma_sep r2) as [[r3 u3]|] eqn:E3; [|discriminate].
  destruct (rec r3) as [[r4 b']|] eqn:E4; [|discriminate].
  destruct (tag S_RP r4) as [[r5 u5]|] eqn:E5; [|discriminate].
  intros H; inversion H; subst.
  apply tag_inv in E1. apply tag_inv in E5.
  apply comma_sep_inv in E3. destruct E3 as (w1 & w2 & E3 & Hw1 & Hw2 & Hh).
  subst. exists r1, w1, w2, r3. repeat split; assumption.
Qed.

Lemma binop_f_inv rec kw mk inp rest p :
  binop_f rec kw mk inp = Some (rest, p) ->
  exists r1 w1 w2 r3 a b,
    inp = kw ++ [40] ++ r1 /\ rec r1 = Some (w1 ++ [44] ++ w2 ++ r3, a) /\
    is_ws w1 /\ is_ws w2 /\ hd_not is_space r3 /\ rec r3 = Some ([41] ++ rest, b) /\
    p = mk a b.
Proof.
  unfold binop_f.
  destruct (tag kw inp) as [[r0 u0]|] eqn:E0; [|discriminate].
  destruct (pair_f rec r0) as [[r2 [a b]]|] eqn:E1; [|discriminate].
  intros H; inversion H; subst. apply tag_inv in E0.
  apply pair_f_inv in E1. destruct E1 as (r1 & w1 & w2 & r3 & E & H1 & Hw1 & Hw2 & Hh & H3).
  subst. exists r1, w1, w2, r3, a, b. repeat split; assumption.
Qed.

Lemma unary_f_inv rec inp rest p :
  unary_f rec inp = Some (rest, p) ->
  exists r1 a, inp = [110;101;103;40] ++ r1 /\ rec r1 = Some ([41] ++ rest, a) /\ p = PNot a.
Proof.
  unfold unary_f.
  destruct (tag S_NEG inp) as [[r0 u0]|] eqn:E0; [|discriminate].
  destruct (tag S_LP r0) as [[r1 u1]|] eqn:E1; [|discriminate].
  destruct (rec r1) as [[r2 a]|] eqn:E2; [|discriminate].
  destruct (tag S_RP r2) as [[r3 u3]|] eqn:E3; [|discriminate].
  intros H; inversion H; subst.
  apply tag_inv in E0. apply tag_inv in E1. apply tag_inv in E3. subst.
  exists r1, a. repeat split. assumption.
Qed.

Lemma binop_f_ok rec kw mk r1 rest a b :
  pair_f rec r1 = Some (rest, (a, b)) -> binop_f rec kw mk (kw ++ r1) = Some (rest, mk a b).
Proof. intros H. unfold binop_f. now rewrite tag_app, H. Qed.

Lemma unary_f_ok rec r1 rest a :
  rec r1 = Some ([41] ++ rest, a) -> unary_f rec ([110;101;103;40] ++ r1) = Some (rest, PNot a).
Proof.
  intros H. unfold unary_f. change ([110;101;103;40] ++ r1) with (S_NEG ++ S_LP ++ r1).
  rewrite !tag_app, H. unfold S_RP. now rewrite tag_app.
Qed.

(** the first byte of a rendered formula is not whitespace *)
Lemma render_form_head f : wf_form f ->
  exists c r, render_form f = c :: r /\ is_space c = false.
Proof.
  destruct f as [| |l|g|op w1 w2 g h]; cbn [render_form wf_form]; intros H.
  - eexists _, _. split; reflexivity.
  - eexists _, _. split; reflexivity.
  - destruct (render_label_head l H) as (c & r & E & Hc & _). eauto.
  - eexists _, _. split; reflexivity.
  - destruct op; eexists _, _; split; reflexivity.
Qed.

Lemma render_form_hd_not_space f r : wf_form f -> hd_not is_space (render_form f ++ r).
Proof.
  intros H. destruct (render_form_head f H) as (c & s & E & Hc). rewrite E. exact Hc.
Qed.

Lemma okrest_rp r : okrest ([41] ++ r).
Proof. cbn. split; [reflexivity|discriminate]. Qed.

Lemma ws_okrest w r : is_ws w -> okrest ((w ++ [44]) ++ r).
Proof.
  unfold is_ws. destruct w as [|c w]; cbn.
  - intros _. split; [reflexivity|discriminate].
  - intros H. apply andb_true_iff in H. destruct H as [Hc _]. split.
    + destruct (is_alnum c) eqn:E; [|reflexivity]. apply alnum_not_space in E. congruence.
    + intros ->. discriminate.
Qed.

(** ** completeness at the formula level *)
Theorem formula_render : forall f, wf_form f -> forall fuel rest,
  okrest rest -> (length (render_form f) < fuel)%nat ->
  formula_f fuel (render_form f ++ rest) = Some (rest, erase f).
Proof.
  induction f as [| |l|g IHg|op w1 w2 g IHg h IHh]; intros Hwf fuel rest Hr Hfuel;
    (destruct fuel as [|fu]; [lia|]); rewrite formula_f_S.
  - reflexivity.
  - reflexivity.
  - (* atoms: every earlier alternative must fail *)
    cbn [render_form erase]. cbn [wf_form] in Hwf.
    assert (Hat : atom_f (render_label l ++ rest) = Some (rest, PAtom (body l))).
    { unfold atom_f. rewrite atomic_render; auto using okrest_noalnum. }
    destruct l as [q b]. destruct q.
    + (* quoted: starts with byte 34, no keyword does *)
      rewrite <- Hat. reflexivity.
    + unfold wf_label in Hwf. cbn [quoted body] in Hwf. destruct Hwf as [_ Hal].
      unfold render_label in *. cbn [quoted body] in *.
      rewrite constant_p_alnum_fail by assumption.
      rewrite !binop_f_alnum_fail by (assumption || reflexivity).
      rewrite unary_f_alnum_fail by assumption.
      exact Hat.
  - cbn [render_form erase wf_form length] in *.
    rewrite <- !app_assoc. cbn [app].
    assert (Hu : unary_f (formula_f fu) ([110;101;103;40] ++ render_form g ++ [41] ++ rest)
                 = Some (rest, PNot (erase g))).
    { apply unary_f_ok. apply IHg; auto using okrest_rp.
      rewrite !app_length in Hfuel. cbn [length] in Hfuel. lia. }
    repeat (rewrite orelse_none_l by reflexivity). cbn [app] in Hu. rewrite Hu. reflexivity.
  - cbn [render_form erase wf_form] in *. destruct Hwf as (Hw1 & Hw2 & Hg & Hh).
    assert (Hlen : (length (render_form g) < fu /\ length (render_form h) < fu)%nat).
    { rewrite !app_length in Hfuel. cbn [length] in Hfuel. destruct op; cbn [kw_of length] in Hfuel; lia. }
    assert (Hp : pair_f (formula_f fu)
                   ([40] ++ render_form g ++ w1 ++ [44] ++ w2 ++ render_form h ++ [41] ++ rest)
                 = Some (rest, (erase g, erase h))).
    { eapply pair_f_ok with (w1 := w1) (w2 := w2); try assumption.
      - pose proof (IHg Hg fu ((w1 ++ [44]) ++ w2 ++ render_form h ++ [41] ++ rest)) as E.
        rewrite <- !app_assoc in E. apply E; [|lia].
        pose proof (ws_okrest w1 (w2 ++ render_form h ++ [41] ++ rest) Hw1) as O.
        now rewrite <- !app_assoc in O.
      - now apply render_form_hd_not_space.
      - apply IHh; auto using okrest_rp. lia. }
    rewrite <- !app_assoc.
    destruct op; cbn [mk_of];
      [ change (kw_of BAnd) with S_AND | change (kw_of BOr) with S_OR
      | change (kw_of BImp) with S_IMP | change (kw_of BXor) with S_XOR
      | change (kw_of BIff) with S_IFF ];
      repeat (rewrite orelse_none_l by reflexivity);
      rewrite (binop_f_ok _ _ _ _ _ _ _ Hp); reflexivity.
Qed.

(** ** soundness at the formula level *)
Lemma binop_case fuel (op : binop) inp rest p :
  (forall inp rest p, formula_f fuel inp = Some (rest, p) ->
     exists f, wf_form f /\ inp = render_form f ++ rest /\ erase f = p) ->
  binop_f (formula_f fuel) (kw_of op) (mk_of op) inp = Some (rest, p) ->
  exists f, wf_form f /\ inp = render_form f ++ rest /\ erase f = p.
Proof.
  intros IH H. apply binop_f_inv in H.
  destruct H as (r1 & w1 & w2 & r3 & a & b & E & H1 & Hw1 & Hw2 & Hh & H3 & Ep).
  apply IH in H1. destruct H1 as (g & Hg & Eg & Ea).
  apply IH in H3. destruct H3 as (h & Hh' & Eh & Eb).
  exists (DBin op w1 w2 g h). cbn [wf_form render_form erase]. subst.
  repeat split; try assumption. now rewrite <- !app_assoc.
Qed.

Theorem formula_inv : forall fuel inp rest p,
  formula_f fuel inp = Some (rest, p) ->
  exists f, wf_form f /\ inp = render_form f ++ rest /\ erase f = p.
Proof.
  induction fuel as [|fuel IH]; intros inp rest p; [discriminate|].
  rewrite formula_f_S. unfold orelse.
  destruct (constant_p inp) as [[r0 p0]|] eqn:Ec.
  { intros H; inversion H; subst. apply constant_p_inv in Ec.
    destruct Ec as [[E ->]|[E ->]]; [exists DTop|exists DBot]; repeat split; assumption. }
  destruct (binop_f (formula_f fuel) S_AND PAnd inp) as [[r1 p1]|] eqn:E1.
  { intros H; inversion H; subst. exact (binop_case fuel BAnd _ _ _ IH E1). }
  destruct (binop_f (formula_f fuel) S_OR POr inp) as [[r2 p2]|] eqn:E2.
  { intros H; inversion H; subst. exact (binop_case fuel BOr _ _ _ IH E2). }
  destruct (binop_f (formula_f fuel) S_IMP PImp inp) as [[r3 p3]|] eqn:E3.
  { intros H; inversion H; subst. exact (binop_case fuel BImp _ _ _ IH E3). }
  destruct (binop_f (formula_f fuel) S_XOR PXor inp) as [[r4 p4]|] eqn:E4.
  { intros H; inversion H; subst. exact (binop_case fuel BXor _ _ _ IH E4). }
  destruct (binop_f (formula_f fuel) S_IFF PIff inp) as [[r5 p5]|] eqn:E5.
  { intros H; inversion H; subst. exact (binop_case fuel BIff _ _ _ IH E5). }
  destruct (unary_f (formula_f fuel) inp) as [[r6 p6]|] eqn:E6.
  { intros H; inversion H; subst. apply unary_f_inv in E6.
    destruct E6 as (r1 & a & E & H1 & ->). apply IH in H1. destruct H1 as (g & Hg & Eg & Ea).
    exists (DNot g). cbn [wf_form render_form erase]. subst.
    repeat split; try assumption. now rewrite <- !app_assoc. }
  unfold atom_f. destruct (atomic inp) as [[r7 t]|] eqn:E7; [|discriminate].
  intros H; inversion H; subst. apply atomic_inv in E7.
  destruct E7 as (l & Hl & Eb & E & _). exists (DAtom l). cbn [wf_form render_form erase].
  subst. repeat split; assumption.
Qed.


(* ------------------------------------------------------------------ *)
(** * facts *)

Lemma statement_fact_render l after r :
  wf_label l -> is_ws after -> hd_not is_space r ->
  statement_fact (render_fact (DS l after) ++ r) = Some (r, body l).
Proof.
  intros Hl Hw Hr. cbn [render_fact]. rewrite <- !app_assoc.
  change ([115;40] ++ render_label l ++ [41;46] ++ after ++ r)
    with (S_S ++ S_LP ++ render_label l ++ S_RP ++ [46] ++ after ++ r).
  unfold statement_fact. rewrite !tag_app.
  rewrite atomic_render by (assumption || reflexivity).
  rewrite tag_app. now rewrite dot_ws_render.
Qed.

Lemma statement_fact_inv inp r t :
  statement_fact inp = Some (r, t) ->
  exists l after, wf_label l /\ is_ws after /\ body l = t /\
                  inp = render_fact (DS l after) ++ r /\ hd_not is_space r.
Proof.
  unfold statement_fact.
  destruct (tag S_S inp) as [[r1 u1]|] eqn:E1; [|discriminate].
  destruct (tag S_LP r1) as [[r2 u2]|] eqn:E2; [|discriminate].
  destruct (atomic r2) as [[r3 l]|] eqn:E3; [|discriminate].
  destruct (tag S_RP r3) as [[r4 u4]|] eqn:E4; [|discriminate].
  destruct (dot_ws r4) as [[r5 u5]|] eqn:E5; [|discriminate].
  intros H; inversion H; subst.
  apply tag_inv in E1. apply tag_inv in E2. apply tag_inv in E4.
  apply atomic_inv in E3. destruct E3 as (lb & Hl & Eb & E3 & _).
  apply dot_ws_inv in E5. destruct E5 as (w & E5 & Hw & Hh).
  exists lb, w. subst. repeat split; try assumption.
  cbn [render_fact]. now rewrite <- !app_assoc.
Qed.

Lemma formula_p_render f rest :
  wf_form f -> okrest rest -> formula_p (render_form f ++ rest) = Some (rest, erase f).
Proof.
  intros Hf Hr. unfold formula_p. apply formula_render; try assumption.
  rewrite app_length. lia.
Qed.

Lemma ac_fact_render l w1 w2 f after r :
  wf_label l -> is_ws w1 -> is_ws w2 -> wf_form f -> is_ws after -> hd_not is_space r ->
  ac_fact (render_fact (DAc l w1 w2 f after) ++ r) = Some (r, (body l, erase f)).
Proof.
  intros Hl H1 H2 Hf Hw Hr. cbn [render_fact]. rewrite <- !app_assoc.
  change ([97;99;40] ++ render_label l ++ w1 ++ [44] ++ w2 ++ render_form f ++ [41;46] ++ after ++ r)
    with (S_AC ++ S_LP ++ render_label l ++ w1 ++ [44] ++ w2 ++ render_form f ++
          S_RP ++ [46] ++ after ++ r).
  unfold ac_fact. rewrite !tag_app.
  rewrite atomic_render; [|assumption|].
  2:{ apply okrest_noalnum. pose proof (ws_okrest w1 (w2 ++ render_form f ++ S_RP ++ [46] ++ after ++ r) H1) as O.
      now rewrite <- !app_assoc in O. }
  rewrite comma_sep_render by (try assumption; now apply render_form_hd_not_space).
  rewrite formula_p_render by (try assumption; apply okrest_rp).
  rewrite tag_app. now rewrite dot_ws_render.
Qed.

Lemma ac_fact_inv inp r t p :
  ac_fact inp = Some (r, (t, p)) ->
  exists l w1 w2 f after,
    wf_fact (DAc l w1 w2 f after) /\ body l = t /\ erase f = p /\
    inp = render_fact (DAc l w1 w2 f after) ++ r /\ hd_not is_space r.
Proof.
  unfold ac_fact.
  destruct (tag S_AC inp) as [[r1 u1]|] eqn:E1; [|discriminate].
  destruct (tag S_LP r1) as [[r2 u2]|] eqn:E2; [|discriminate].
  destruct (atomic r2) as [[r3 l]|] eqn:E3; [|discriminate].
  destruct (comma_sep r3) as [[r4 u4]|] eqn:E4; [|discriminate].
  destruct (formula_p r4) as [[r5 f]|] eqn:E5; [|discriminate].
  destruct (tag S_RP r5) as [[r6 u6]|] eqn:E6; [|discriminate].
  destruct (dot_ws r6) as [[r7 u7]|] eqn:E7; [|discriminate].
  intros H; inversion H; subst.
  apply tag_inv in E1. apply tag_inv in E2. apply tag_inv in E6.
  apply atomic_inv in E3. destruct E3 as (lb & Hl & Eb & E3 & _).
  apply comma_sep_inv in E4. destruct E4 as (w1 & w2 & E4 & Hw1 & Hw2 & _).
  unfold formula_p in E5. apply formula_inv in E5. destruct E5 as (g & Hg & E5 & Eg).
  apply dot_ws_inv in E7. destruct E7 as (w & E7 & Hw & Hh).
  exists lb, w1, w2, g, w. subst. cbn [wf_fact]. repeat split; try assumption.
  cbn [render_fact]. now rewrite <- !app_assoc.
Qed.

(** the side effect of one fact on the parser state *)
Definition step (ps : pstate) (x : dfact) : pstate :=
  match x with
  | DS l _ => match index_of (body l) (names ps) 0 with
              | Some _ => ps
              | None => mkP (names ps ++ [body l]) (acs ps)
              end
  | DAc l _ _ f _ => mkP (names ps) (acs ps ++ [(body l, erase f)])
  end.
Definition run (ps : pstate) (d : doc) : pstate := fold_left step d ps.

Lemma fact_render ps x r :
  wf_fact x -> hd_not is_space r -> fact ps (render_fact x ++ r) = Some (r, step ps x).
Proof.
  destruct x as [l after|l w1 w2 f after]; cbn [wf_fact]; intros Hwf Hr; unfold fact.
  - destruct Hwf as (Hl & Hw). rewrite statement_fact_render by assumption. reflexivity.
  - destruct Hwf as (Hl & H1 & H2 & Hf & Hw).
    assert (Hs : statement_fact (render_fact (DAc l w1 w2 f after) ++ r) = None) by reflexivity.
    rewrite Hs. rewrite ac_fact_render by assumption. reflexivity.
Qed.

Lemma fact_inv ps inp r ps' :
  fact ps inp = Some (r, ps') ->
  exists x, wf_fact x /\ inp = render_fact x ++ r /\ ps' = step ps x /\ hd_not is_space r.
Proof.
  unfold fact. destruct (statement_fact inp) as [[r1 t]|] eqn:E1.
  - intros H; inversion H; subst. apply statement_fact_inv in E1.
    destruct E1 as (l & after & Hl & Hw & Eb & E & Hh). exists (DS l after).
    cbn [wf_fact step]. subst. repeat split; assumption.
  - destruct (ac_fact inp) as [[r2 [t p]]|] eqn:E2; [|discriminate].
    intros H; inversion H; subst. apply ac_fact_inv in E2.
    destruct E2 as (l & w1 & w2 & f & after & Hwf & Eb & Ef & E & Hh).
    exists (DAc l w1 w2 f after). cbn [step]. subst.
    split; [exact Hwf|]. split; [reflexivity|]. split; [reflexivity|assumption].
Qed.

Lemma render_fact_head x : exists c r, render_fact x = c :: r /\ is_space c = false.
Proof. destruct x; eexists _, _; split; reflexivity. Qed.

Lemma render_doc_hd d r : hd_not is_space r -> hd_not is_space (render_doc d ++ r).
Proof.
  destruct d as [|x d]; [auto|]. intros _. unfold render_doc. cbn [flat_map].
  destruct (render_fact_head x) as (c & s & E & Hc). rewrite E. exact Hc.
Qed.

Lemma render_doc_cons x d : render_doc (x :: d) = render_fact x ++ render_doc d.
Proof. reflexivity. Qed.

Lemma render_doc_app d1 d2 : render_doc (d1 ++ d2) = render_doc d1 ++ render_doc d2.
Proof. apply flat_map_app. Qed.

Lemma render_doc_length d : (length d <= length (render_doc d))%nat.
Proof.
  induction d as [|x d IH]; [auto|]. rewrite render_doc_cons, app_length.
  destruct (render_fact_head x) as (c & s & E & _). rewrite E. cbn [length]. lia.
Qed.

(** [many1] on a rendered document followed by something that does not start a fact *)
Lemma facts_render : forall d ps r fuel,
  wf_doc d -> hd_not is_space r -> (forall ps', fact ps' r = None) -> (length d <= fuel)%nat ->
  facts_f fuel ps (render_doc d ++ r) = (r, run ps d).
Proof.
  induction d as [|x d IH]; intros ps r fuel Hwf Hr Hnf Hfuel.
  - cbn [render_doc flat_map app run fold_left]. destruct fuel; cbn [facts_f]; [reflexivity|].
    now rewrite Hnf.
  - destruct fuel as [|fuel]; [cbn [length] in Hfuel; lia|].
    inversion Hwf as [|? ? Hx Hd]; subst.
    rewrite render_doc_cons, <- app_assoc. cbn [facts_f].
    rewrite fact_render by (try assumption; now apply render_doc_hd).
    cbn [run fold_left]. apply IH; try assumption. cbn [length] in Hfuel. lia.
Qed.

Lemma facts_inv : forall fuel ps inp rest ps',
  facts_f fuel ps inp = (rest, ps') ->
  exists d, wf_doc d /\ inp = render_doc d ++ rest /\ ps' = run ps d.
Proof.
  induction fuel as [|fuel IH]; intros ps inp rest ps'; cbn [facts_f].
  - intros H; inversion H; subst. exists []. repeat split. constructor.
  - destruct (fact ps inp) as [[r ps1]|] eqn:E.
    + intros H. apply IH in H. destruct H as (d & Hd & Ed & Ep).
      apply fact_inv in E. destruct E as (x & Hx & Ex & Es & _).
      exists (x :: d). subst. repeat split.
      * now constructor.
      * now rewrite render_doc_cons, <- app_assoc.
    + intros H; inversion H; subst. exists []. repeat split. constructor.
Qed.

(* ------------------------------------------------------------------ *)
(** * the state of a document *)

Lemma str_eqb_eq a : forall b, str_eqb a b = true <-> a = b.
Proof.
  induction a as [|x a IH]; intros [|y b]; cbn [str_eqb]; try (split; (discriminate || reflexivity)).
  rewrite andb_true_iff, N.eqb_eq, IH. split; [intros [-> ->]; reflexivity|intros H; inversion H; auto].
Qed.

Lemma index_of_none x l : forall i, index_of x l i = None <-> ~ In x l.
Proof.
  induction l as [|y l IH]; intros i; cbn [index_of In].
  - split; auto.
  - destruct (str_eqb x y) eqn:E.
    + apply str_eqb_eq in E. subst. split; [discriminate|]. intros H. exfalso. apply H. now left.
    + rewrite IH. assert (x <> y) by (intros ->; rewrite (proj2 (str_eqb_eq y y) eq_refl) in E; discriminate).
      split; [intros H1 [H2|H2]; congruence|tauto].
Qed.

Definition add_name (nm : list str) (x : str) : list str :=
  if in_dec str_eq_dec x nm then nm else nm ++ [x].

Lemma step_DS ps l a : step ps (DS l a) = mkP (add_name (names ps) (body l)) (acs ps).
Proof.
  cbn [step]. unfold add_name. destruct (index_of (body l) (names ps) 0) eqn:E.
  - destruct (in_dec str_eq_dec (body l) (names ps)) as [_|Hn]; [now destruct ps|].
    apply (index_of_none _ _ 0) in Hn. congruence.
  - destruct (in_dec str_eq_dec (body l) (names ps)) as [Hi|_]; [|reflexivity].
    apply index_of_none in E. contradiction.
Qed.

Lemma run_split : forall d ps,
  run ps d = mkP (fold_left add_name (ds_bodies d) (names ps)) (acs ps ++ ac_list d).
Proof.
  induction d as [|x d IH]; intros ps.
  - cbn. rewrite app_nil_r. now destruct ps.
  - cbn [run fold_left]. fold (run (step ps x) d). rewrite IH.
    destruct x as [l a|l w1 w2 f a].
    + rewrite step_DS. reflexivity.
    + cbn [step names acs ds_bodies ac_list flat_map app]. now rewrite <- app_assoc.
Qed.

Definition notin (nm : list str) (y : str) : bool :=
  if in_dec str_eq_dec y nm then false else true.
Definition neq (x y : str) : bool := if str_eq_dec y x then false else true.

Lemma filter_filter {A} (P Q : A -> bool) l :
  filter P (filter Q l) = filter (fun y => Q y && P y) l.
Proof.
  induction l as [|a l IH]; [reflexivity|]. cbn [filter]. destruct (Q a); cbn [filter andb].
  - now rewrite IH.
  - exact IH.
Qed.

Lemma fold_add_dedup : forall xs nm,
  fold_left add_name xs nm = nm ++ filter (notin nm) (dedup xs).
Proof.
  induction xs as [|x r IH]; intros nm; cbn [fold_left dedup].
  - cbn. now rewrite app_nil_r.
  - rewrite IH. fold (neq x). cbn [filter]. unfold add_name, notin at 2.
    destruct (in_dec str_eq_dec x nm) as [Hi|Hn].
    + f_equal. rewrite filter_filter. apply filter_ext. intros y. unfold neq, notin.
      destruct (str_eq_dec y x) as [->|]; [|reflexivity].
      destruct (in_dec str_eq_dec x nm); [reflexivity|contradiction].
    + rewrite <- app_assoc. cbn [app]. do 2 f_equal. rewrite filter_filter.
      apply filter_ext. intros y. unfold neq, notin.
      destruct (str_eq_dec y x) as [Heq|Hne]; destruct (in_dec str_eq_dec y nm) as [Hj|Hj];
        destruct (in_dec str_eq_dec y (nm ++ [x])) as [Hi|Hi]; cbn [andb]; try reflexivity;
        exfalso; rewrite in_app_iff in Hi; cbn [In] in Hi; subst; intuition congruence.
Qed.

Lemma filter_true {A} (l : list A) : filter (fun _ => true) l = l.
Proof. induction l; cbn; congruence. Qed.

Theorem run_state_of d : run pinit d = state_of d.
Proof.
  rewrite run_split. unfold state_of. cbn [pinit names acs app]. f_equal.
  rewrite fold_add_dedup. cbn [app]. unfold notin.
  erewrite filter_ext; [apply filter_true|]. intros y. cbn. reflexivity.
Qed.

(** [dedup] really is "first occurrence only": no duplicates, same elements *)
Lemma dedup_In x l : In x (dedup l) <-> In x l.
Proof.
  induction l as [|a l IH]; [reflexivity|]. cbn [dedup In]. rewrite filter_In, IH.
  destruct (str_eq_dec x a) as [->|Hne]; [tauto|]. split; [tauto|].
  intros [H|H]; [now left|]. right. split; [assumption|]. destruct (str_eq_dec x a); congruence.
Qed.

Lemma dedup_NoDup l : NoDup (dedup l).
Proof.
  induction l as [|a l IH]; cbn [dedup]; constructor.
  - rewrite filter_In. intros [_ H]. destruct (str_eq_dec a a); [discriminate|congruence].
  - now apply NoDup_filter.
Qed.

(* ------------------------------------------------------------------ *)
(** * Main theorems *)

(** Completeness, in the general form with trailing input [r] that does not start a fact
    (and does not start with whitespace, which would be part of the last layout). *)
Theorem parse_render_rest d r :
  d <> [] -> wf_doc d -> hd_not is_space r -> (forall ps, fact ps r = None) ->
  parse (render_doc d ++ r) = (state_of d, match r with [] => true | _ => false end).
Proof.
  intros Hne Hwf Hr Hnf. destruct d as [|x d]; [congruence|].
  inversion Hwf as [|? ? Hx Hd]; subst.
  unfold parse. rewrite render_doc_cons, <- app_assoc.
  rewrite fact_render by (try assumption; now apply render_doc_hd).
  rewrite facts_render; try assumption.
  - rewrite <- run_state_of. reflexivity.
  - rewrite !app_length. pose proof (render_doc_length d). lia.
Qed.

Theorem parse_render : forall d, d <> [] -> wf_doc d -> parse (render_doc d) = (state_of d, true).
Proof.
  intros d Hne Hwf. pose proof (parse_render_rest d [] Hne Hwf I (fun _ => eq_refl)) as H.
  now rewrite app_nil_r in H.
Qed.

(** Soundness: only texts of the grammar are accepted, with the state they denote. *)
Theorem parse_inv s ps b :
  parse s = (ps, b) ->
  (b = false /\ ps = pinit /\ fact pinit s = None) \/
  exists d rest, d <> [] /\ wf_doc d /\ s = render_doc d ++ rest /\ ps = state_of d /\
                 b = match rest with [] => true | _ => false end.
Proof.
  unfold parse. destruct (fact pinit s) as [[r ps1]|] eqn:E.
  - destruct (facts_f (length s) ps1 r) as [rest ps2] eqn:E2.
    intros H; inversion H; subst. right.
    apply fact_inv in E. destruct E as (x & Hx & Ex & Es & _).
    apply facts_inv in E2. destruct E2 as (d & Hd & Ed & Ep).
    exists (x :: d), rest. subst. repeat split.
    + discriminate.
    + now constructor.
    + now rewrite render_doc_cons, <- app_assoc.
    + now rewrite <- run_state_of.
  - intros H; inversion H; subst. now left.
Qed.

Theorem parse_sound : forall s ps,
  parse s = (ps, true) ->
  exists d, d <> [] /\ wf_doc d /\ s = render_doc d /\ ps = state_of d.
Proof.
  intros s ps H. apply parse_inv in H. destruct H as [(H & _)|(d & rest & Hne & Hwf & Es & Ep & Eb)].
  - discriminate.
  - destruct rest; [|discriminate]. exists d. rewrite app_nil_r in Es. auto.
Qed.

(** the two together: acceptance is exactly membership in the grammar *)
Corollary parse_accepts_iff s :
  snd (parse s) = true <-> exists d, d <> [] /\ wf_doc d /\ s = render_doc d.
Proof.
  split.
  - destruct (parse s) as [ps b] eqn:E. cbn [snd]. intros ->.
    destruct (parse_sound _ _ E) as (d & H1 & H2 & H3 & _). eauto.
  - intros (d & H1 & H2 & ->). now rewrite parse_render.
Qed.

(* ------------------------------------------------------------------ *)
(** * Rejection corollaries *)

(** every rendered non-empty document ends with a dot followed by whitespace only *)
Lemma render_doc_last d :
  d <> [] -> wf_doc d -> exists pre w, render_doc d = pre ++ 46 :: w /\ is_ws w.
Proof.
  intros Hne. destruct (exists_last Hne) as (d' & x & ->).
  intros Hwf. rewrite render_doc_app. cbn [render_doc flat_map]. rewrite app_nil_r.
  assert (Hx : wf_fact x) by (apply Forall_app in Hwf; destruct Hwf as [_ H]; now inversion H).
  destruct x as [l after|l w1 w2 f after]; cbn [render_fact wf_fact] in *.
  - exists (render_doc d' ++ [115;40] ++ render_label l ++ [41]), after.
    split; [now rewrite <- !app_assoc|tauto].
  - exists (render_doc d' ++ [97;99;40] ++ render_label l ++ w1 ++ [44] ++ w2 ++ render_form f ++ [41]), after.
    split; [now rewrite <- !app_assoc|tauto].
Qed.

(** a text whose last non-whitespace byte is not the dot of a last fact is rejected *)
Theorem reject_missing_dot_gen s :
  (forall pre w, s = pre ++ 46 :: w -> ~ is_ws w) -> snd (parse s) = false.
Proof.
  intros H. destruct (parse s) as [ps b] eqn:E. destruct b; [|reflexivity]. exfalso.
  destruct (parse_sound _ _ E) as (d & Hne & Hwf & Es & _).
  destruct (render_doc_last d Hne Hwf) as (pre & w & Er & Hw).
  apply (H pre w); [congruence|assumption].
Qed.

Lemma last_nonspace_unique : forall a b c d (x y : str),
  is_ws a -> is_ws b -> is_space c = false -> is_space d = false ->
  a ++ c :: x = b ++ d :: y -> c = d.
Proof.
  unfold is_ws. induction a as [|e a IH]; intros [|e' b] c d x y Ha Hb Hc Hd E;
    cbn [app forallb] in *.
  - now inversion E.
  - inversion E; subst. apply andb_true_iff in Hb. destruct Hb as [Hb _]. congruence.
  - inversion E; subst. apply andb_true_iff in Ha. destruct Ha as [Ha _]. congruence.
  - inversion E; subst. apply andb_true_iff in Ha. apply andb_true_iff in Hb.
    eapply IH; [| | | |eassumption]; tauto.
Qed.

Lemma is_ws_rev w : is_ws w -> is_ws (rev w).
Proof.
  unfold is_ws. rewrite !forallb_forall. intros H x Hx. apply H. now apply in_rev.
Qed.

(** [s = pre ++ c :: w] with [w] whitespace, [c] neither whitespace nor a dot *)
Theorem reject_missing_dot pre c w :
  is_ws w -> is_space c = false -> c <> 46 -> snd (parse (pre ++ c :: w)) = false.
Proof.
  intros Hw Hc Hne. apply reject_missing_dot_gen. intros pre' w' E Hw'.
  apply (f_equal (@rev N)) in E. rewrite !rev_app_distr in E. cbn [rev] in E.
  rewrite <- !app_assoc in E. cbn [app] in E.
  apply last_nonspace_unique in E; auto using is_ws_rev.
Qed.

(** in particular the empty text and all-whitespace texts are rejected *)
Corollary reject_blank s : is_ws s -> snd (parse s) = false.
Proof.
  intros Hs. apply reject_missing_dot_gen. intros pre w -> _.
  unfold is_ws in Hs. rewrite forallb_app in Hs. apply andb_true_iff in Hs.
  destruct Hs as [_ Hs]. cbn in Hs. discriminate.
Qed.

(** trailing input after a document: rejected (with the state of the document, since the
    side effects persist) whenever the trailing part is non-empty, does not start with
    whitespace (that would belong to the layout of the last fact) and does not itself
    begin with a fact *)
Theorem reject_trailing d junk :
  d <> [] -> wf_doc d -> junk <> [] -> hd_not is_space junk ->
  statement_fact junk = None -> ac_fact junk = None ->
  parse (render_doc d ++ junk) = (state_of d, false).
Proof.
  intros Hne Hwf Hj Hh Hs Ha.
  rewrite parse_render_rest; try assumption.
  - destruct junk; [congruence|reflexivity].
  - intros ps. unfold fact. now rewrite Hs, Ha.
Qed.

(** e.g. anything whose first byte is neither whitespace, [s] nor [a] *)
Corollary reject_trailing_byte d c j :
  d <> [] -> wf_doc d -> is_space c = false -> c <> 115 -> c <> 97 ->
  parse (render_doc d ++ c :: j) = (state_of d, false).
Proof.
  intros Hne Hwf Hc Hs Ha. apply reject_trailing; try assumption; try discriminate.
  - unfold statement_fact. cbn [S_S tag]. destruct (N.eqb_spec 115 c); [congruence|reflexivity].
  - unfold ac_fact. cbn [S_AC tag]. destruct (N.eqb_spec 97 c); [congruence|reflexivity].
Qed.

(** conversely, trailing whitespace is part of the grammar (layout of the last fact) *)
Definition extend_after (x : dfact) (w : str) : dfact :=
  match x with
  | DS l after => DS l (after ++ w)
  | DAc l w1 w2 f after => DAc l w1 w2 f (after ++ w)
  end.

Corollary accept_trailing_ws s ps w :
  parse s = (ps, true) -> is_ws w -> parse (s ++ w) = (ps, true).
Proof.
  intros H Hw. destruct (parse_sound _ _ H) as (d & Hne & Hwf & -> & ->).
  destruct (exists_last Hne) as (d0 & x & ->).
  assert (Hws : forall a, is_ws a -> is_ws (a ++ w)).
  { unfold is_ws in *. intros a Ha. rewrite forallb_app. now rewrite Ha, Hw. }
  apply Forall_app in Hwf. destruct Hwf as [Hd0 Hx]. inversion Hx as [|? ? Hx' _]; subst.
  assert (E : render_doc (d0 ++ [x]) ++ w = render_doc (d0 ++ [extend_after x w])).
  { rewrite !render_doc_app, <- app_assoc. f_equal. cbn [render_doc flat_map].
    rewrite !app_nil_r. destruct x; cbn [extend_after render_fact]; now rewrite <- !app_assoc. }
  assert (S : state_of (d0 ++ [x]) = state_of (d0 ++ [extend_after x w])).
  { unfold state_of, ds_bodies, ac_list. rewrite !flat_map_app. now destruct x. }
  rewrite E, S. apply parse_render.
  - now destruct d0.
  - apply Forall_app. split; [assumption|]. constructor; [|constructor].
    destruct x; cbn [extend_after wf_fact] in *; intuition.
Qed.

(** leading whitespace is not allowed *)
Corollary reject_leading_space c s : is_space c = true -> parse (c :: s) = (pinit, false).
Proof.
  intros Hc. unfold parse, fact, statement_fact, ac_fact. cbn [S_S S_AC tag].
  destruct (N.eqb_spec 115 c) as [<-|_]; [discriminate|].
  destruct (N.eqb_spec 97 c) as [<-|_]; [discriminate|]. reflexivity.
Qed.

(** determinism is immediate: [parse] is a function; in terms of documents, two renderings of
    the same text denote the same state *)
Corollary render_state_unique d1 d2 :
  d1 <> [] -> wf_doc d1 -> wf_doc d2 -> render_doc d1 = render_doc d2 -> state_of d1 = state_of d2.
Proof.
  intros Hne H1 H2 E.
  assert (Hne2 : d2 <> []).
  { intros ->. destruct d1 as [|x d1]; [congruence|]. rewrite render_doc_cons in E.
    destruct (render_fact_head x) as (c & r & Ex & _). rewrite Ex in E. discriminate. }
  pose proof (parse_render d1 Hne H1) as P1. pose proof (parse_render d2 Hne2 H2) as P2.
  rewrite E in P1. congruence.
Qed.

(* ------------------------------------------------------------------ *)
(** * Fuel *)

(** With enough fuel ([> length inp], which is what [formula_p] supplies and what every
    recursive call preserves) the result of [formula_f] does not depend on the fuel: the
    fuel-indexed model is a faithful rendering of the unbounded recursion. *)
Lemma formula_f_rest_len fuel inp rest p :
  formula_f fuel inp = Some (rest, p) -> (length rest <= length inp)%nat.
Proof.
  intros H. apply formula_inv in H. destruct H as (f & _ & -> & _). rewrite app_length. lia.
Qed.

Lemma comma_sep_len inp r u : comma_sep inp = Some (r, u) -> (length r <= length inp)%nat.
Proof.
  intros H. apply comma_sep_inv in H. destruct H as (w1 & w2 & -> & _).
  rewrite !app_length. lia.
Qed.

Lemma pair_f_ext rec rec' inp :
  (forall i, (length i < length inp)%nat -> rec i = rec' i) ->
  (forall i r a, rec i = Some (r, a) -> (length r <= length i)%nat) ->
  pair_f rec inp = pair_f rec' inp.
Proof.
  intros Hext Hlen. unfold pair_f.
  destruct (tag S_LP inp) as [[r1 u1]|] eqn:E1; [|reflexivity].
  apply tag_inv in E1. subst inp. cbn [S_LP app length] in Hext.
  rewrite <- (Hext r1) by lia.
  destruct (rec r1) as [[r2 a]|] eqn:E2; [|reflexivity]. apply Hlen in E2.
  destruct (comma_sep r2) as [[r3 u3]|] eqn:E3; [|reflexivity]. apply comma_sep_len in E3.
  rewrite <- (Hext r3) by lia. reflexivity.
Qed.

Lemma binop_f_ext rec rec' kw mk inp :
  (forall i, (length i < length inp)%nat -> rec i = rec' i) ->
  (forall i r a, rec i = Some (r, a) -> (length r <= length i)%nat) ->
  binop_f rec kw mk inp = binop_f rec' kw mk inp.
Proof.
  intros Hext Hlen. unfold binop_f.
  destruct (tag kw inp) as [[r1 u1]|] eqn:E1; [|reflexivity].
  apply tag_inv in E1. subst inp. rewrite app_length in Hext.
  rewrite (pair_f_ext rec rec' r1); [reflexivity| |assumption].
  intros i Hi. apply Hext. lia.
Qed.

Lemma unary_f_ext rec rec' inp :
  (forall i, (length i < length inp)%nat -> rec i = rec' i) ->
  unary_f rec inp = unary_f rec' inp.
Proof.
  intros Hext. unfold unary_f.
  destruct (tag S_NEG inp) as [[r1 u1]|] eqn:E1; [|reflexivity].
  destruct (tag S_LP r1) as [[r2 u2]|] eqn:E2; [|reflexivity].
  apply tag_inv in E1. apply tag_inv in E2. subst. cbn [S_NEG S_LP app length] in Hext.
  rewrite <- (Hext r2) by lia. reflexivity.
Qed.

Theorem formula_f_fuel : forall fuel fuel' inp,
  (length inp < fuel)%nat -> (length inp < fuel')%nat -> formula_f fuel inp = formula_f fuel' inp.
Proof.
  induction fuel as [|f IH]; intros fuel' inp H1 H2; [lia|].
  destruct fuel' as [|f']; [lia|]. rewrite !formula_f_S.
  assert (Hext : forall i, (length i < length inp)%nat -> formula_f f i = formula_f f' i)
    by (intros i Hi; apply IH; lia).
  pose proof (formula_f_rest_len f) as Hlen.
  rewrite !(binop_f_ext (formula_f f) (formula_f f')) by assumption.
  rewrite (unary_f_ext (formula_f f) (formula_f f')) by assumption.
  reflexivity.
Qed.

Corollary formula_p_fuel fuel inp : (length inp < fuel)%nat -> formula_p inp = formula_f fuel inp.
Proof. intros H. unfold formula_p. apply formula_f_fuel; lia. Qed.

(* ------------------------------------------------------------------ *)
(** * Examples (by computation) *)

Module ParseExamples.
Import String.
Local Open Scope string_scope.

Example ex_keyword_labels :
  parse (bytes "s(and).s(c).ac(and,c).ac(c,neg(and)).")
  = (mkP [bytes "and"; bytes "c"]
         [(bytes "and", PAtom (bytes "c")); (bytes "c", PNot (PAtom (bytes "and")))],
     true).
Proof. vm_compute. reflexivity. Qed.

Example ex_layout_and_quotes :
  parse (bytes "s(a).
s(""x y"").  s(a). ac(andy , and(and,  or(or ,c(v)))).	ac(""x y"",iff(neg(c(f)),xor(c,imp(s,ac)))).
")
  = (mkP [bytes "a"; bytes "x y"]
         [(bytes "andy", PAnd (PAtom (bytes "and")) (POr (PAtom (bytes "or")) PTop));
          (bytes "x y", PIff (PNot PBot)
                             (PXor (PAtom (bytes "c")) (PImp (PAtom (bytes "s")) (PAtom (bytes "ac")))))],
     true).
Proof. vm_compute. reflexivity. Qed.

Example ex_missing_dot : snd (parse (bytes "s(a)")) = false.
Proof. vm_compute. reflexivity. Qed.
Example ex_missing_last_dot : parse (bytes "s(a).s(b)") = (mkP [bytes "a"] [], false).
Proof. vm_compute. reflexivity. Qed.
Example ex_trailing_junk : parse (bytes "s(a).x") = (mkP [bytes "a"] [], false).
Proof. vm_compute. reflexivity. Qed.
Example ex_leading_space : snd (parse (bytes " s(a).")) = false.
Proof. vm_compute. reflexivity. Qed.
Example ex_space_before_dot : snd (parse (bytes "s(a) .")) = false.
Proof. vm_compute. reflexivity. Qed.
Example ex_space_inside_parens : snd (parse (bytes "s( a).")) = false.
Proof. vm_compute. reflexivity. Qed.
Example ex_space_after_lp_in_formula : snd (parse (bytes "ac(a,and( b,c)).")) = false.
Proof. vm_compute. reflexivity. Qed.
Example ex_space_before_rp_in_formula : snd (parse (bytes "ac(a,and(b,c )).")) = false.
Proof. vm_compute. reflexivity. Qed.
Example ex_empty : parse [] = (pinit, false).
Proof. vm_compute. reflexivity. Qed.
Example ex_empty_quoted_label : parse (bytes "s("""").") = (mkP [[]] [], true).
Proof. vm_compute. reflexivity. Qed.

(** an unquoted atom that is a keyword cannot be followed by "(": here [and] is read as
    the operator and the parse fails at "x" (outside the grammar: the byte after a formula is
    never "(") *)
Example ex_keyword_then_paren : snd (parse (bytes "ac(a,neg(and(x))).")) = false.
Proof. vm_compute. reflexivity. Qed.

(** With INSUFFICIENT fuel the fuel-indexed function is not monotone: a keyword whose
    argument list cannot be parsed for lack of fuel is re-read as an atom.  This never
    happens under [formula_p] (see [formula_f_fuel]); recorded so that nobody states
    monotonicity of [formula_f] without the [length inp < fuel] hypothesis. *)
Example formula_f_mono_refuted :
  formula_f 1 (bytes "and(a,b)") = Some (bytes "(a,b)", PAtom (bytes "and")) /\
  formula_f 9 (bytes "and(a,b)") = Some ([], PAnd (PAtom (bytes "a")) (PAtom (bytes "b"))).
Proof. split; vm_compute; reflexivity. Qed.
End ParseExamples.

(* ------------------------------------------------------------------ *)
Print Assumptions formula_render.
Print Assumptions formula_inv.
Print Assumptions parse_render.
Print Assumptions parse_render_rest.
Print Assumptions parse_sound.
Print Assumptions parse_accepts_iff.
Print Assumptions reject_missing_dot.
Print Assumptions reject_trailing.
Print Assumptions formula_f_fuel.
