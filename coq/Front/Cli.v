(** Executable model of bin/src/main.rs: the three hand-wired library modes (hybrid / biodivine /
    naive), which flag calls which library function, in which order, printed through which
    dictionary.  Output is a list of sections (flag, lines); a parse or build failure is exit 101
    with no line.  --import / --export / --counter are not part of this model (see C14).
    No proofs in this file. *)
From Coq Require Import NArith List Bool.
From ADF Require Import Base.Maps Spec.Spec Gen.GenFlags Bdd.Store Adf.Iter Adf.Native Adf.NoGood Adf.Search Adf.Bio Front.Parser.
Import ListNotations.
Local Open Scope N_scope.

Notation "'do' p <- e ; k" := (obind e (fun p => k))
  (at level 200, p pattern, e at level 100, k at level 200, right associativity).

Inductive mode := MHybrid | MBio | MNaive.
Inductive sortmode := SNone | SLexi.      (* --an (natural_lexical_cmp) is not modelled *)

Record flags := mkF {
  f_grd : bool; f_com : bool; f_stm : bool; f_stmca : bool; f_stmcb : bool; f_stmpre : bool;
  f_stmrew : bool; f_stmrew2 : bool; f_stmng : bool; f_twoval : bool
}.

(** PrintableInterpretation: "T(name) F(name) u(name) " and a newline *)
Definition print_interp (names : list str) (v : list N) : str :=
  concat (map (fun p => (if is_tv (snd p) then (if is_true (snd p) then [84; 40] else [70; 40]) else [117; 40])
                        ++ fst p ++ [41; 32]) (combine names v)) ++ [10].

Inductive section := Sec (flag : str) (ordered : bool) (lines : list str).

Definition S_GRD : str := [103;114;100].            Definition S_COM : str := [99;111;109].
Definition S_STM : str := [115;116;109].            Definition S_STMCA : str := [115;116;109;99;97].
Definition S_STMCB : str := [115;116;109;99;98].    Definition S_STMPRE : str := [115;116;109;112;114;101].
Definition S_STMREW : str := [115;116;109;114;101;119]. Definition S_STMNG : str := [115;116;109;110;103].
Definition S_TWOVAL : str := [116;119;111;118;97;108].

Definition budget : nat := 300000.

(** sections printed by the hybrid arm, in the order of the source *)
Definition run_hybrid (c : cfg) (names : list str) (st0 : store) (ac0 : list N) (fl : flags) (h : heuristic)
  : option (list section) :=
  (* hybrid_step(): the naive ADF holds the pre-grounded conditions *)
  do (st, ac) <- grounded c st0 ac0;
  let pr := map (print_interp names) in
  do (s1, o1) <- (if f_grd fl then do (s, g) <- grounded c st ac; Some (s, [Sec S_GRD true (pr [g])]) else Some (st, []));
  do (s2, o2) <- (if f_com fl then do (s, l) <- complete c s1 ac; Some (s, [Sec S_COM true (pr l)]) else Some (s1, []));
  do (s3, o3) <- (if f_twoval fl then do (s, l, _) <- nogood_search_cur c ac h true budget s2 []; Some (s, [Sec S_TWOVAL true (pr l)]) else Some (s2, []));
  do (s4, o4) <- (if f_stm fl then do (s, l) <- stable c s3 ac; Some (s, [Sec S_STM true (pr l)]) else Some (s3, []));
  do (s5, o5) <- (if f_stmca fl then do (s, l) <- stable_count_cur c heu_a ac s4; Some (s, [Sec S_STMCA true (pr l)]) else Some (s4, []));
  do (s6, o6) <- (if f_stmcb fl then do (s, l) <- stable_count_cur c heu_b ac s5; Some (s, [Sec S_STMCB true (pr l)]) else Some (s5, []));
  do (s7, o7) <- (if f_stmpre fl then do (s, l) <- stable_with_prefilter c s6 ac; Some (s, [Sec S_STMPRE true (pr l)]) else Some (s6, []));
  do (s8, o8) <- (if f_stmrew fl || f_stmrew2 fl then
                    (* candidates from the biodivine side (the conditions as parsed); enumeration order not modelled *)
                    do (sa, cands) <- stable_candidates c st0 ac0;
                    do (s, l) <- stable_from_candidates c s7 ac cands; Some (s, [Sec S_STMREW false (pr l)])
                  else Some (s7, []));
  do (s9, o9) <- (if f_stmng fl then do (s, l, _) <- nogood_search_cur c ac h false budget s8 []; Some (s, [Sec S_STMNG true (pr l)]) else Some (s8, []));
  Some (o1 ++ o2 ++ o3 ++ o4 ++ o5 ++ o6 ++ o7 ++ o8 ++ o9).

Definition run_bio (c : cfg) (names : list str) (st : store) (ac : list N) (fl : flags) : option (list section) :=
  let pr := map (print_interp names) in
  do (s1, o1) <- (if f_grd fl then do (s, g) <- bio_grounded c st ac; Some (s, [Sec S_GRD true (pr [g])]) else Some (st, []));
  do (s2, o2) <- (if f_com fl then do (s, l) <- bio_complete c s1 ac; Some (s, [Sec S_COM true (pr l)]) else Some (s1, []));
  do (s3, o3) <- (if f_stm fl then do (s, l) <- bio_stable c s2 ac; Some (s, [Sec S_STM true (pr l)]) else Some (s2, []));
  do (s4, o4) <- (if f_stmrew fl || f_stmrew2 fl then do (s, l) <- bio_stable_rew c s3 ac; Some (s, [Sec S_STMREW false (pr l)]) else Some (s3, []));
  Some (o1 ++ o2 ++ o3 ++ o4).

Definition run_naive (c : cfg) (names : list str) (st : store) (ac : list N) (fl : flags) (h : heuristic) : option (list section) :=
  let pr := map (print_interp names) in
  do (s1, o1) <- (if f_grd fl then do (s, g) <- grounded c st ac; Some (s, [Sec S_GRD true (pr [g])]) else Some (st, []));
  do (s2, o2) <- (if f_com fl then do (s, l) <- complete c s1 ac; Some (s, [Sec S_COM true (pr l)]) else Some (s1, []));
  do (s3, o3) <- (if f_stm fl then do (s, l) <- stable c s2 ac; Some (s, [Sec S_STM true (pr l)]) else Some (s2, []));
  do (s4, o4) <- (if f_stmng fl then do (s, l, _) <- nogood_search_cur c ac h false budget s3 []; Some (s, [Sec S_STMNG true (pr l)]) else Some (s3, []));
  Some (o1 ++ o2 ++ o3 ++ o4).

(** exit status and sections; None = a recursion bound of the model was hit *)
Definition cli_run (c : cfg) (m : mode) (sm : sortmode) (fl : flags) (h : heuristic) (text : str)
  : option (N * list section) :=
  let '(ps0, ok) := parse text in
  if negb ok then Some (101, []) else
  let ps := match sm with SLexi => varsort_lexi ps0 | SNone => ps0 end in
  match resolve_acs (names ps) (acs ps) with
  | None => Some (101, [])
  | Some fs =>
    do (st, ac) <- from_parser c (length (names ps)) fs;
    do secs <- (match m with
                | MHybrid => run_hybrid c (names ps) st ac fl h
                | MBio => run_bio c (names ps) st ac fl
                | MNaive => run_naive c (names ps) st ac fl h
                end);
    Some (0, secs)
  end.

(** the (mode, flag) pairs an arm does not wire: the flag is silently ignored *)
Definition wired (m : mode) (flag : str) : bool :=
  match m with
  | MHybrid => true
  | MBio => str_eqb flag S_GRD || str_eqb flag S_COM || str_eqb flag S_STM || str_eqb flag S_STMREW
  | MNaive => str_eqb flag S_GRD || str_eqb flag S_COM || str_eqb flag S_STM || str_eqb flag S_STMNG
  end.
