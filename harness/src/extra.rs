//! Further case kinds and queries (grown per property).
use crate::{handles_string, interp_string, interps_string};
use adf_bdd::adf::heuristics::Heuristic;
use adf_bdd::adf::Adf;
use adf_bdd::datatypes::{Term, Var};
use adf_bdd::nogoods::{DuplicateElemination, NoGood, NoGoodStore};
use adf_bdd::parser::AdfParser;
use std::fmt::Write as _;

pub fn formula_names(parser: &AdfParser) -> Vec<String> {
    #[cfg(adf_obdd_verif)]
    {
        parser.verif_formula_names()
    }
    #[cfg(not(adf_obdd_verif))]
    {
        let _ = parser;
        Vec::new()
    }
}

fn tv_terms(s: &str) -> Vec<Term> {
    s.chars()
        .map(|c| match c {
            'T' => Term::TOP,
            'F' => Term::BOT,
            _ => Term(2),
        })
        .collect()
}

fn ng_string(ng: &NoGood, n: usize) -> String {
    // observe a NoGood through the public update_term_vec on an all-undecided vector
    let mut upd = false;
    let base = vec![Term(2); n];
    interp_string(&ng.update_term_vec(&base, &mut upd))
}

pub fn heuristic_of(q: &[String]) -> Heuristic<'static> {
    match q[0].as_str() {
        "Simple" => Heuristic::Simple,
        "MinModMinPathsMaxVarImp" => Heuristic::MinModMinPathsMaxVarImp,
        "MinModMaxVarImpMinPaths" => Heuristic::MinModMaxVarImpMinPaths,
        "Rand" => Heuristic::Rand,
        "Static" => {
            // custom heuristic: first undecided position in the given order, value from the table
            let order: Vec<usize> = q[1].split(',').map(|x| x.parse().unwrap()).collect();
            let vals: Vec<bool> = q[2].chars().map(|c| c == '1').collect();
            let f: Box<adf_bdd::adf::heuristics::HeuristicFn> = Box::new(move |_adf: &Adf, interp: &[Term]| {
                for &i in order.iter() {
                    if i < interp.len() && !interp[i].is_truth_value() {
                        return Some((Var(i), Term::from(*vals.get(i).unwrap_or(&true))));
                    }
                }
                for (i, t) in interp.iter().enumerate() {
                    if !t.is_truth_value() {
                        return Some((Var(i), Term::TOP));
                    }
                }
                None
            });
            Heuristic::Custom(Box::leak(f))
        }
        _ => panic!("unknown heuristic {:?}", q),
    }
}

pub fn adf_query<'p>(id: &str, qid: &str, q: &[String], adf: &mut Adf, _parser: &'p AdfParser<'p>, out: &mut String) {
    match q[0].as_str() {
        "stmca" => {
            let l: Vec<Vec<Term>> = adf.stable_count_optimisation_heu_a().collect();
            writeln!(out, "{} {} stmca {}", id, qid, interps_string(&l)).unwrap();
        }
        "stmcb" => {
            let l: Vec<Vec<Term>> = adf.stable_count_optimisation_heu_b().collect();
            writeln!(out, "{} {} stmcb {}", id, qid, interps_string(&l)).unwrap();
        }
        "stmng" => {
            let l: Vec<Vec<Term>> = adf.stable_nogood(heuristic_of(&q[1..])).collect();
            writeln!(out, "{} {} stmng {}", id, qid, interps_string(&l)).unwrap();
        }
        "stmngch" => {
            // the channel variant of the nogood search for stable models: the sender is dropped when the call returns
            let (s, r) = crossbeam_channel::unbounded();
            adf.stable_nogood_channel(heuristic_of(&q[1..]), s);
            let l: Vec<Vec<Term>> = r.iter().collect();
            writeln!(out, "{} {} stmngch {}", id, qid, interps_string(&l)).unwrap();
        }
        "twoval" => {
            let (s, r) = crossbeam_channel::unbounded();
            adf.two_val_nogood_channel(heuristic_of(&q[1..]), s);
            let l: Vec<Vec<Term>> = r.iter().collect();
            writeln!(out, "{} {} twoval {}", id, qid, interps_string(&l)).unwrap();
        }
        "counts" => {
            let l = adf.formulacounts(q[1] == "1");
            writeln!(
                out,
                "{} {} counts {}",
                id,
                qid,
                l.iter().map(|c| format!("{}/{}", c.cmodels, c.models)).collect::<Vec<_>>().join(" ")
            )
            .unwrap();
        }
        "roundtrip" => {
            // C14: export / import round trips; the imported object replaces the original for the following queries
            let before = crate::table_string(&adf.bdd);
            let ac_before = handles_string(&adf.ac);
            #[cfg(adf_obdd_verif)]
            let audit_before = adf.bdd.verif_audit();
            if q[1] == "live" {
                // the repair step applied to the live object (no export / import)
                adf.fix_import();
                #[allow(unused_mut)]
                let mut audit = String::new();
                #[cfg(adf_obdd_verif)]
                {
                    let pick = |a: &str, key: &str| a.lines().find(|l| l.starts_with(key)).unwrap_or("").to_string();
                    let audit_after = adf.bdd.verif_audit();
                    audit = format!(
                        " uniq_equal={} vdeps_equal={}",
                        (pick(&audit_before, "uniq") == pick(&audit_after, "uniq")) as u8,
                        (pick(&audit_before, "vdeps") == pick(&audit_after, "vdeps")) as u8
                    );
                }
                writeln!(
                    out,
                    "{} {} roundtrip live nodes_equal={} ac_equal={}{}",
                    id,
                    qid,
                    (before == crate::table_string(&adf.bdd)) as u8,
                    (ac_before == handles_string(&adf.ac)) as u8,
                    audit
                )
                .unwrap();
                return;
            }
            let new_adf: Adf = match q[1].as_str() {
                "json" | "jsonnofix" => {
                    let s = serde_json::to_string(&*adf).unwrap();
                    let mut a2: Adf = serde_json::from_str(&s).unwrap();
                    if q[1] == "json" {
                        a2.fix_import();
                    }
                    a2
                }
                _ => {
                    // the web service's path: plain node list + ordering + roots
                    let bdd = adf_bdd::obdd::Bdd::from(adf.bdd.nodes.clone());
                    Adf::from((adf.ordering.clone(), bdd, adf.ac.clone()))
                }
            };
            let after = crate::table_string(&new_adf.bdd);
            #[allow(unused_mut)]
            let mut audit = String::new();
            #[cfg(adf_obdd_verif)]
            {
                let pick = |a: &str, key: &str| a.lines().find(|l| l.starts_with(key)).unwrap_or("").to_string();
                let audit_after = new_adf.bdd.verif_audit();
                audit = format!(
                    " uniq_equal={} vdeps_equal={}",
                    (pick(&audit_before, "uniq") == pick(&audit_after, "uniq")) as u8,
                    (pick(&audit_before, "vdeps") == pick(&audit_after, "vdeps")) as u8
                );
            }
            writeln!(
                out,
                "{} {} roundtrip {} nodes_equal={} ac_equal={}{}",
                id,
                qid,
                q[1],
                (before == after) as u8,
                (ac_before == handles_string(&new_adf.ac)) as u8,
                audit
            )
            .unwrap();
            *adf = new_adf;
        }
        "panicflow" => {
            // C11: a history with a call that panics and is caught.  Two copies of the object are imported; one is
            // repaired at once (the reference), the other is asked q[1..] BEFORE the repair step (the missing
            // bookkeeping makes the library panic in most cases), the panic is caught, the same object is repaired
            // and asked again.  From then on it has to answer like the reference.
            let s = serde_json::to_string(&*adf).unwrap();
            let mut reference: Adf = serde_json::from_str(&s).unwrap();
            reference.fix_import();
            let mut imported: Adf = serde_json::from_str(&s).unwrap();
            let attempt = std::panic::catch_unwind(std::panic::AssertUnwindSafe(|| {
                let mut sink = String::new();
                match q[1].as_str() {
                    "grounded" => {
                        imported.grounded();
                    }
                    "complete" => {
                        let _: Vec<Vec<Term>> = imported.complete().collect();
                    }
                    "stable" => {
                        let _: Vec<Vec<Term>> = imported.stable().collect();
                    }
                    "stablepre" => {
                        let _: Vec<Vec<Term>> = imported.stable_with_prefilter().collect();
                    }
                    _ => adf_query(id, qid, &q[1..], &mut imported, _parser, &mut sink),
                }
            }));
            imported.fix_import();
            let answers = |a: &mut Adf| -> Vec<String> {
                let g = a.grounded();
                let c: Vec<Vec<Term>> = a.complete().collect();
                let st: Vec<Vec<Term>> = a.stable().collect();
                let ng: Vec<Vec<Term>> = a.stable_nogood(Heuristic::Simple).collect();
                vec![
                    format!("grounded {}", interp_string(&g)),
                    format!("complete {}", interps_string(&c)),
                    format!("stable {}", interps_string(&st)),
                    format!("stmng {}", interps_string(&ng)),
                    format!("acs {}", handles_string(&a.ac)),
                ]
            };
            let want = answers(&mut reference);
            let got = std::panic::catch_unwind(std::panic::AssertUnwindSafe(|| answers(&mut imported)));
            let outcome = if attempt.is_err() { "panicked" } else { "returned" };
            match got {
                Ok(got) if got == want => writeln!(out, "{} {} panicflow same=1 outcome={}", id, qid, outcome).unwrap(),
                Ok(got) => {
                    let k = (0..want.len()).find(|i| got[*i] != want[*i]).unwrap();
                    writeln!(out, "{} {} panicflow same=0 outcome={} got[{}] want[{}]", id, qid, outcome, got[k], want[k]).unwrap()
                }
                Err(_) => writeln!(out, "{} {} panicflow same=0 outcome={} the repaired object panics", id, qid, outcome).unwrap(),
            }
        }
        "audit" => {
            #[cfg(adf_obdd_verif)]
            {
                // FNV-1a over the canonical dump of every bookkeeping table (line by line)
                let a = adf.bdd.verif_audit();
                let hs: Vec<String> = a
                    .lines()
                    .map(|l| {
                        let mut h: u64 = 0xcbf29ce484222325;
                        for b in l.bytes() {
                            h ^= b as u64;
                            h = h.wrapping_mul(0x100000001b3);
                        }
                        format!("{}={:016x}", l.split(' ').next().unwrap_or(""), h)
                    })
                    .collect();
                writeln!(out, "{} {} audit {}", id, qid, hs.join(" ")).unwrap();
            }
        }
        "ops" => {
            // extra formulas built on the shared diagram; registers start as the acceptance conditions
            let mut regs: Vec<Term> = adf.ac.clone();
            let mut res: Vec<String> = Vec::new();
            for o in q[1].split(';') {
                let w: Vec<&str> = o.split(':').collect();
                let r = |i: usize, regs: &Vec<Term>| regs[w[i].parse::<usize>().unwrap() % regs.len()];
                let t = match w[0] {
                    "var" => adf.bdd.variable(Var(w[1].parse().unwrap())),
                    "not" => { let a = r(1, &regs); adf.bdd.not(a) }
                    "and" => { let (a, b) = (r(1, &regs), r(2, &regs)); adf.bdd.and(a, b) }
                    "or" => { let (a, b) = (r(1, &regs), r(2, &regs)); adf.bdd.or(a, b) }
                    "xor" => { let (a, b) = (r(1, &regs), r(2, &regs)); adf.bdd.xor(a, b) }
                    "iff" => { let (a, b) = (r(1, &regs), r(2, &regs)); adf.bdd.iff(a, b) }
                    "imp" => { let (a, b) = (r(1, &regs), r(2, &regs)); adf.bdd.imp(a, b) }
                    "restrict" => { let a = r(1, &regs); adf.bdd.restrict(a, Var(w[2].parse().unwrap()), w[3] == "1") }
                    _ => panic!("bad op {}", o),
                };
                regs.push(t);
                res.push(t.value().to_string());
            }
            writeln!(out, "{} {} ops {}", id, qid, res.join(",")).unwrap();
        }
        "facets" => {
            let g = adf.grounded();
            let f = adf.facet_count(&g);
            writeln!(
                out,
                "{} {} facets {}",
                id,
                qid,
                f.iter().map(|(m, (cf, fc))| format!("{}/{}:{}:{}", m.cmodels, m.models, cf, fc)).collect::<Vec<_>>().join(" ")
            )
            .unwrap();
        }
        "depths" => {
            let d: Vec<String> = adf.ac.iter().map(|t| adf.bdd.max_depth(*t).to_string()).collect();
            writeln!(out, "{} {} depths {}", id, qid, d.join(",")).unwrap();
        }
        "acs" => {
            writeln!(out, "{} {} acs {}", id, qid, handles_string(&adf.ac)).unwrap();
        }
        "rebuild" => {
            // the same parser object is sorted (again) and a new ADF is instantiated from it (native back-end)
            match q[1].as_str() {
                "lexi" => {
                    _parser.varsort_lexi();
                }
                "alnum" => {
                    _parser.varsort_alphanum();
                }
                _ => {}
            }
            *adf = Adf::from_parser(_parser);
            let names: Vec<String> = _parser.var_container().names().read().unwrap().clone();
            let dv: Vec<String> = names.iter().map(|s| _parser.dict_value(s).map(|i| i.to_string()).unwrap_or_else(|| "none".to_string())).collect();
            writeln!(out, "{} {} rebuild {} names={} dict={}", id, qid, q[1], names.iter().map(|s| crate::hex(s)).collect::<Vec<_>>().join(","), dv.join(",")).unwrap();
        }
        "reparse" => {
            // a second parse() call on the same parser object, then a new ADF is instantiated from it (native back-end)
            let t: &'static str = Box::leak(crate::unhex(&q[1]).into_boxed_str());
            let ok = _parser.parse()(t).is_ok();
            let built = std::panic::catch_unwind(std::panic::AssertUnwindSafe(|| Adf::from_parser(_parser)));
            match built {
                Ok(a2) => {
                    *adf = a2;
                    let names: Vec<String> = _parser.var_container().names().read().unwrap().clone();
                    writeln!(
                        out,
                        "{} {} reparse {} names={} acs={}",
                        id,
                        qid,
                        if ok { "OK" } else { "ERR" },
                        names.iter().map(|s| crate::hex(s)).collect::<Vec<_>>().join(","),
                        handles_string(&adf.ac)
                    )
                    .unwrap();
                }
                Err(_) => writeln!(out, "{} {} reparse {} PANIC", id, qid, if ok { "OK" } else { "ERR" }).unwrap(),
            }
        }
        "paths" => {
            // path counts of the two terminals and of every acceptance condition, through the count cache /
            // memoisation and by plain recursion
            let mut hs: Vec<Term> = vec![Term(0), Term(1)];
            hs.extend(adf.ac.iter().copied());
            let l: Vec<String> = hs
                .iter()
                .map(|t| {
                    let a = adf.bdd.paths(*t, true);
                    let b = adf.bdd.paths(*t, false);
                    format!("{}:{}/{}:{}/{}", t.value(), a.cmodels, a.models, b.cmodels, b.models)
                })
                .collect();
            writeln!(out, "{} {} paths {}", id, qid, l.join(" ")).unwrap();
        }
        _ => panic!("unknown adf query {:?}", q),
    }
}

fn run_ng(id: &str, lines: &[String], out: &mut String) {
    let mut n = 0usize;
    let mut store: Option<NoGoodStore> = None;
    let mut k = 0usize;
    for line in lines {
        let w: Vec<&str> = line.split_whitespace().collect();
        if w.is_empty() {
            continue;
        }
        match w[0] {
            "n" => {
                n = w[1].parse().unwrap();
                store = Some(NoGoodStore::new(n as u32));
            }
            "mode" => {
                let m = match w[1] {
                    "none" => DuplicateElemination::None,
                    "equiv" => DuplicateElemination::Equiv,
                    _ => DuplicateElemination::Subsume,
                };
                store.as_mut().unwrap().set_dup_elem(m);
            }
            "add" => {
                let ng = NoGood::from_term_vec(&tv_terms(w[1]));
                store.as_mut().unwrap().add_ng(ng);
            }
            "concl" => {
                let ng = NoGood::from_term_vec(&tv_terms(w[1]));
                let r = store.as_ref().unwrap().conclusions(&ng);
                writeln!(
                    out,
                    "{} q{} concl {}",
                    id,
                    k,
                    match r {
                        Some(x) => ng_string(&x, n),
                        None => "CONFLICT".to_string(),
                    }
                )
                .unwrap();
                k += 1;
            }
            "closure" => {
                #[cfg(adf_obdd_verif)]
                {
                    let t = tv_terms(w[1]);
                    let r = store.as_ref().unwrap().verif_conclusion_closure(&t);
                    writeln!(
                        out,
                        "{} q{} closure {}",
                        id,
                        k,
                        match r {
                            Some(Some(v)) => format!("Update {}", interp_string(&v)),
                            Some(None) => "NoUpdate".to_string(),
                            None => "Inconsistent".to_string(),
                        }
                    )
                    .unwrap();
                }
                k += 1;
            }
            "conclude" => {
                let a = NoGood::from_term_vec(&tv_terms(w[1]));
                let b = NoGood::from_term_vec(&tv_terms(w[2]));
                writeln!(
                    out,
                    "{} q{} conclude {} viol {}",
                    id,
                    k,
                    match a.conclude(&b) {
                        Some((p, v)) => format!("{}:{}", p, v as u8),
                        None => "none".to_string(),
                    },
                    a.is_violating(&b) as u8
                )
                .unwrap();
                k += 1;
            }
            "single" => {
                let g = NoGood::new_single_nogood(w[1].parse().unwrap(), w[2] == "1");
                writeln!(out, "{} q{} single {}", id, k, ng_string(&g, n)).unwrap();
                k += 1;
            }
            "disj" => {
                let mut a = NoGood::from_term_vec(&tv_terms(w[1]));
                let b = NoGood::from_term_vec(&tv_terms(w[2]));
                a.disjunction(&b);
                writeln!(out, "{} q{} disj {}", id, k, ng_string(&a, n)).unwrap();
                k += 1;
            }
            "contra" => {
                let a = NoGood::from_term_vec(&tv_terms(w[1]));
                let b = NoGood::from_term_vec(&tv_terms(w[2]));
                writeln!(out, "{} q{} contra {}", id, k, a.is_contradicting(&b) as u8).unwrap();
                k += 1;
            }
            "pairs" => {
                let ps: Vec<(usize, bool)> = if w[1] == "-" {
                    Vec::new()
                } else {
                    w[1].split(',')
                        .map(|x| {
                            let y: Vec<&str> = x.split(':').collect();
                            (y[0].parse().unwrap(), y[1] == "1")
                        })
                        .collect()
                };
                let r = NoGood::try_from_pair_iter(&mut ps.into_iter());
                writeln!(
                    out,
                    "{} q{} pairs {}",
                    id,
                    k,
                    match r {
                        Some(g) => ng_string(&g, n),
                        None => "NONE".to_string(),
                    }
                )
                .unwrap();
                k += 1;
            }
            "dump" => {
                #[cfg(adf_obdd_verif)]
                {
                    let d = store.as_ref().unwrap().verif_dump();
                    let s: Vec<String> = d
                        .iter()
                        .map(|b| {
                            b.iter()
                                .map(|(a, v)| {
                                    (0..n as u32)
                                        .map(|i| {
                                            if a.contains(&i) {
                                                if v.contains(&i) {
                                                    'T'
                                                } else {
                                                    'F'
                                                }
                                            } else {
                                                'u'
                                            }
                                        })
                                        .collect::<String>()
                                })
                                .collect::<Vec<_>>()
                                .join(",")
                        })
                        .collect();
                    writeln!(out, "{} q{} dump {}", id, k, s.join("|")).unwrap();
                }
                k += 1;
            }
            _ => panic!("bad ng line {}", line),
        }
    }
}


fn run_leaf(id: &str, lines: &[String], out: &mut String) {
    use adf_bdd::datatypes::ModelCounts;
    let mut k = 0usize;
    for line in lines {
        let w: Vec<&str> = line.split_whitespace().collect();
        if w.is_empty() {
            continue;
        }
        let n = |i: usize| w[i].parse::<usize>().unwrap();
        let r = match w[0] {
            "more" => format!("more {}", ModelCounts::from((n(1), n(2))).more_models() as u8),
            "min" => format!("min {}", ModelCounts::from((n(1), n(2))).minimum()),
            "istv" => format!("istv {}", Term(n(1)).is_truth_value() as u8),
            "cmpinf" => format!("cmpinf {}", Term(n(1)).compare_inf(&Term(n(2))) as u8),
            "noinf" => format!("noinf {}", Term(n(1)).no_inf_inconsistency(&Term(n(2))) as u8),
            "isconst" => format!("isconst {}", Var(n(1)).is_constant() as u8),
            _ => panic!("bad leaf line {}", line),
        };
        writeln!(out, "{} q{} {}", id, k, r).unwrap();
        k += 1;
    }
}


/// STREAM cases (C19): a producer store streams its nodes; the harness owns the channels and moves
/// pending nodes towards the relay / the receiver one by one, so that every cut of the message
/// stream can be placed between individual node creations.
#[cfg(feature = "frontend")]
fn run_stream(id: &str, lines: &[String], out: &mut String) {
    use adf_bdd::datatypes::BddNode;
    use adf_bdd::obdd::Bdd;
    use crossbeam_channel::unbounded;
    let (p_tx, p_rx) = unbounded::<BddNode>(); // producer -> harness
    let (r_in_tx, r_in_rx) = unbounded::<BddNode>(); // harness -> relay
    let (r_out_tx, r_out_rx0) = unbounded::<BddNode>(); // relay -> harness
    let mut r_out_rx = Some(r_out_rx0); // "dropdown" drops it: whatever listens behind the relay has gone away
    let (c_in_tx, c_in_rx) = unbounded::<BddNode>(); // harness -> receiver
    let mut producer = Bdd::with_sender(p_tx);
    // the relay is put together in one of the three ways the interface offers (first line "relaymode <n>")
    let mode = lines.first().map(|l| l.as_str()).unwrap_or("");
    let mut relay = if mode == "relaymode 1" {
        let mut r = Bdd::with_sender(r_out_tx);
        r.set_receiver(r_in_rx);
        r
    } else if mode == "relaymode 2" {
        let mut r = Bdd::with_receiver(r_in_rx);
        r.set_sender(r_out_tx);
        r
    } else {
        Bdd::with_sender_receiver(r_out_tx, r_in_rx)
    };
    let mut receiver = Bdd::with_receiver(c_in_rx);
    let mut regs: Vec<Term> = Vec::new();
    let mut k = 0usize;
    let tab = |b: &Bdd| crate::table_string(b);
    for line in lines {
        let w: Vec<&str> = line.split_whitespace().collect();
        if w.is_empty() {
            continue;
        }
        let reg = |s: &str, regs: &Vec<Term>| regs[s.parse::<usize>().unwrap()];
        match w[0] {
            "var" => regs.push(producer.variable(Var(w[1].parse().unwrap()))),
            "not" => regs.push(producer.not(reg(w[1], &regs))),
            "and" => regs.push(producer.and(reg(w[1], &regs), reg(w[2], &regs))),
            "or" => regs.push(producer.or(reg(w[1], &regs), reg(w[2], &regs))),
            "imp" => regs.push(producer.imp(reg(w[1], &regs), reg(w[2], &regs))),
            "iff" => regs.push(producer.iff(reg(w[1], &regs), reg(w[2], &regs))),
            "xor" => regs.push(producer.xor(reg(w[1], &regs), reg(w[2], &regs))),
            "restrict" => regs.push(producer.restrict(reg(w[1], &regs), Var(w[2].parse().unwrap()), w[3] == "1")),
            "const" => regs.push(Bdd::constant(w[1] == "1")),
            "pump1" => {
                for _ in 0..w[1].parse::<usize>().unwrap() {
                    if let Ok(n) = p_rx.try_recv() {
                        r_in_tx.send(n).unwrap();
                    }
                }
            }
            "pump2" => {
                for _ in 0..w[1].parse::<usize>().unwrap() {
                    if let Some(rx) = &r_out_rx {
                        if let Ok(n) = rx.try_recv() {
                            c_in_tx.send(n).unwrap();
                        }
                    }
                }
            }
            "dropdown" => {
                r_out_rx = None;
            }
            "fiximport" => {
                // the repair step is a public call like any other: applied to a store that is part of a stream it
                // must leave the stream as it is
                match w[1] {
                    "p" => producer.fix_import(),
                    "r" => relay.fix_import(),
                    _ => receiver.fix_import(),
                }
            }
            "relaymode" => {}
            "mirroruniq" => {
                // every node the producer holds is asked for again on both mirrors: a mirror that registered what it
                // received answers with the handle it already has and does not grow
                let mut bad = 0usize;
                let pn = producer.nodes.clone();
                for (which, m) in [(1usize, &mut relay), (2usize, &mut receiver)] {
                    let before = m.nodes.len();
                    for (i, nd) in pn.iter().enumerate().skip(2) {
                        if i >= before {
                            break;
                        }
                        let t = m.node(nd.var(), nd.lo(), nd.hi());
                        if t != Term(i) {
                            bad += 1;
                        }
                    }
                    if m.nodes.len() != before {
                        bad += 1000 * which;
                    }
                }
                writeln!(out, "{} q{} mirroruniq {}", id, k, bad).unwrap();
                k += 1;
            }
            "poll1" => {
                let f = relay.recv(Term(w[1].parse().unwrap()));
                writeln!(out, "{} q{} poll1 {} {}", id, k, f as u8, relay.nodes.len()).unwrap();
                k += 1;
            }
            "poll2" => {
                let f = receiver.recv(Term(w[1].parse().unwrap()));
                writeln!(out, "{} q{} poll2 {} {}", id, k, f as u8, receiver.nodes.len()).unwrap();
                k += 1;
            }
            "tables" => {
                writeln!(out, "{} q{} tables {} | {} | {}", id, k, tab(&producer), tab(&relay), tab(&receiver)).unwrap();
                k += 1;
            }
            _ => panic!("bad stream line {}", line),
        }
    }
}
#[cfg(not(feature = "frontend"))]
fn run_stream(_id: &str, _lines: &[String], _out: &mut String) {}

/// C19 with BOUNDED channels and real threads: producer, relay and receiver run concurrently, the relay starts
/// polling late, every send may have to wait for the consumer.  Whatever the schedule, once the producer is done
/// and both channels are drained the three node tables must be identical.
#[cfg(feature = "frontend")]
fn run_stream_threads(id: &str, rest: &[String], lines: &[String], out: &mut String) {
    use adf_bdd::datatypes::BddNode;
    use adf_bdd::obdd::Bdd;
    use crossbeam_channel::bounded;
    use std::sync::atomic::{AtomicBool, Ordering};
    use std::sync::Arc;
    let cap: usize = rest.first().and_then(|x| x.parse().ok()).unwrap_or(1);
    let delay_us: u64 = rest.get(1).and_then(|x| x.parse().ok()).unwrap_or(2000);
    let (s1, r1) = bounded::<BddNode>(cap);
    let (s2, r2) = bounded::<BddNode>(cap);
    let producer_done = Arc::new(AtomicBool::new(false));
    let relay_done = Arc::new(AtomicBool::new(false));
    let prog: Vec<String> = lines.to_vec();
    let pd = producer_done.clone();
    let producer = std::thread::spawn(move || {
        let mut bdd = Bdd::with_sender(s1);
        let mut regs: Vec<Term> = Vec::new();
        for line in &prog {
            let w: Vec<&str> = line.split_whitespace().collect();
            if w.is_empty() {
                continue;
            }
            let reg = |s: &str, regs: &Vec<Term>| regs[s.parse::<usize>().unwrap()];
            match w[0] {
                "var" => regs.push(bdd.variable(Var(w[1].parse().unwrap()))),
                "not" => regs.push(bdd.not(reg(w[1], &regs))),
                "and" => regs.push(bdd.and(reg(w[1], &regs), reg(w[2], &regs))),
                "or" => regs.push(bdd.or(reg(w[1], &regs), reg(w[2], &regs))),
                "imp" => regs.push(bdd.imp(reg(w[1], &regs), reg(w[2], &regs))),
                "iff" => regs.push(bdd.iff(reg(w[1], &regs), reg(w[2], &regs))),
                "xor" => regs.push(bdd.xor(reg(w[1], &regs), reg(w[2], &regs))),
                "restrict" => regs.push(bdd.restrict(reg(w[1], &regs), Var(w[2].parse().unwrap()), w[3] == "1")),
                "const" => regs.push(Bdd::constant(w[1] == "1")),
                "fiximport" if w[1] == "p" => bdd.fix_import(),
                _ => {}
            }
        }
        let t = crate::table_string(&bdd);
        let n = bdd.nodes.len();
        drop(bdd);
        pd.store(true, Ordering::SeqCst);
        (t, n)
    });
    let pd2 = producer_done.clone();
    let rd = relay_done.clone();
    let relay = std::thread::spawn(move || {
        let mut relay = Bdd::with_sender_receiver(s2, r1);
        std::thread::sleep(std::time::Duration::from_micros(delay_us)); // a late consumer
        loop {
            let done = pd2.load(Ordering::SeqCst);
            relay.recv(Term(usize::MAX));
            if done {
                break;
            }
            std::thread::sleep(std::time::Duration::from_micros(50));
        }
        let t = crate::table_string(&relay);
        drop(relay);
        rd.store(true, Ordering::SeqCst);
        t
    });
    let mut last = Bdd::with_receiver(r2);
    loop {
        let done = relay_done.load(Ordering::SeqCst);
        last.recv(Term(usize::MAX));
        if done {
            break;
        }
        std::thread::sleep(std::time::Duration::from_micros(50));
    }
    let (pt, pn) = producer.join().unwrap();
    let rt = relay.join().unwrap();
    let lt = crate::table_string(&last);
    writeln!(out, "{} threads cap={} producer_nodes={} relay_equal={} last_equal={}", id, cap, pn, (pt == rt) as u8, (pt == lt) as u8).unwrap();
}
#[cfg(not(feature = "frontend"))]
fn run_stream_threads(_id: &str, _rest: &[String], _lines: &[String], _out: &mut String) {}

pub fn run_case(id: &str, kind: &str, _rest: &[String], lines: &[String], out: &mut String) {
    match kind {
        "NG" => run_ng(id, lines, out),
        "LEAF" => run_leaf(id, lines, out),
        "STREAM" => run_stream(id, lines, out),
        "STREAMT" => run_stream_threads(id, _rest, lines, out),
        _ => panic!("unknown case kind {}", kind),
    }
}

#[allow(dead_code)]
pub fn unused(_v: Var) {}
