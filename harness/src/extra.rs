//! Further case kinds and queries (grown per property).
use crate::{handles_string, interp_string, interps_string};
use adf_bdd::adf::heuristics::Heuristic;
use adf_bdd::adf::Adf;
use adf_bdd::datatypes::{Term, Var};
use adf_bdd::nogoods::{DuplicateElemination, NoGood, NoGoodStore};
use adf_bdd::parser::AdfParser;
use std::fmt::Write as _;

pub fn formula_names(parser: &AdfParser) -> Vec<String> {
    #[cfg(adf_obdd_verif)]
    {
        parser.verif_formula_names()
    }
    #[cfg(not(adf_obdd_verif))]
    {
        let _ = parser;
        Vec::new()
    }
}

fn tv_terms(s: &str) -> Vec<Term> {
    s.chars()
        .map(|c| match c {
            'T' => Term::TOP,
            'F' => Term::BOT,
            _ => Term(2),
        })
        .collect()
}

fn ng_string(ng: &NoGood, n: usize) -> String {
    // observe a NoGood through the public update_term_vec on an all-undecided vector
    let mut upd = false;
    let base = vec![Term(2); n];
    interp_string(&ng.update_term_vec(&base, &mut upd))
}

pub fn heuristic_of(q: &[String]) -> Heuristic<'static> {
    match q[0].as_str() {
        "Simple" => Heuristic::Simple,
        "MinModMinPathsMaxVarImp" => Heuristic::MinModMinPathsMaxVarImp,
        "MinModMaxVarImpMinPaths" => Heuristic::MinModMaxVarImpMinPaths,
        "Rand" => Heuristic::Rand,
        "Static" => {
            // custom heuristic: first undecided position in the given order, value from the table
            let order: Vec<usize> = q[1].split(',').map(|x| x.parse().unwrap()).collect();
            let vals: Vec<bool> = q[2].chars().map(|c| c == '1').collect();
            let f: Box<adf_bdd::adf::heuristics::HeuristicFn> = Box::new(move |_adf: &Adf, interp: &[Term]| {
                for &i in order.iter() {
                    if i < interp.len() && !interp[i].is_truth_value() {
                        return Some((Var(i), Term::from(*vals.get(i).unwrap_or(&true))));
                    }
                }
                for (i, t) in interp.iter().enumerate() {
                    if !t.is_truth_value() {
                        return Some((Var(i), Term::TOP));
                    }
                }
                None
            });
            Heuristic::Custom(Box::leak(f))
        }
        _ => panic!("unknown heuristic {:?}", q),
    }
}

pub fn adf_query(id: &str, qid: &str, q: &[String], adf: &mut Adf, _parser: &AdfParser, out: &mut String) {
    match q[0].as_str() {
        "stmca" => {
            let l: Vec<Vec<Term>> = adf.stable_count_optimisation_heu_a().collect();
            writeln!(out, "{} {} stmca {}", id, qid, interps_string(&l)).unwrap();
        }
        "stmcb" => {
            let l: Vec<Vec<Term>> = adf.stable_count_optimisation_heu_b().collect();
            writeln!(out, "{} {} stmcb {}", id, qid, interps_string(&l)).unwrap();
        }
        "stmng" => {
            let l: Vec<Vec<Term>> = adf.stable_nogood(heuristic_of(&q[1..])).collect();
            writeln!(out, "{} {} stmng {}", id, qid, interps_string(&l)).unwrap();
        }
        "twoval" => {
            let (s, r) = crossbeam_channel::unbounded();
            adf.two_val_nogood_channel(heuristic_of(&q[1..]), s);
            let l: Vec<Vec<Term>> = r.iter().collect();
            writeln!(out, "{} {} twoval {}", id, qid, interps_string(&l)).unwrap();
        }
        "counts" => {
            let l = adf.formulacounts(q[1] == "1");
            writeln!(
                out,
                "{} {} counts {}",
                id,
                qid,
                l.iter().map(|c| format!("{}/{}", c.cmodels, c.models)).collect::<Vec<_>>().join(" ")
            )
            .unwrap();
        }
        "acs" => {
            writeln!(out, "{} {} acs {}", id, qid, handles_string(&adf.ac)).unwrap();
        }
        _ => panic!("unknown adf query {:?}", q),
    }
}

fn run_ng(id: &str, lines: &[String], out: &mut String) {
    let mut n = 0usize;
    let mut store: Option<NoGoodStore> = None;
    let mut k = 0usize;
    for line in lines {
        let w: Vec<&str> = line.split_whitespace().collect();
        if w.is_empty() {
            continue;
        }
        match w[0] {
            "n" => {
                n = w[1].parse().unwrap();
                store = Some(NoGoodStore::new(n as u32));
            }
            "mode" => {
                let m = match w[1] {
                    "none" => DuplicateElemination::None,
                    "equiv" => DuplicateElemination::Equiv,
                    _ => DuplicateElemination::Subsume,
                };
                store.as_mut().unwrap().set_dup_elem(m);
            }
            "add" => {
                let ng = NoGood::from_term_vec(&tv_terms(w[1]));
                store.as_mut().unwrap().add_ng(ng);
            }
            "concl" => {
                let ng = NoGood::from_term_vec(&tv_terms(w[1]));
                let r = store.as_ref().unwrap().conclusions(&ng);
                writeln!(
                    out,
                    "{} q{} concl {}",
                    id,
                    k,
                    match r {
                        Some(x) => ng_string(&x, n),
                        None => "CONFLICT".to_string(),
                    }
                )
                .unwrap();
                k += 1;
            }
            "closure" => {
                #[cfg(adf_obdd_verif)]
                {
                    let t = tv_terms(w[1]);
                    let r = store.as_ref().unwrap().verif_conclusion_closure(&t);
                    writeln!(
                        out,
                        "{} q{} closure {}",
                        id,
                        k,
                        match r {
                            Some(Some(v)) => format!("Update {}", interp_string(&v)),
                            Some(None) => "NoUpdate".to_string(),
                            None => "Inconsistent".to_string(),
                        }
                    )
                    .unwrap();
                }
                k += 1;
            }
            "conclude" => {
                let a = NoGood::from_term_vec(&tv_terms(w[1]));
                let b = NoGood::from_term_vec(&tv_terms(w[2]));
                writeln!(
                    out,
                    "{} q{} conclude {} viol {}",
                    id,
                    k,
                    match a.conclude(&b) {
                        Some((p, v)) => format!("{}:{}", p, v as u8),
                        None => "none".to_string(),
                    },
                    a.is_violating(&b) as u8
                )
                .unwrap();
                k += 1;
            }
            "dump" => {
                #[cfg(adf_obdd_verif)]
                {
                    let d = store.as_ref().unwrap().verif_dump();
                    let s: Vec<String> = d
                        .iter()
                        .map(|b| {
                            b.iter()
                                .map(|(a, v)| {
                                    (0..n as u32)
                                        .map(|i| {
                                            if a.contains(&i) {
                                                if v.contains(&i) {
                                                    'T'
                                                } else {
                                                    'F'
                                                }
                                            } else {
                                                'u'
                                            }
                                        })
                                        .collect::<String>()
                                })
                                .collect::<Vec<_>>()
                                .join(",")
                        })
                        .collect();
                    writeln!(out, "{} q{} dump {}", id, k, s.join("|")).unwrap();
                }
                k += 1;
            }
            _ => panic!("bad ng line {}", line),
        }
    }
}


fn run_leaf(id: &str, lines: &[String], out: &mut String) {
    use adf_bdd::datatypes::ModelCounts;
    let mut k = 0usize;
    for line in lines {
        let w: Vec<&str> = line.split_whitespace().collect();
        if w.is_empty() {
            continue;
        }
        let n = |i: usize| w[i].parse::<usize>().unwrap();
        let r = match w[0] {
            "more" => format!("more {}", ModelCounts::from((n(1), n(2))).more_models() as u8),
            "min" => format!("min {}", ModelCounts::from((n(1), n(2))).minimum()),
            "istv" => format!("istv {}", Term(n(1)).is_truth_value() as u8),
            "cmpinf" => format!("cmpinf {}", Term(n(1)).compare_inf(&Term(n(2))) as u8),
            "noinf" => format!("noinf {}", Term(n(1)).no_inf_inconsistency(&Term(n(2))) as u8),
            "isconst" => format!("isconst {}", Var(n(1)).is_constant() as u8),
            _ => panic!("bad leaf line {}", line),
        };
        writeln!(out, "{} q{} {}", id, k, r).unwrap();
        k += 1;
    }
}

pub fn run_case(id: &str, kind: &str, _rest: &[String], lines: &[String], out: &mut String) {
    match kind {
        "NG" => run_ng(id, lines, out),
        "LEAF" => run_leaf(id, lines, out),
        _ => panic!("unknown case kind {}", kind),
    }
}

#[allow(dead_code)]
pub fn unused(_v: Var) {}
