//! Further case kinds and queries (grown per property).
use adf_bdd::adf::Adf;
use adf_bdd::parser::AdfParser;

pub fn formula_name(_parser: &AdfParser, _i: usize) -> String {
    // the statement an ac fact belongs to is private to the parser; it is observed
    // through Adf::from_parser (ADF cases) instead
    String::new()
}

pub fn adf_query(_id: &str, _qid: &str, q: &[String], _adf: &mut Adf, _parser: &AdfParser, _out: &mut String) {
    panic!("unknown adf query {:?}", q);
}

pub fn run_case(_id: &str, kind: &str, _rest: &[String], _lines: &[String], _out: &mut String) {
    panic!("unknown case kind {}", kind);
}
