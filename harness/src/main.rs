//! Correspondence harness: runs the implementation (/repo/lib, current working tree) on the
//! case file the OCaml driver of the Coq model reads, and prints one observation per line in
//! the same format.  Every case runs under catch_unwind; a panic is an observation.
use adf_bdd::adf::Adf;
use adf_bdd::datatypes::{Term, Var};
use adf_bdd::obdd::Bdd;
use adf_bdd::parser::AdfParser;
use std::fmt::Write as _;
use std::io::{BufRead, Write};
use std::panic::{catch_unwind, AssertUnwindSafe};

mod extra;

pub fn unhex(s: &str) -> String {
    let bytes: Vec<u8> = (0..s.len() / 2)
        .map(|i| u8::from_str_radix(&s[2 * i..2 * i + 2], 16).unwrap())
        .collect();
    String::from_utf8_lossy(&bytes).into_owned()
}
pub fn hex(s: &str) -> String {
    // "h" prefix so that the empty string stays visible in comma-separated lists
    format!("h{}", s.bytes().map(|b| format!("{:02x}", b)).collect::<String>())
}

pub fn table_string(bdd: &Bdd) -> String {
    bdd.nodes
        .iter()
        .map(|n| format!("{}:{}:{}", n.var().value(), n.lo().value(), n.hi().value()))
        .collect::<Vec<_>>()
        .join(";")
}

pub fn interp_string(v: &[Term]) -> String {
    if v.is_empty() {
        // the interpretation of a framework without statements: keep it visible in a space-separated list
        return "-".to_string();
    }
    v.iter()
        .map(|t| {
            if t.is_truth_value() {
                if t.is_true() {
                    'T'
                } else {
                    'F'
                }
            } else {
                'u'
            }
        })
        .collect()
}
pub fn interps_string(l: &[Vec<Term>]) -> String {
    l.iter().map(|v| interp_string(v)).collect::<Vec<_>>().join(" ")
}
pub fn handles_string(v: &[Term]) -> String {
    v.iter().map(|t| t.value().to_string()).collect::<Vec<_>>().join(",")
}

fn vars_string(v: &[Var]) -> String {
    v.iter().map(|t| t.value().to_string()).collect::<Vec<_>>().join(",")
}

fn run_prog(id: &str, lines: &[String], out: &mut String) {
    let mut bdd = Bdd::new();
    let mut regs: Vec<Term> = Vec::new();
    let mut k = 0usize;
    for line in lines {
        let w: Vec<&str> = line.split_whitespace().collect();
        if w.is_empty() {
            continue;
        }
        let reg = |s: &str, regs: &Vec<Term>| regs[s.parse::<usize>().unwrap()];
        let res: Option<Term> = match w[0] {
            "var" => Some(bdd.variable(Var(w[1].parse().unwrap()))),
            "const" => Some(Bdd::constant(w[1] == "1")),
            "not" => Some(bdd.not(reg(w[1], &regs))),
            "and" => Some(bdd.and(reg(w[1], &regs), reg(w[2], &regs))),
            "or" => Some(bdd.or(reg(w[1], &regs), reg(w[2], &regs))),
            "imp" => Some(bdd.imp(reg(w[1], &regs), reg(w[2], &regs))),
            "iff" => Some(bdd.iff(reg(w[1], &regs), reg(w[2], &regs))),
            "xor" => Some(bdd.xor(reg(w[1], &regs), reg(w[2], &regs))),
            "restrict" => Some(bdd.restrict(
                reg(w[1], &regs),
                Var(w[2].parse().unwrap()),
                w[3] == "1",
            )),
            "node" => Some(bdd.node(
                Var(w[1].parse().unwrap()),
                reg(w[2], &regs),
                reg(w[3], &regs),
            )),
            "q" => {
                let qid = format!("q{}", k);
                k += 1;
                match w[1] {
                    "paths" => {
                        let c = bdd.paths(reg(w[2], &regs), w[3] == "1");
                        writeln!(out, "{} {} paths {} {}", id, qid, c.cmodels, c.models).unwrap();
                    }
                    "models" => {
                        let c = bdd.models(reg(w[2], &regs), w[3] == "1");
                        writeln!(out, "{} {} models {} {}", id, qid, c.cmodels, c.models).unwrap();
                    }
                    "depth" => {
                        writeln!(out, "{} {} depth {}", id, qid, bdd.max_depth(reg(w[2], &regs))).unwrap();
                    }
                    "reimport" => {
                        // the store is exported and re-imported in place (serde + fix_import, or the plain node list);
                        // the registers keep their meaning because the numbering is preserved
                        let before = table_string(&bdd);
                        if w[2] == "live" {
                            // the repair step applied to the live store (no export / import)
                            bdd.fix_import();
                            writeln!(out, "{} {} reimport live nodes_equal={}", id, qid, (before == table_string(&bdd)) as u8).unwrap();
                            continue;
                        }
                        let b2: Bdd = if w[2] == "json" {
                            let s = serde_json::to_string(&bdd).unwrap();
                            let mut b: Bdd = serde_json::from_str(&s).unwrap();
                            b.fix_import();
                            b
                        } else {
                            Bdd::from(bdd.nodes.clone())
                        };
                        writeln!(out, "{} {} reimport {} nodes_equal={}", id, qid, w[2], (before == table_string(&b2)) as u8).unwrap();
                        bdd = b2;
                    }
                    "deps" => {
                        let mut d: Vec<usize> = bdd
                            .var_dependencies(reg(w[2], &regs))
                            .iter()
                            .map(|v| v.value())
                            .collect();
                        d.sort();
                        writeln!(
                            out,
                            "{} {} deps {}",
                            id,
                            qid,
                            d.iter().map(|x| x.to_string()).collect::<Vec<_>>().join(",")
                        )
                        .unwrap();
                    }
                    "cubes" => {
                        let cs = bdd.interpretations(
                            reg(w[2], &regs),
                            w[3] == "1",
                            Var(w[4].parse().unwrap()),
                            &[],
                            &[],
                        );
                        writeln!(
                            out,
                            "{} {} cubes {}",
                            id,
                            qid,
                            cs.iter()
                                .map(|(n, p)| format!("{}|{}", vars_string(n), vars_string(p)))
                                .collect::<Vec<_>>()
                                .join(";")
                        )
                        .unwrap();
                    }
                    "pimp" => {
                        let l: Vec<Term> = w[3..].iter().map(|s| reg(s, &regs)).collect();
                        writeln!(out, "{} {} pimp {}", id, qid, bdd.passive_var_impact(Var(w[2].parse().unwrap()), &l)).unwrap();
                    }
                    "aimp" => {
                        let l: Vec<Term> = w[3..].iter().map(|s| reg(s, &regs)).collect();
                        writeln!(out, "{} {} aimp {}", id, qid, bdd.active_var_impact(Var(w[2].parse().unwrap()), &l)).unwrap();
                    }
                    _ => panic!("bad query {}", line),
                }
                None
            }
            _ => panic!("bad op {}", line),
        };
        if let Some(t) = res {
            regs.push(t);
            writeln!(out, "{} r{} {}", id, regs.len() - 1, t.value()).unwrap();
        }
    }
    writeln!(out, "{} table {} {}", id, bdd.nodes.len(), table_string(&bdd)).unwrap();
}

fn dump_string(d: &str) -> String {
    // biodivine's to_string: |var,lo,hi|...; the first two entries are the terminals
    let parts: Vec<&str> = d.split('|').filter(|t| !t.is_empty()).collect();
    if parts.len() == 1 {
        return "F".to_string(); // the constant false has only the 0-terminal
    }
    if parts.len() == 2 {
        return "T".to_string();
    }
    parts
        .iter()
        .skip(2)
        .map(|t| t.replace(',', ":"))
        .collect::<Vec<_>>()
        .join(";")
}

fn run_adf(id: &str, lines: &[String], out: &mut String) {
    let mut text = String::new();
    let mut unparsed = false;
    let mut sort = "none".to_string();
    let mut backend = "native".to_string();
    let mut queries: Vec<Vec<String>> = Vec::new();
    let mut seed: Option<u8> = None;
    for line in lines {
        let w: Vec<&str> = line.split_whitespace().collect();
        if w.is_empty() {
            continue;
        }
        match w[0] {
            "text" => text = if w.len() > 1 { unhex(w[1]) } else { String::new() },
            "unparsed" => unparsed = true,
            "sort" => sort = w[1].to_string(),
            "backend" => backend = w[1].to_string(),
            "cfg" | "draws" | "acdump" | "gdump" => {}
            "seed" => seed = Some(w[1].parse::<u8>().unwrap()),
            "q" => queries.push(w[1..].iter().map(|s| s.to_string()).collect()),
            _ => panic!("bad adf line {}", line),
        }
    }
    let parser = AdfParser::default();
    // "unparsed": the framework of a parser that has read nothing (no statements at all)
    if !unparsed {
        let parsed = parser.parse()(&text);
        if parsed.is_err() {
            writeln!(out, "{} parse ERR", id).unwrap();
            return;
        }
    }
    match sort.as_str() {
        "lexi" => {
            parser.varsort_lexi();
        }
        "alnum" => {
            parser.varsort_alphanum();
        }
        _ => {}
    }
    let names: Vec<String> = parser.var_container().names().read().unwrap().clone();
    writeln!(
        out,
        "{} parse OK {}",
        id,
        names.iter().map(|s| hex(s)).collect::<Vec<_>>().join(",")
    )
    .unwrap();
    {
        // the dictionary of the parser and the variable container built from it: position of every statement, size,
        // a label that does not occur; both directions of the container must agree with the name list
        let dv: Vec<String> = names.iter().map(|s| parser.dict_value(s).map(|i| i.to_string()).unwrap_or_else(|| "none".to_string())).collect();
        let vc = parser.var_container();
        let mut ok = vc.variable("no such statement").is_none() && vc.name(Var(names.len())).is_none();
        for (i, s) in names.iter().enumerate() {
            ok &= vc.variable(s) == Some(Var(i)) && vc.name(Var(i)).as_deref() == Some(s.as_str());
            ok &= vc.mappings().read().unwrap().get(s) == Some(&i);
        }
        ok &= vc.mappings().read().unwrap().len() == names.len();
        writeln!(
            out,
            "{} dict {} {} {} vc={}",
            id,
            parser.dict_size(),
            if dv.is_empty() { "-".to_string() } else { dv.join(",") },
            if parser.dict_value("no such statement").is_some() { "some" } else { "none" },
            ok as u8
        )
        .unwrap();
    }
    let mut bio: Option<adf_bdd::adfbiodivine::Adf> = None;
    if backend != "native" {
        let built = catch_unwind(AssertUnwindSafe(|| {
            if backend == "hybrew" || backend == "biorew" {
                adf_bdd::adfbiodivine::Adf::from_parser_with_stm_rewrite(&parser)
            } else {
                adf_bdd::adfbiodivine::Adf::from_parser(&parser)
            }
        }));
        match built {
            Ok(b) => {
                #[cfg(adf_obdd_verif)]
                {
                    let tv = |d: &String| {
                        // constants are recognised by the bridge through is_true / is_false
                        d.clone()
                    };
                    for (i, d) in b.verif_ac_dumps().iter().enumerate() {
                        writeln!(out, "{} inject acdump {} {}", id, i, dump_string(&tv(d))).unwrap();
                    }
                    for (i, d) in b.verif_grounded_dumps().iter().enumerate() {
                        writeln!(out, "{} inject gdump {} {}", id, i, dump_string(&tv(d))).unwrap();
                    }
                }
                bio = Some(b);
            }
            Err(_) => {
                writeln!(out, "{} build PANIC", id).unwrap();
                return;
            }
        }
    }
    if backend == "bio" || backend == "biorew" {
        let b = bio.as_ref().unwrap();
        for (k, q) in queries.iter().enumerate() {
            let qid = format!("q{}", k);
            match q[0].as_str() {
                "grounded" => {
                    let g = b.grounded();
                    writeln!(out, "{} {} grounded {} {}", id, qid, interp_string(&g), handles_string(&g)).unwrap();
                }
                "complete" => {
                    let l: Vec<Vec<Term>> = b.complete().collect();
                    writeln!(out, "{} {} complete {}", id, qid, interps_string(&l)).unwrap();
                }
                "stable" => {
                    let l: Vec<Vec<Term>> = b.stable().collect();
                    writeln!(out, "{} {} stable {}", id, qid, interps_string(&l)).unwrap();
                }
                "stablerew" => {
                    let mut l: Vec<String> = b.stable_bdd_representation().iter().map(|v| interp_string(v)).collect();
                    l.sort();
                    writeln!(out, "{} {} stablerew {}", id, qid, l.join(" ")).unwrap();
                }
                "validate" => {}
                _ => panic!("query {:?} not available on the biodivine back-end", q),
            }
        }
        return;
    }
    let built = catch_unwind(AssertUnwindSafe(|| match backend.as_str() {
        "native" => Adf::from_parser(&parser),
        // the library has two spellings of each conversion: alternate between them (by the length of the text)
        "hyb0" if text.len() % 2 == 0 => Adf::from_biodivine(bio.as_ref().unwrap()),
        "hyb0" => bio.as_ref().unwrap().hybrid_step_opt(false),
        _ if text.len() % 2 == 0 => bio.as_ref().unwrap().hybrid_step(),
        _ => bio.as_ref().unwrap().hybrid_step_opt(true),
    }));
    let mut adf = match built {
        Ok(a) => a,
        Err(_) => {
            writeln!(out, "{} build PANIC", id).unwrap();
            return;
        }
    };
    writeln!(out, "{} ac {}", id, handles_string(&adf.ac)).unwrap();
    if let Some(sd) = seed {
        // Rand: seed the ADF's generator and print the draw stream of an identically seeded StdRng
        use rand::{RngCore, SeedableRng};
        adf.seed([sd; 32]);
        let mut rng = rand::rngs::StdRng::from_seed([sd; 32]);
        let d: Vec<String> = (0..4000).map(|_| rng.next_u64().to_string()).collect();
        writeln!(out, "{} inject draws {}", id, d.join(" ")).unwrap();
    }
    for (k, q) in queries.iter().enumerate() {
        let qid = format!("q{}", k);
        match q[0].as_str() {
            "grounded" => {
                let g = adf.grounded();
                writeln!(out, "{} {} grounded {} {}", id, qid, interp_string(&g), handles_string(&g)).unwrap();
                // the two printers of the library (through the Adf and through a PrintDictionary taken from it)
                let p1 = format!("{}", adf.print_interpretation(&g));
                let p2 = format!("{}", adf.print_dictionary().print_interpretation(&g));
                writeln!(out, "{} p{} printed {} same={}", id, k, hex(&p1), (p1 == p2) as u8).unwrap();
            }
            "complete" => {
                let l: Vec<Vec<Term>> = adf.complete().collect();
                writeln!(out, "{} {} complete {}", id, qid, interps_string(&l)).unwrap();
            }
            "stable" => {
                let l: Vec<Vec<Term>> = adf.stable().collect();
                writeln!(out, "{} {} stable {}", id, qid, interps_string(&l)).unwrap();
            }
            "stablepre" => {
                let l: Vec<Vec<Term>> = adf.stable_with_prefilter().collect();
                writeln!(out, "{} {} stablepre {}", id, qid, interps_string(&l)).unwrap();
            }
            "stablerew" => {
                let mut l: Vec<String> = adf
                    .stable_bdd_representation(bio.as_ref().expect("stablerew needs a hybrid back-end"))
                    .iter()
                    .map(|v| interp_string(v))
                    .collect();
                l.sort();
                writeln!(out, "{} {} stablerew {}", id, qid, l.join(" ")).unwrap();
            }
            "table" => {
                writeln!(out, "{} {} table {} {}", id, qid, adf.bdd.nodes.len(), table_string(&adf.bdd)).unwrap();
            }
            "reseed" => {
                // Adf::seed again with the seed of the case: the random heuristic starts its stream again
                if let Some(sd) = seed {
                    adf.seed([sd; 32]);
                }
                writeln!(out, "{} {} reseed", id, qid).unwrap();
            }
            "validate" => {}
            _ => extra::adf_query(id, &qid, q, &mut adf, &parser, out),
        }
    }
}

fn run_iter(id: &str, kind: &str, rest: &[String], lines: &[String], out: &mut String) {
    // an optional number after the kind: only that many elements are taken (vectors with 64 and more undecided positions)
    let limit: usize = rest.first().and_then(|x| x.parse().ok()).unwrap_or(usize::MAX);
    use adf_bdd::datatypes::adf::{ThreeValuedInterpretationsIterator, TwoValuedInterpretationsIterator};
    for line in lines {
        let w: Vec<&str> = line.split_whitespace().collect();
        if w.is_empty() {
            continue;
        }
        let v: Vec<Term> = w[1..].iter().map(|s| Term(s.parse().unwrap())).collect();
        let res: Vec<Vec<Term>> = if kind == "ITER2" {
            TwoValuedInterpretationsIterator::new(&v).take(limit).collect()
        } else {
            ThreeValuedInterpretationsIterator::new(&v).take(limit).collect()
        };
        writeln!(
            out,
            "{} seq {}",
            id,
            res.iter().map(|x| handles_string(x)).collect::<Vec<_>>().join(" ")
        )
        .unwrap();
        if limit == usize::MAX {
            // the rest of the Iterator interface on fresh iterators over the same vector: count, last, nth, size_hint,
            // and the end of the sequence is final
            macro_rules! api {
                ($mk:expr) => {{
                    let count = $mk.count();
                    let last = $mk.last();
                    let k = res.len() / 2;
                    let nth = $mk.nth(k);
                    let (lo, hi) = $mk.size_hint();
                    let hint = lo <= res.len() && hi.map_or(true, |h| res.len() <= h);
                    let mut it = $mk;
                    let mut n = 0usize;
                    while it.next().is_some() {
                        n += 1;
                    }
                    let fused = it.next().is_none() && it.next().is_none() && n == res.len();
                    // partially consumed iterators: what is left after j steps
                    let mut hint = hint;
                    let mut parts: Vec<String> = Vec::new();
                    for j in [1usize, res.len() / 2, res.len().saturating_sub(1)] {
                        if j < res.len() {
                            let mut it = $mk;
                            for _ in 0..j {
                                it.next();
                            }
                            let (lo, hi) = it.size_hint();
                            hint &= lo <= res.len() - j && hi.map_or(true, |h| res.len() - j <= h);
                            parts.push(format!("{}:{}", j, it.count()));
                        }
                    }
                    (count, last, k, nth, hint, fused, parts.join(","))
                }};
            }
            let (count, last, k, nth, hint, fused, parts) = if kind == "ITER2" {
                api!(TwoValuedInterpretationsIterator::new(&v))
            } else {
                api!(ThreeValuedInterpretationsIterator::new(&v))
            };
            let hs = |x: &Option<Vec<Term>>| x.as_ref().map(|y| handles_string(y)).unwrap_or_else(|| "-".to_string());
            writeln!(out, "{} api count={} last={} nth={}:{} hint={} fused={} rest={}", id, count, hs(&last), k, hs(&nth), hint as u8, fused as u8, parts).unwrap();
        }
    }
}

fn run_parse(id: &str, lines: &[String], out: &mut String) {
    for line in lines {
        let w: Vec<&str> = line.split_whitespace().collect();
        if w.is_empty() {
            continue;
        }
        let text = if w.len() > 1 { unhex(w[1]) } else { String::new() };
        let parser = AdfParser::default();
        let ok = parser.parse()(&text).is_ok();
        let names: Vec<String> = parser.var_container().names().read().unwrap().clone();
        let mut acs: Vec<String> = Vec::new();
        let fnames = extra::formula_names(&parser);
        let mut i = 0;
        while let Some(f) = parser.ac_at(i) {
            acs.push(format!("{}:{}", hex(fnames.get(i).map(|s| s.as_str()).unwrap_or("")), hex(&format!("{:?}", f))));
            i += 1;
        }
        writeln!(
            out,
            "{} parse {} names={} acs={}",
            id,
            if ok { "OK" } else { "ERR" },
            names.iter().map(|s| hex(s)).collect::<Vec<_>>().join(","),
            acs.join(";")
        )
        .unwrap();
    }
}

fn main() {
    std::panic::set_hook(Box::new(|_| {}));
    let args: Vec<String> = std::env::args().collect();
    let reader: Box<dyn BufRead> = if args.len() > 1 {
        Box::new(std::io::BufReader::new(std::fs::File::open(&args[1]).unwrap()))
    } else {
        Box::new(std::io::BufReader::new(std::io::stdin()))
    };
    let stdout = std::io::stdout();
    let mut so = std::io::BufWriter::new(stdout.lock());
    let mut cur: Option<(String, String, Vec<String>)> = None;
    let mut buf: Vec<String> = Vec::new();
    let mut timeouts = 0usize;
    for line in reader.lines() {
        let line = line.unwrap();
        let w: Vec<&str> = line.split_whitespace().collect();
        if w.first() == Some(&"CASE") {
            cur = Some((w[1].to_string(), w[2].to_string(), w[3..].iter().map(|s| s.to_string()).collect()));
            buf.clear();
        } else if w.first() == Some(&"END") {
            if let Some((id, kind, rest)) = cur.take() {
                // every case runs in its own thread under a watchdog: non-termination is an observation
                if timeouts >= 3 {
                    so.write_all(format!("{} SKIPPED\n", id).as_bytes()).unwrap();
                    continue;
                }
                let lines = buf.clone();
                let id2 = id.clone();
                let (tx, rx) = std::sync::mpsc::channel::<String>();
                std::thread::Builder::new()
                    .stack_size(256 * 1024 * 1024)
                    .spawn(move || {
                        let mut out = String::new();
                        let r = catch_unwind(AssertUnwindSafe(|| match kind.as_str() {
                            "PROG" => run_prog(&id2, &lines, &mut out),
                            "ADF" => run_adf(&id2, &lines, &mut out),
                            "ITER2" | "ITER3" => run_iter(&id2, &kind, &rest, &lines, &mut out),
                            "PARSE" => run_parse(&id2, &lines, &mut out),
                            _ => extra::run_case(&id2, &kind, &rest, &lines, &mut out),
                        }));
                        if r.is_err() {
                            writeln!(out, "{} PANIC", id2).unwrap();
                        }
                        let _ = tx.send(out);
                    })
                    .unwrap();
                let limit: u64 = std::env::var("VERIF_CASE_TIMEOUT_MS").ok().and_then(|x| x.parse().ok()).unwrap_or(20000);
                if timeouts >= 3 {
                    // abandoned threads keep spinning: stop evaluating after three of them
                    so.write_all(format!("{} SKIPPED\n", id).as_bytes()).unwrap();
                    continue;
                }
                match rx.recv_timeout(std::time::Duration::from_millis(limit)) {
                    Ok(out) => {
                        so.write_all(out.as_bytes()).unwrap();
                        so.flush().unwrap(); // a later case may kill the process (stack overflow): keep what is answered
                    }
                    Err(_) => {
                        timeouts += 1;
                        so.write_all(format!("{} TIMEOUT\n", id).as_bytes()).unwrap()
                    }
                }
            }
        } else {
            buf.push(line);
        }
    }
}
