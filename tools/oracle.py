#!/usr/bin/env python3
"""Brute-force oracles used only by the failing-input search (never as a proof):
truth tables of diagrams, structural checks of a node table, ADF semantics by enumeration.
They judge the *implementation's* printed output directly against the property text."""
import itertools

VBOT = 18446744073709551614
VTOP = 18446744073709551615


# ---------------------------------------------------------------- node tables
def parse_table(s):
    """'n v:lo:hi;...' -> list of (v, lo, hi)"""
    parts = s.split(" ", 1)
    n = int(parts[0])
    nodes = []
    if len(parts) > 1 and parts[1]:
        for t in parts[1].split(";"):
            v, lo, hi = t.split(":")
            nodes.append((int(v), int(lo), int(hi)))
    assert n == len(nodes), (n, len(nodes))
    return nodes


def check_table(nodes):
    """reduced, ordered, duplicate-free, children earlier, terminals in place; returns list of complaints"""
    bad = []
    if len(nodes) < 2 or nodes[0] != (VBOT, 0, 0) or nodes[1] != (VTOP, 1, 1):
        bad.append("terminals not at 0/1")
        return bad
    seen = {}
    for h, (v, lo, hi) in enumerate(nodes):
        if h < 2:
            continue
        if v >= VBOT:
            bad.append("node %d has a terminal variable" % h)
        if lo == hi:
            bad.append("node %d not reduced (lo = hi = %d)" % (h, lo))
        if lo >= h or hi >= h:
            bad.append("node %d has a child that is not earlier" % h)
            continue
        if not (v < nodes[lo][0] and v < nodes[hi][0]):
            bad.append("node %d not ordered (var %d, children vars %d/%d)" % (h, v, nodes[lo][0], nodes[hi][0]))
        if (v, lo, hi) in seen:
            bad.append("node %d duplicates node %d" % (h, seen[(v, lo, hi)]))
        seen[(v, lo, hi)] = h
    return bad


def truth_tables(nodes, nvars):
    """bitmask truth table of every handle over variables 0..nvars-1 (bit a = value under
    assignment a, variable j = bit j of a); None for handles that cannot be evaluated"""
    size = 1 << nvars
    full = (1 << size) - 1
    varmask = []
    for j in range(nvars):
        m = 0
        for a in range(size):
            if a >> j & 1:
                m |= 1 << a
        varmask.append(m)
    tts = [None] * len(nodes)
    for h, (v, lo, hi) in enumerate(nodes):
        if h == 0:
            tts[h] = 0
        elif h == 1:
            tts[h] = full
        elif v < nvars and lo < h and hi < h and tts[lo] is not None and tts[hi] is not None:
            tts[h] = (varmask[v] & tts[hi]) | (~varmask[v] & full & tts[lo])
    return tts, varmask, full


def tt_cofactor(tt, j, b, nvars):
    size = 1 << nvars
    out = 0
    for a in range(size):
        a2 = (a | (1 << j)) if b else (a & ~(1 << j))
        if tt >> a2 & 1:
            out |= 1 << a
    return out


# ---------------------------------------------------------------- formulas (prefix text)
def parse_formula(s, pos=0):
    """parses the documented grammar without whitespace handling inside labels; returns (tree, pos)"""
    def skip_ws(p):
        while p < len(s) and s[p] in " \t\r\n":
            p += 1
        return p
    for kw, ar in (("and", 2), ("or", 2), ("imp", 2), ("xor", 2), ("iff", 2), ("neg", 1)):
        if s.startswith(kw + "(", pos):
            try:
                p = pos + len(kw) + 1
                a, p = parse_formula(s, p)
                if ar == 2:
                    p = skip_ws(p)
                    if s[p] != ",":
                        raise ValueError
                    p = skip_ws(p + 1)
                    b, p = parse_formula(s, p)
                    if s[p] != ")":
                        raise ValueError
                    return (kw, a, b), p + 1
                if s[p] != ")":
                    raise ValueError
                return (kw, a), p + 1
            except (ValueError, IndexError):
                pass
    if s.startswith("c(v)", pos):
        return ("top",), pos + 4
    if s.startswith("c(f)", pos):
        return ("bot",), pos + 4
    if pos < len(s) and s[pos] == '"':
        e = s.index('"', pos + 1)
        return ("atom", s[pos + 1:e]), e + 1
    p = pos
    while p < len(s) and s[p].isascii() and s[p].isalnum():
        p += 1
    if p == pos:
        raise ValueError("formula expected at %d in %r" % (pos, s))
    return ("atom", s[pos:p]), p


def eval_formula(f, env):
    k = f[0]
    if k == "top":
        return True
    if k == "bot":
        return False
    if k == "atom":
        return env[f[1]]
    if k == "neg":
        return not eval_formula(f[1], env)
    a = eval_formula(f[1], env)
    b = eval_formula(f[2], env)
    return {"and": a and b, "or": a or b, "imp": (not a) or b, "xor": a != b, "iff": a == b}[k]


def parse_adf_text(text):
    """returns (names in declaration order, {name: formula tree}) for grammatical inputs; later ac wins"""
    names, conds = [], {}
    pos = 0
    n = len(text)
    def skip_ws(p):
        while p < n and text[p] in " \t\r\n":
            p += 1
        return p
    def label(p):
        if text[p] == '"':
            e = text.index('"', p + 1)
            return text[p + 1:e], e + 1
        q = p
        while q < n and text[q].isascii() and text[q].isalnum():
            q += 1
        if q == p:
            raise ValueError
        return text[p:q], q
    while pos < n:
        if text.startswith("s(", pos):
            nm, p = label(pos + 2)
            if text[p] != ")" or text[p + 1] != ".":
                raise ValueError
            if nm not in names:
                names.append(nm)
            pos = skip_ws(p + 2)
        elif text.startswith("ac(", pos):
            nm, p = label(pos + 3)
            p = skip_ws(p)
            if text[p] != ",":
                raise ValueError
            p = skip_ws(p + 1)
            f, p = parse_formula(text, p)
            if text[p] != ")" or text[p + 1] != ".":
                raise ValueError
            conds[nm] = f
            pos = skip_ws(p + 2)
        else:
            raise ValueError("fact expected at %d" % pos)
    return names, conds


# ---------------------------------------------------------------- ADF semantics by enumeration
class AdfOracle:
    """names: statements in the order the answers are printed; conds: name -> formula tree
    (a statement without condition gets falsum, as the code does)"""

    def __init__(self, names, conds):
        self.names = names
        self.n = len(names)
        self.conds = [conds.get(nm, ("bot",)) for nm in names]
        # truth tables as bit sets over the 2^n total assignments (bit x: statement i is true iff x >> i & 1)
        self.tt = None
        if self.n <= 16:
            size = 1 << self.n
            self.full = (1 << size) - 1
            self.varmask = []
            for i in range(self.n):
                m = 0
                for x in range(size):
                    if x >> i & 1:
                        m |= 1 << x
                self.varmask.append(m)
            self.tt = []
            for f in self.conds:
                t = 0
                for x in range(size):
                    if eval_formula(f, {self.names[i]: bool(x >> i & 1) for i in range(self.n)}):
                        t |= 1 << x
                self.tt.append(t)

    def cons3_tt(self, k, v, force_false=None):
        """the same as cons3 for condition number k, on the truth tables"""
        m = self.full
        ff = force_false or ()
        for i in range(self.n):
            if i in ff or v[i] == "F":
                m &= ~self.varmask[i]
            elif v[i] == "T":
                m &= self.varmask[i]
        t = self.tt[k] & m
        return "F" if t == 0 else ("T" if t == m else "u")

    def cons3(self, f, v, force_false=None):
        """three-valued consequence of formula f under interpretation v ('T','F','u' per position)"""
        und = [i for i in range(self.n) if v[i] == "u"]
        seen_t = seen_f = False
        for bits in itertools.product([False, True], repeat=len(und)):
            env = {}
            for i in range(self.n):
                env[self.names[i]] = (v[i] == "T")
            for i, b in zip(und, bits):
                env[self.names[i]] = b
            if force_false:
                for i in force_false:
                    env[self.names[i]] = False
            if eval_formula(f, env):
                seen_t = True
            else:
                seen_f = True
            if seen_t and seen_f:
                return "u"
        return "T" if seen_t else "F"

    def gamma(self, v, force_false=None):
        if self.tt is not None:
            return "".join(self.cons3_tt(k, v, force_false) for k in range(self.n))
        return "".join(self.cons3(f, v, force_false) for f in self.conds)

    def gamma_slow(self, v, force_false=None):
        return "".join(self.cons3(f, v, force_false) for f in self.conds)

    def grounded(self, force_false=None):
        v = "u" * self.n
        while True:
            w = self.gamma(v, force_false)
            if w == v:
                return v
            v = w

    def complete(self):
        return [v for v in ("".join(p) for p in itertools.product("TFu", repeat=self.n)) if self.gamma(v) == v]

    def two_valued(self):
        if self.tt is not None:
            # total assignment x is a model iff every condition evaluates at x to the value x gives its statement
            fix = self.full
            for k in range(self.n):
                fix &= ~(self.tt[k] ^ self.varmask[k])
            out = []
            x = 0
            while fix:
                low = fix & -fix
                x = low.bit_length() - 1
                out.append("".join("T" if x >> i & 1 else "F" for i in range(self.n)))
                fix ^= low
            # the enumeration order of the slow version: T before F, first statement most significant
            return sorted(out, key=lambda v: v.replace("T", "0").replace("F", "1"))
        return [v for v in ("".join(p) for p in itertools.product("TF", repeat=self.n)) if self.gamma(v) == v]

    def two_valued_slow(self):
        return [v for v in ("".join(p) for p in itertools.product("TF", repeat=self.n)) if self.gamma_slow(v) == v]

    def stable(self):
        out = []
        for v in self.two_valued():
            ff = [i for i in range(self.n) if v[i] == "F"]
            g = self.grounded(force_false=ff)
            if all(g[i] == "T" for i in range(self.n) if v[i] == "T"):
                out.append(v)
        return out
