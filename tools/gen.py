#!/usr/bin/env python3
"""Case generators for the correspondence checks.  Every random choice comes from one
SplitMix64 state seeded by the caller, so a run replays exactly from (kind, seed, count)."""
import itertools, sys

MASK = (1 << 64) - 1


class Rng:
    def __init__(self, seed):
        self.s = seed & MASK

    def next(self):
        self.s = (self.s + 0x9E3779B97F4A7C15) & MASK
        z = self.s
        z = ((z ^ (z >> 30)) * 0xBF58476D1CE4E5B9) & MASK
        z = ((z ^ (z >> 27)) * 0x94D049BB133111EB) & MASK
        return z ^ (z >> 31)

    def below(self, n):
        return self.next() % n

    def chance(self, num, den):
        return self.below(den) < num

    def pick(self, l):
        return l[self.below(len(l))]

    def shuffle(self, l):
        l = list(l)
        for i in range(len(l) - 1, 0, -1):
            j = self.below(i + 1)
            l[i], l[j] = l[j], l[i]
        return l


def hexs(s):
    return s.encode().hex()


# ---------------------------------------------------------------- PROG
BINOPS = ["and", "or", "imp", "iff", "xor"]


def gen_prog(rng, nvars, nops, queries=True, cfg="a1v1", raw_node=False):
    """straight-line program over a register file; operands biased towards recent results"""
    lines = []
    nregs = 0
    nq = 0

    def reg():
        if nregs == 0:
            return None
        if rng.chance(1, 2):
            return max(0, nregs - 1 - rng.below(min(nregs, 4)))
        return rng.below(nregs)

    # always start with a few variables
    for v in rng.shuffle(range(nvars))[: max(1, min(nvars, 1 + rng.below(nvars)))]:
        lines.append("var %d" % v)
        nregs += 1
    while nregs < nops:
        k = rng.below(100)
        if k < 10:
            lines.append("var %d" % rng.below(nvars)); nregs += 1
        elif k < 13:
            lines.append("const %d" % rng.below(2)); nregs += 1
        elif k < 23:
            lines.append("not %d" % reg()); nregs += 1
        elif k < 68:
            lines.append("%s %d %d" % (rng.pick(BINOPS), reg(), reg())); nregs += 1
        elif k < 88:
            lines.append("restrict %d %d %d" % (reg(), rng.below(nvars), rng.below(2))); nregs += 1
        elif k < 90:
            # export and re-import the store in place (serde + fix_import, or the plain node list)
            lines.append("q reimport %s" % rng.pick(["json", "json", "nodes", "live"])); nq += 1
        elif queries:
            q = rng.below(8)
            a = reg()
            if q == 0:
                lines.append("q paths %d %d" % (a, rng.below(2)))
            elif q == 1:
                lines.append("q models %d 0" % a)
            elif q == 2:
                lines.append("q depth %d" % a)
            elif q == 3:
                lines.append("q deps %d" % a)
            elif q in (4, 5):
                lines.append("q cubes %d %d %d" % (a, rng.below(2), rng.below(nvars)))
            elif q == 6:
                l = [reg() for _ in range(1 + rng.below(4))]
                lines.append("q pimp %d %s" % (rng.below(nvars), " ".join(map(str, l))))
            else:
                l = [reg() for _ in range(1 + rng.below(4))]
                lines.append("q aimp %d %s" % (rng.below(len(l)), " ".join(map(str, l))))
            nq += 1
    return "PROG " + cfg, lines


def gen_prog_wide(rng, nvars, cfg="a1v1", memo=False):
    """diagrams over 20..62 variables whose two children differ widely in depth: conjunction / disjunction / mixed
    chains (one child is a terminal, the other a chain of up to 61 further variables), a few operations between such
    chains, then the counting queries on every result.  Small enough numbers for exact usize arithmetic (depth < 63)."""
    lines = []
    n = [0]

    def emit(l):
        lines.append(l)
        if not l.startswith("q"):
            n[0] += 1
            return n[0] - 1
        return None

    var = [emit("var %d" % v) for v in range(nvars)]
    tops = []
    for _ in range(2 + rng.below(2)):
        lo = rng.below(max(1, nvars - 20))
        hi = min(nvars, lo + 20 + rng.below(nvars - lo - 19)) if nvars - lo > 20 else nvars
        style = rng.below(3)
        r = var[hi - 1]
        for v in range(hi - 2, lo - 1, -1):
            op = ["and", "or", rng.pick(["and", "or"])][style]
            x = var[v]
            if rng.chance(1, 8):
                x = emit("not %d" % x)
            r = emit("%s %d %d" % (op, x, r))
        tops.append(r)
    tops.append(emit("%s %d %d" % (rng.pick(["and", "or", "xor", "imp"]), tops[0], tops[1])))
    tops.append(emit("restrict %d %d %d" % (tops[rng.below(len(tops))], rng.below(nvars), rng.below(2))))
    if rng.chance(1, 3):
        emit("q reimport %s" % rng.pick(["json", "nodes", "live"]))
    for t in tops:
        emit("q models %d 0" % t)
        if memo:
            emit("q models %d 1" % t)
        emit("q paths %d %d" % (t, rng.below(2)))
        emit("q depth %d" % t)
        emit("q deps %d" % t)
    return "PROG " + cfg, lines


def gen_prog_sparse(rng, nvars, queries=True, cfg="a1v1"):
    """programs whose diagrams are SPARSE: a selector variable chooses between small terms over different,
    overlapping subsets of the later variables (multiplexer / decision-list shapes), so that the two
    children of a node have incomparable supports; then restrictions and dependency queries for every
    variable.  Dense random functions (gen_prog) almost never have such nodes."""
    lines = []
    n = [0]

    def emit(l):
        lines.append(l)
        if not l.startswith("q"):
            n[0] += 1
            return n[0] - 1
        return None

    var = [emit("var %d" % v) for v in range(nvars)]
    neg = {}

    def lit(v, pos):
        if pos:
            return var[v]
        if v not in neg:
            neg[v] = emit("not %d" % var[v])
        return neg[v]

    def term(vs):
        op = rng.pick(["and", "and", "or", "xor"])
        r = lit(vs[0], rng.chance(2, 3))
        for v in vs[1:]:
            r = emit("%s %d %d" % (op, r, lit(v, rng.chance(2, 3))))
        return r

    tops = []
    for _ in range(1 + rng.below(3)):
        order = rng.shuffle(range(nvars))
        sel = min(order[:2])
        rest = [v for v in range(nvars) if v != sel]
        shared = rng.pick(rest)
        others = [v for v in rest if v != shared]
        a = [shared] + rng.shuffle(others)[: 1 + rng.below(2)]
        b = [shared] + rng.shuffle(others)[: 1 + rng.below(2)]
        f, g = term(sorted(a)), term(sorted(b))
        x = emit("and %d %d" % (lit(sel, True), f))
        y = emit("and %d %d" % (lit(sel, False), g))
        tops.append(emit("or %d %d" % (x, y)))
    if len(tops) > 1:
        tops.append(emit("%s %d %d" % (rng.pick(BINOPS), tops[0], tops[1])))
    if rng.chance(1, 2):
        emit("q reimport %s" % rng.pick(["json", "json", "nodes", "live"]))
    for t in tops:
        if queries:
            emit("q deps %d" % t)
        for v in range(nvars):
            r = emit("restrict %d %d %d" % (t, v, rng.below(2)))
            if queries and rng.chance(1, 2):
                emit("q deps %d" % r)
    if queries:
        emit("q pimp %d %s" % (rng.below(nvars), " ".join(map(str, tops))))
    return "PROG " + cfg, lines


# ---------------------------------------------------------------- formulas / ADFs
def gen_formula(rng, names, depth, selfname=None):
    if depth == 0 or rng.chance(1, 4):
        k = rng.below(10)
        if k == 0:
            return "c(v)"
        if k == 1:
            return "c(f)"
        if selfname is not None and rng.chance(1, 4):
            return selfname
        return rng.pick(names)
    k = rng.below(8)
    if k == 0:
        return "neg(%s)" % gen_formula(rng, names, depth - 1, selfname)
    if k == 7:
        # multiplexer over small terms with overlapping supports (sparse diagrams)
        if len(names) < 4:
            return "and(%s,%s)" % (rng.pick(names), rng.pick(names))
        pool = rng.shuffle(names)
        sel, rest = pool[0], pool[1:]
        def term():
            vs = rng.shuffle(rest)[: 1 + rng.below(min(3, len(rest)))]
            t = vs[0] if rng.chance(2, 3) else "neg(%s)" % vs[0]
            for v in vs[1:]:
                t = "%s(%s,%s)" % (rng.pick(["and", "and", "or", "xor"]), t, v if rng.chance(2, 3) else "neg(%s)" % v)
            return t
        return "or(and(%s,%s),and(neg(%s),%s))" % (sel, term(), sel, term())
    op = ["and", "or", "imp", "xor", "iff", "and", "or"][k]
    return "%s(%s,%s)" % (op, gen_formula(rng, names, depth - 1, selfname), gen_formula(rng, names, depth - 1, selfname))


PLAIN = ["a", "b", "c", "d", "e", "f", "g", "h", "i", "j", "k", "l"]
TRICKY = ["and", "or", "neg", "c", "s", "ac", "imp", "xor", "iff", "v", "andy", "cv", "c1", "negx", "s1", "true", "false", "negative", "nega",
          "10", "2", "a10", "a2", "A", "Z", "b2", "B", "x9", "x10", "0", "00"]
QUOTED = ['"a b"', '"x(1)"', '"and(a,b)"', '" "', '"q.r"', '"é"', '"s(a)."', '"1,2"', '""']


def gen_names(rng, n, style):
    if style == 0:
        return PLAIN[:n]
    pool = list(PLAIN)
    if style >= 1:
        pool += TRICKY
    if style >= 2:
        pool += QUOTED
    pool = rng.shuffle(sorted(set(pool)))       # a label must not be drawn twice: two ac facts for one statement are not a well-formed ADF
    return pool[:n]


def render_adf(rng, names, conds, layout):
    """facts in (possibly shuffled) order with optional whitespace after facts"""
    facts = [("s", nm, None) for nm in names] + [("ac", nm, f) for nm, f in conds]
    if layout.get("shuffle"):
        facts = rng.shuffle(facts)
    out = []
    for kind, nm, f in facts:
        if kind == "s":
            t = "s(%s)." % nm
        else:
            sep = rng.pick([",", " ,", ", ", " , ", ",\n", "\t,\t"]) if layout.get("ws") else ","
            t = "ac(%s%s%s)." % (nm, sep, f)
        if layout.get("ws"):
            t += rng.pick(["", " ", "\n", "  \n", "\t", "\r\n"])
        out.append(t)
    return "".join(out)


def ws_formula(rng, f):
    """insert whitespace around commas of a formula (the only place the grammar allows inside one)"""
    out = []
    for ch in f:
        if ch == "," and rng.chance(1, 2):
            out.append(rng.pick([" ,", ", ", " , ", ",\n"]))
        else:
            out.append(ch)
    return "".join(out)


def gen_adf(rng, nmax=8, depth=4, style=0, layout=None, degenerate=True, repeat_ac=False):
    layout = layout or {}
    n = 1 + rng.below(nmax)
    names = gen_names(rng, n, style)
    conds = []
    mode = rng.below(11)
    if mode == 10 and n >= 4:
        # sparse shapes: some statements stay undecided (self-support), some are decided constants or decided by one
        # propagation step, the rest choose between small terms over the others through an UNDECIDED selector declared
        # early (deep restrictions of multiplexer-shaped diagrams decide them)
        k_u = 1 + rng.below(2)
        k_c = 1 + rng.below(max(1, n - k_u - 1))
        und, dec, rest = names[:k_u], names[k_u:k_u + k_c], names[k_u + k_c:]
        if rng.chance(1, 2):
            und, dec = list(und), list(dec)
        for nm in und:
            conds.append((nm, rng.pick([nm, "neg(%s)" % nm])))
        for j, nm in enumerate(dec):
            conds.append((nm, rng.pick(["c(v)", "c(f)"]) if j == 0 or rng.chance(2, 3) else rng.pick([dec[j - 1], "neg(%s)" % dec[j - 1]])))
        for nm in rest:
            pool = [x for x in names if x != nm]
            sel = rng.pick(und)
            def term():
                vs = rng.shuffle([x for x in pool if x != sel])[: 1 + rng.below(3)]
                t = vs[0] if rng.chance(2, 3) else "neg(%s)" % vs[0]
                for v in vs[1:]:
                    t = "%s(%s,%s)" % (rng.pick(["and", "or", "and"]), t, v if rng.chance(2, 3) else "neg(%s)" % v)
                return t
            conds.append((nm, "or(and(%s,%s),and(neg(%s),%s))" % (sel, term(), sel, term())))
        return render_adf(rng, names, conds, layout), n
    for i, nm in enumerate(names):
        if degenerate and mode == 0 and rng.chance(1, 3):
            continue  # statement without ac
        if mode == 1:  # self-support / mutual attack heavy: many two-valued models
            k = rng.below(4)
            other = rng.pick(names)
            f = [nm, "neg(%s)" % other, "and(%s,%s)" % (nm, other), "or(%s,neg(%s))" % (nm, other)][k]
        elif mode == 2 and i > 0:  # propagation chain
            f = rng.pick([names[i - 1], "neg(%s)" % names[i - 1], "and(%s,%s)" % (names[i - 1], names[0])])
        elif mode == 2:
            f = rng.pick(["c(v)", "c(f)"])
        else:
            f = gen_formula(rng, names, 1 + rng.below(depth), nm)
        if layout.get("ws"):
            f = ws_formula(rng, f)
        conds.append((nm, f))
        if repeat_ac and mode == 3 and rng.chance(1, 5):  # repeated ac for the same statement (not a well-formed ADF: parser tests only)
            conds.append((nm, gen_formula(rng, names, 2, nm)))
    return render_adf(rng, names, conds, layout), n


def tt_formula(names, bits):
    """DNF of the truth table [bits] (index = assignment as binary number over names)"""
    n = len(names)
    terms = []
    for idx in range(1 << n):
        if bits >> idx & 1:
            lits = [names[j] if idx >> j & 1 else "neg(%s)" % names[j] for j in range(n)]
            t = lits[0]
            for l in lits[1:]:
                t = "and(%s,%s)" % (t, l)
            terms.append(t)
    if not terms:
        return "c(f)"
    if len(terms) == 1 << n:
        return "c(v)"
    t = terms[0]
    for x in terms[1:]:
        t = "or(%s,%s)" % (t, x)
    return t


def all_tt_adfs(n):
    names = PLAIN[:n]
    for combo in itertools.product(range(1 << (1 << n)), repeat=n):
        yield "".join("s(%s)." % x for x in names) + "".join(
            "ac(%s,%s)." % (names[i], tt_formula(names, combo[i])) for i in range(n))


def tt_adf(rng, n):
    names = PLAIN[:n]
    return "".join("s(%s)." % x for x in names) + "".join(
        "ac(%s,%s)." % (names[i], tt_formula(names, rng.below(1 << (1 << n)))) for i in range(n))


# ---------------------------------------------------------------- malformed texts
def mutate(rng, text):
    b = list(text)
    k = rng.below(8)
    alphabet = list('().," abcsvfnegdior\n')
    if not b:
        return rng.pick(alphabet)
    if k == 0:
        del b[rng.below(len(b))]
    elif k == 1:
        b.insert(rng.below(len(b) + 1), rng.pick(alphabet))
    elif k == 2:
        b[rng.below(len(b))] = rng.pick(alphabet)
    elif k == 3:
        b = b[: rng.below(len(b))]
    elif k == 4:
        i = rng.below(len(b)); b.insert(i, b[i])
    elif k == 5:
        b = [" "] + b
    elif k == 6:
        b = b + list(rng.pick(["x", "s(a)", ".", ")", "ac(a,b)", "s(a). x"]))
    else:
        i = rng.below(len(b)); j = rng.below(len(b)); b[i], b[j] = b[j], b[i]
    return "".join(b)


# ---------------------------------------------------------------- writer
class CaseFile:
    def __init__(self):
        self.lines = []
        self.n = 0
        self.meta = {}

    def add(self, kind, body, prefix="c", meta=None):
        cid = "%s%d" % (prefix, self.n)
        self.n += 1
        self.lines.append("CASE %s %s" % (cid, kind))
        self.lines.extend(body)
        self.lines.append("END")
        self.meta[cid] = (kind, body, meta)
        return cid

    def write(self, path):
        with open(path, "w") as f:
            f.write("\n".join(self.lines) + "\n")


def iter_vectors(maxlen, alphabet=(0, 1, 2, 3, 7)):
    for ln in range(maxlen + 1):
        for v in itertools.product(alphabet, repeat=ln):
            yield list(v)


# ---------------------------------------------------------------- nogood store histories
def gen_ng_case(rng, nmax=6, nadds=8, nq=6):
    n = 2 + rng.below(nmax - 1)
    mode = rng.pick(["none", "equiv", "subsume"])
    lines = ["n %d" % n, "mode %s" % mode]
    added = []

    def rand_ng(minlen=1):
        while True:
            g = [rng.pick("TFuu") for _ in range(n)]
            if sum(1 for x in g if x != "u") >= minlen:
                return "".join(g)

    def derived():
        base = list(rng.pick(added))
        k = rng.below(4)
        if k == 0:      # duplicate
            pass
        elif k == 1:    # superset
            for i in range(n):
                if base[i] == "u" and rng.chance(1, 2):
                    base[i] = rng.pick("TF")
        elif k == 2:    # subset
            act = [i for i in range(n) if base[i] != "u"]
            if len(act) > 1:
                base[rng.pick(act)] = "u"
        else:           # flip one literal
            act = [i for i in range(n) if base[i] != "u"]
            i = rng.pick(act)
            base[i] = "T" if base[i] == "F" else "F"
        return "".join(base)

    ops = rng.below(nadds) + 1
    for _ in range(ops):
        if rng.chance(1, 40):
            lines.append("add " + "u" * n)     # the empty nogood
            continue
        g = derived() if added and rng.chance(3, 5) else rand_ng()
        added.append(g)
        lines.append("add " + g)
        if rng.chance(1, 3):
            lines.append("concl " + "".join(rng.pick("TFuuu") for _ in range(n)))
    for _ in range(1 + rng.below(nq)):
        k = rng.below(10)
        i = "".join(rng.pick("TFuuu") for _ in range(n))
        if k < 6:
            lines.append("concl " + i)
        elif k < 9:
            lines.append("closure " + i)
        else:
            lines.append("conclude %s %s" % (rng.pick(added) if added else "T" + "u" * (n - 1), i))
    # the small public operations on single nogoods / interpretations
    for _ in range(rng.below(4)):
        k = rng.below(4)
        x = "".join(rng.pick("TFuu") for _ in range(n))
        y = "".join(rng.pick("TFuu") for _ in range(n))
        if k == 0:
            lines.append("single %d %d" % (rng.below(n), rng.below(2)))
        elif k == 1:
            lines.append("disj %s %s" % (x, y))
        elif k == 2:
            lines.append("contra %s %s" % (x, y))
        else:
            ps = ["%d:%d" % (rng.below(n), rng.below(2)) for _ in range(rng.below(5))]
            if ps and rng.chance(1, 2):
                ps.append(rng.pick(ps))                       # the same pair again: not a contradiction
            lines.append("pairs " + (",".join(ps) if ps else "-"))
    lines.append("dump")
    return lines, {"n": n, "mode": mode}
