#!/usr/bin/env python3
"""Regenerates /verif/MANIFEST.json from the table below (claimed checks) and properties.jsonl
(everything not claimed is listed under not_applicable with its reason)."""
import json, os, subprocess

ROOT = os.path.dirname(os.path.dirname(os.path.abspath(__file__)))
TECH = "machine-checked proof in Coq 8.16 about a hand-written executable model + differential correspondence (extracted model vs. implementation) + translator-regenerated leaf definitions"

CLAIMS = {
    # id: (level text, level_note, design_ref[, category])
    "C20": ("Coq theorems C20_two_valued / C20_three_valued (exact enumeration: length 2^k / 3^k, NoDup, membership iff completion / refinement, first element) and the *_stream theorems (successive next() calls return exactly the collected list, then None for ever) about the Gallina model of both odometers, for all vectors of all lengths; the model is tied to datatypes/adf.rs by running both on all vectors up to length 5 (thorough 7) over {0,1,2,3,7} plus random long vectors, compared as sequences.",
            "Trusted: Coq kernel, extraction + OCaml driver, the correspondence harness; Vec/usize modelled as list/N. No axioms.", "4.C20"),
    "C08": ("Coq theorems about the combinator-for-combinator Gallina transcription of lib/src/parser.rs: C08_accepts_grammar (every text of the documented grammar - any fact order, nesting, layout, keyword-like or quoted labels - is accepted and yields exactly the written statements and formulas), C08_accepts_only_grammar / C08_accepts_iff (nothing else is accepted: acceptance iff membership in the grammar), rejection corollaries (missing dot, trailing garbage, blank input) and fuel-independence of the formula parser; all for unbounded inputs. Tie: model and implementation run on rendered random documents and byte-level mutations of them and must agree on accept/reject, names, and every formula; an independent recogniser judges the implementation's answers. The CLI / web halves of the rejection claim are checked under C15 / C16.",
            "Trusted: Coq kernel, extraction + driver, harness, nom 7.1 primitives behaving as transcribed (alphanumeric1 = ASCII letters/digits). No axioms.", "4.C08"),
    "C06": ("Coq theorems: the node-table invariant holds in every state reachable by programs of diagram-building operations under every feature configuration (C06_reachable_invariant, by induction over the program; each of mk_node / restrict / ite preserves it for arbitrary correct memo-table contents), the exported table of such a state is Canonical (reduced, ordered, duplicate-free, children earlier) and satisfies the specification's SameHandleIffSameFunction (canonicity theorem, by induction on handles), two registers are equal iff their functions are, a register is the top/bottom handle iff its function is valid/unsatisfiable, and every program runs to completion (fuel sufficiency incl. ite). Unbounded in program length, operands, variables. Tie: random programs (memo tables exercised) run on model and implementation, tables compared exactly and up to handle renaming; the implementation's table is judged structurally and by truth tables. Re-imports and bridge conversions are covered by C14 / C09 through C06_invariant_gives_canonicity.",
            "Trusted: Coq kernel, extraction + driver, harness; HashMap/HashSet/Vec modelled as finite maps/sets/lists; usize as unbounded N. Raw Bdd::node with unordered arguments is outside 'diagram-building operations' (precondition of mk_node_ok). No axioms.", "4.C06"),
    "C07": ("Coq theorems C07_not/and/or/imp/iff/xor/variable/restrict: for every store satisfying the invariant (any correct memo-table contents, warm or cold) and all operand handles, the result denotes the named Boolean function of the operands' functions (restrict = cofactor), the store is only extended, and extension preserves the function of every previously issued handle (C07_old_handles_unchanged); totality of restrict and ite; lifted to whole programs (C07_programs, C07_later_operations_do_not_change_earlier_results). Tie: same programs as C06; every operation result of the implementation is checked against the truth-table semantics of the op and against the extracted model.",
            "Trusted: as C06. No axioms.", "4.C07"),
    "C18": ("Coq theorems about the Gallina model of lib/src/nogoods.rs (NoGood, NoGoodStore with the three duplicate-elimination modes, conclusions bucket by bucket, conclusion closure): C18_conclusions_sound (only forced literals, given literals kept), C18_no_spurious_conflict (conflict only if every total extension matches a stored nogood), C18_conflict_on_match, C18_nothing_forgotten (after any add sequence in any mode the store excludes exactly the assignments excluded by the added non-empty nogoods), closure soundness and totality; unbounded in store size, sequence length, positions. Tie: random add sequences (duplicates, supersets, subsets, flips over-represented) x 3 modes x conclusions / closure / conclude / dump queries, model and implementation must agree exactly; the implementation's answers are judged by enumeration of all total assignments. Two genuine defects found by this check on the pinned tree were repaired in /repo (fix: commits, see KNOWN_FINDINGS.txt); the ignored empty nogood is a recorded finding.",
            "Trusted: Coq kernel, extraction + driver, harness incl. the cfg(adf_obdd_verif) hooks (closure wrapper, dump); roaring bitmaps = finite sets of positions. No axioms.", "4.C18"),
    "C01": ("Coq theorems C01_grounded_native (for every store satisfying the invariant and every vector of valid condition handles, the vector returned by the model of grounded_internal IS a Grounded interpretation - fixpoint of the three-valued consequence operator below every fixpoint - of the denoted ADF, and every returned handle denotes its condition with the decided statements substituted), C01_grounded_unique (exactly one grounded interpretation exists: agreement of the back-ends is a corollary of exactness), C01_grounded_total (the loop terminates), C01_parsed_adfs_are_well_formed (every ADF built from parsed formulas satisfies the hypotheses and denotes its formulas). Unbounded in the number of statements, formula shapes, store history, variable order. The biodivine and hybrid back-ends are modelled (Adf/Bio.v) and tied by correspondence; their exactness theorems (Adf/BioProofs.v) are in progress, so for them this claim currently rests on the differential check only. Tie: all truth-table ADFs with <= 2 statements + random structured ADFs (<= 8, thorough 10) on native / biodivine / hybrid with and without pre-grounding, with/without sorting; T/F/u vectors judged by an independent least-fixpoint enumeration and compared with the extracted model including handle numbers.",
            "Trusted: Coq kernel, extraction + driver, harness; biodivine-lib-bdd = canonical Boolean functions (its dumps are validated per instance under C09). No axioms.", "4.C01"),
    "C02": ("Coq theorems C02_complete_native (the enumerated list is duplicate-free, contains exactly the Complete interpretations of the denoted ADF, and starts with the grounded one) and C02_complete_total, for all ADFs / stores; built on the iterator theorem (C20) and canonicity. Biodivine / hybrid: modelled and tied by correspondence, theorems in progress. Tie: sequences compared exactly with the model on all back-ends; judged by enumeration of all 3^n interpretations.",
            "Trusted: as C01. No axioms.", "4.C02"),
    "C03": ("Coq theorems C03_stability_check (the code's test - grounded interpretation of the reduct equals the candidate on all positions - is equivalent to the definition of stable model), C03_stable_native, C03_stable_with_prefilter (duplicate-free, exactly the Stable interpretations), C03_stable_from_candidates (the filter used by both rewriting variants keeps exactly the stable candidates, in order), totality (an ADF without stable models yields the empty list, never an error). Biodivine's own enumeration and the candidate generation by the single-formula rewriting are modelled and tied by correspondence (multisets for the rewriting variants); their theorems are in progress. Tie: plain / pre-filter / rewrite (pre-built and on demand) on native, biodivine, hybrid +/- pre-grounding; judged by brute-force stable models.",
            "Trusted: as C01. Repeated ac facts for one statement are outside 'well-formed ADF' (the pre-built rewriting conjoins all of them while compilation lets the last one win; noted in DESIGN.md). No axioms.", "4.C03"),
    "C04": ("Differential check + tie lemma (exploration until the search theorems land): both counting-guided procedures on all n<=2 truth-table ADFs, 3000 (thorough 60000) random n=3 truth-table ADFs and structured ADFs; judged against brute-force stable models (nothing lost, nothing invented, no duplicates); the flag lemma Gen/TieFlagCount.v (regenerated from adf.rs: the cube loop skips an inconsistent cube instead of stopping) must compile. The defect this check found on the pinned tree (thorough tier) is repaired in /repo.",
            "No theorem about the search itself is claimed yet.", "4.C04", "exploration"),
    "C05": ("Differential check + tie lemma (exploration until the search theorems land): nogood-learning search in stable and two-valued mode under Simple, both counting heuristics, Rand (draw stream reproduced from an identically seeded StdRng, sequences compared exactly) and a family of custom static heuristics; every run under a watchdog (non-termination is an observation); judged against brute-force stable / two-valued models. The Rand defect found on the pinned tree is repaired in /repo.",
            "No theorem about the search itself is claimed yet.", "4.C05", "exploration"),
    "C12": ("Differential check over all 12 feature sets + tie lemma (exploration until Bdd/Counts.v and the cfg-equivalence theorems land): the harness is built under each feature set; the same programs with queries (paths, models naive/memoised, depth, deps) and ADFs with all semantics must answer as the default build (memoised models excluded where documented) and as the Coq model evaluated under the same cfg; Gen/TieFlagDepth.v (regenerated from obdd.rs) must compile. The max_depth defect found on the pinned tree is repaired in /repo.",
            "Only the flag lemma is proved so far.", "4.C12", "exploration"),
    "C13": ("Differential check + tie lemmas (exploration until Bdd/Counts.v lands): programs with interleaved queries (paths, naive models, depth, dependencies, cubes, both impact measures) judged from the implementation's own table by path enumeration and truth tables and compared with the model; the leaf predicates regenerated from datatypes/bdd.rs are proved equal to the model's and more_models is proved to be 'models >= counter-models' (Gen/TieMoreModels.v). more_models defect repaired in /repo; terminal-root cubes and usize overflow at depth >= 64 are recorded findings.",
            "Only the more_models specification is proved so far.", "4.C13", "exploration"),
    "C19": ("Coq theorems about the model of Bdd::node's sender and Bdd::recv (Bdd/Stream.v): C19_mirror_invariant (for EVERY interleaving of producer operations, single-node transfers and polls: what a mirror holds plus what is in flight equals the upstream table), C19_mirror_prefix (a store that consumed k messages holds exactly the producer's first k+2 nodes, relay and receiver), C19_drained_equal, C19_drain_reaches (draining is always possible and ends with three identical tables), C19_poll_answer (found iff present after polling), C19_recv, C19_producer_stream. Induction over event lists: every schedule at node granularity, all programs, all requested handles. Tie: the harness owns the channels and places cuts between individual node creations; ~10^4 polls per quick run compared with the model and judged (prefix, drained equality, poll answers).",
            "Trusted: Coq kernel, extraction + driver, harness; crossbeam-channel = linearizable FIFO (a list); real thread interleavings are not exhibited by the model, only message-level cuts. No axioms.", "4.C19"),
    "C09": ("Translation validation, per instance (theorems in progress): every ADF - small ones and large ones with 20-60 statements and formula depth up to 8 - is compiled natively and imported from biodivine (with and without pre-grounding); the implementation's biodivine dumps are replayed by the extracted model into the store that also holds the natively compiled conditions, and a statement passes iff both handles coincide (equal handle iff equal function by the canonicity theorem C06); tables and root handles are compared exactly with the model's replay; small instances are additionally judged by truth tables of the written formulas. Proved so far: C01_parsed_adfs_are_well_formed (native compilation denotes the formulas). The bridge theorem (bridge_den, validator soundness) is being proved in Adf/BridgeProofs.v.",
            "biodivine's to_string format is taken from the implementation run through the cfg(adf_obdd_verif) hook.", "4.C09", "translation_validation"),
    "C10": ("Coq theorems (Spec/Equivariance.v, Front/Presentation.v): the four semantics are equivariant under permutations of the statements (C10_semantics_equivariant); C10_presentation_invariant: an injective renaming of the labels, ANY permutation of the name list (whatever the sort step produces - so the alphanumeric comparator need not be modelled) and any permutation of the facts leave the set of answers, read as label->value maps, unchanged; C10_lexicographic_sorting: varsort_lexi yields the byte-wise sorted name list with the same label maps; C10_fact_order at the level of parsed documents; parser name lists are duplicate-free. Together with the exactness theorems of C01-C03 this covers the pipeline parse -> sort -> build -> semantics -> label map for all ADFs, permutations and renamings. Tie: each ADF (small: all semantics; 30-60 statements: grounded) in six presentations (fact order, layout, three sort modes, renaming that reverses the lexicographic order), answers compared as sets of label maps across presentations and with the model; --lx order checked to be byte-wise.",
            "Trusted: Coq kernel, extraction + driver, harness; lexical_sort::natural_lexical_cmp is only assumed to produce a permutation (alphanumeric sorting compared implementation against implementation). No axioms.", "4.C10"),
    "C11": ("Differential check over call histories (theorem answers_determined in progress): random sequences of public calls on one Adf (all semantics, both searches, Rand, counts, facets, extra formulas on the shared diagram), every answer judged against the definitions, repeated questions must repeat their answers, every bookkeeping table (unique table, var_deps, count cache, ite cache, restrict cache) is hashed through the audit hook and compared with the model's tables after the history, and every history is run twice (determinism).",
            "HashMap iteration order is not observable through the modelled API.", "4.C11", "exploration"),
    "C14": ("Differential check (round-trip theorems in progress): serde_json export + import + fix_import, and the web service's path Bdd::from(nodes) + Adf::from, at three life points (fresh, after computations, twice), native and bridged; numbering, roots, unique table and variable sets must be identical, all semantics must answer as before, and the model (import_raw / fix_import / from_nodes) must agree.",
            "serde transports the records faithfully (exercised). The CLI's no-overwrite clause is checked under C15.", "4.C14", "exploration"),
    "C15": ("Differential check against the real binary (composition theorem in progress): the adf-bdd binary built from the working tree is run on random well-formed files x --lib {hybrid, biodivine, naive} x {none, --lx} x random subsets of the ten semantics flags x --heu; exit status and stdout are judged section by section in the documented order against brute-force semantics with labels, and compared with the Coq model of bin/src/main.rs (Front/Cli.v: which flag calls which library function in which order through which dictionary); a malformed stream must give a non-zero exit and no interpretation. The --heu abort found on the pinned tree is repaired in /repo; the seven (mode, flag) pairs that are silently ignored are recorded findings.",
            "clap is modelled as the record of parsed flags; --an (natural_lexical_cmp), --counter, -v/-q are not modelled.", "4.C15", "exploration"),
}

NOT_YET = "check not built yet in this round (framework under construction; see DESIGN.md section 8 staging)"
NA = {}


def main():
    props = [json.loads(l) for l in open(os.path.join(ROOT, "properties.jsonl"))]
    try:
        commits = subprocess.run(["git", "-C", "/repo", "log", "--format=%H %s"], capture_output=True, text=True).stdout.splitlines()
        hooks = [c.split()[0] for c in commits if " verif-hook:" in c or "verif hook" in c]
    except Exception:
        hooks = []
    checks = []
    for p in props:
        pid = p["id"]
        if pid in CLAIMS:
            text, note, ref = CLAIMS[pid][:3]
            cat = CLAIMS[pid][3] if len(CLAIMS[pid]) > 3 else "proof"
            checks.append({
                "property_id": pid,
                "quick_cmd": "./check %s quick" % pid,
                "thorough_cmd": "./check %s thorough" % pid,
                "evidence_file": "evidence/%s.json" % pid,
                "replay_cmd_template": "./check %s --replay {path}" % pid,
                "engine": "coq-model+correspondence",
                "level_claimed": {"category": cat, "text": text, "design_ref": "DESIGN.md " + ref},
                "level_note": note,
                "technique": TECH,
            })
    m = {
        "version": 1,
        "setup_cmd": "./setup.sh",
        "hooks": {
            "guard": "adf_obdd_verif",
            "enable": "RUSTFLAGS=\"--cfg adf_obdd_verif\" cargo build --offline in /verif/harness (path dependency on /repo/lib); server/bin built with the same RUSTFLAGS",
            "baseline_off_cmd": "cd /repo && cargo test --workspace --no-fail-fast --offline",
            "source_commits": hooks,
            "add_only": True,
        },
        "engines": [{"name": "coq-model+correspondence", "path": "coq/ ocaml/ harness/ tools/",
                     "serves_properties": sorted(CLAIMS),
                     "kind_free_text": "Coq 8.16 development (model, proofs, property files), extraction to OCaml, Rust correspondence harness, Python orchestration"}],
        "checks": checks,
        "not_applicable": [{"property_id": p["id"], "reason": NA.get(p["id"], NOT_YET)} for p in props if p["id"] not in CLAIMS],
        "notes": "Every check: (1) full make of coq/ + re-check of Properties/<ID>.v with Print Assumptions, (2) translator-regenerated definitions re-proved equal to the model, (3) harness rebuilt from /repo's working tree, (4) model vs implementation on generated cases, (5) failing-input search, (6) evidence. See DESIGN.md.",
    }
    json.dump(m, open(os.path.join(ROOT, "MANIFEST.json"), "w"), indent=1)
    print("claimed:", sorted(CLAIMS))


if __name__ == "__main__":
    main()
