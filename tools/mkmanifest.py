#!/usr/bin/env python3
"""Regenerates /verif/MANIFEST.json from the table below (claimed checks) and properties.jsonl
(everything not claimed is listed under not_applicable with its reason)."""
import json, os, subprocess

ROOT = os.path.dirname(os.path.dirname(os.path.abspath(__file__)))
TECH = "machine-checked proof in Coq 8.16 about a hand-written executable model + differential correspondence (extracted model vs. implementation) + translator-regenerated leaf definitions"

CLAIMS = {
    # id: (level text, level_note, design_ref)
    "C20": ("Coq theorems C20_two_valued / C20_three_valued (exact enumeration: length 2^k / 3^k, NoDup, membership iff completion / refinement, first element) and the *_stream theorems (successive next() calls return exactly the collected list, then None for ever) about the Gallina model of both odometers, for all vectors of all lengths; the model is tied to datatypes/adf.rs by running both on all vectors up to length 5 (thorough 7) over {0,1,2,3,7} plus random long vectors, compared as sequences.",
            "Trusted: Coq kernel, extraction + OCaml driver, the correspondence harness; Vec/usize modelled as list/N. No axioms.", "4.C20"),
    "C08": ("Coq theorems about the combinator-for-combinator Gallina transcription of lib/src/parser.rs: C08_accepts_grammar (every text of the documented grammar - any fact order, nesting, layout, keyword-like or quoted labels - is accepted and yields exactly the written statements and formulas), C08_accepts_only_grammar / C08_accepts_iff (nothing else is accepted: acceptance iff membership in the grammar), rejection corollaries (missing dot, trailing garbage, blank input) and fuel-independence of the formula parser; all for unbounded inputs. Tie: model and implementation run on rendered random documents and byte-level mutations of them and must agree on accept/reject, names, and every formula; an independent recogniser judges the implementation's answers. The CLI / web halves of the rejection claim are checked under C15 / C16.",
            "Trusted: Coq kernel, extraction + driver, harness, nom 7.1 primitives behaving as transcribed (alphanumeric1 = ASCII letters/digits). No axioms.", "4.C08"),
    "C06": ("Coq theorems: the node-table invariant holds in every state reachable by programs of diagram-building operations under every feature configuration (C06_reachable_invariant, by induction over the program; each of mk_node / restrict / ite preserves it for arbitrary correct memo-table contents), the exported table of such a state is Canonical (reduced, ordered, duplicate-free, children earlier) and satisfies the specification's SameHandleIffSameFunction (canonicity theorem, by induction on handles), two registers are equal iff their functions are, a register is the top/bottom handle iff its function is valid/unsatisfiable, and every program runs to completion (fuel sufficiency incl. ite). Unbounded in program length, operands, variables. Tie: random programs (memo tables exercised) run on model and implementation, tables compared exactly and up to handle renaming; the implementation's table is judged structurally and by truth tables. Re-imports and bridge conversions are covered by C14 / C09 through C06_invariant_gives_canonicity.",
            "Trusted: Coq kernel, extraction + driver, harness; HashMap/HashSet/Vec modelled as finite maps/sets/lists; usize as unbounded N. Raw Bdd::node with unordered arguments is outside 'diagram-building operations' (precondition of mk_node_ok). No axioms.", "4.C06"),
    "C07": ("Coq theorems C07_not/and/or/imp/iff/xor/variable/restrict: for every store satisfying the invariant (any correct memo-table contents, warm or cold) and all operand handles, the result denotes the named Boolean function of the operands' functions (restrict = cofactor), the store is only extended, and extension preserves the function of every previously issued handle (C07_old_handles_unchanged); totality of restrict and ite; lifted to whole programs (C07_programs, C07_later_operations_do_not_change_earlier_results). Tie: same programs as C06; every operation result of the implementation is checked against the truth-table semantics of the op and against the extracted model.",
            "Trusted: as C06. No axioms.", "4.C07"),
}

NOT_YET = "check not built yet in this round (framework under construction; see DESIGN.md section 8 staging)"
NA = {}


def main():
    props = [json.loads(l) for l in open(os.path.join(ROOT, "properties.jsonl"))]
    try:
        commits = subprocess.run(["git", "-C", "/repo", "log", "--format=%H %s"], capture_output=True, text=True).stdout.splitlines()
        hooks = [c.split()[0] for c in commits if " verif-hook:" in c or "verif hook" in c]
    except Exception:
        hooks = []
    checks = []
    for p in props:
        pid = p["id"]
        if pid in CLAIMS:
            text, note, ref = CLAIMS[pid]
            checks.append({
                "property_id": pid,
                "quick_cmd": "./check %s quick" % pid,
                "thorough_cmd": "./check %s thorough" % pid,
                "evidence_file": "evidence/%s.json" % pid,
                "replay_cmd_template": "./check %s --replay {path}" % pid,
                "engine": "coq-model+correspondence",
                "level_claimed": {"category": "proof", "text": text, "design_ref": "DESIGN.md " + ref},
                "level_note": note,
                "technique": TECH,
            })
    m = {
        "version": 1,
        "setup_cmd": "./setup.sh",
        "hooks": {
            "guard": "adf_obdd_verif",
            "enable": "RUSTFLAGS=\"--cfg adf_obdd_verif\" cargo build --offline in /verif/harness (path dependency on /repo/lib); server/bin built with the same RUSTFLAGS",
            "baseline_off_cmd": "cd /repo && cargo test --workspace --no-fail-fast --offline",
            "source_commits": hooks,
            "add_only": True,
        },
        "engines": [{"name": "coq-model+correspondence", "path": "coq/ ocaml/ harness/ tools/",
                     "serves_properties": sorted(CLAIMS),
                     "kind_free_text": "Coq 8.16 development (model, proofs, property files), extraction to OCaml, Rust correspondence harness, Python orchestration"}],
        "checks": checks,
        "not_applicable": [{"property_id": p["id"], "reason": NA.get(p["id"], NOT_YET)} for p in props if p["id"] not in CLAIMS],
        "notes": "Every check: (1) full make of coq/ + re-check of Properties/<ID>.v with Print Assumptions, (2) translator-regenerated definitions re-proved equal to the model, (3) harness rebuilt from /repo's working tree, (4) model vs implementation on generated cases, (5) failing-input search, (6) evidence. See DESIGN.md.",
    }
    json.dump(m, open(os.path.join(ROOT, "MANIFEST.json"), "w"), indent=1)
    print("claimed:", sorted(CLAIMS))


if __name__ == "__main__":
    main()
