#!/usr/bin/env python3
"""Translator (tie T-A): regenerates parts of the Coq model from /repo's current source.

  Gen/GenLeaf.v     - the expression-only methods of lib/src/datatypes/bdd.rs
                      (Term::{is_truth_value,is_true,compare_inf,no_inf_inconsistency},
                       Var::is_constant, ModelCounts::{top,bot,minimum,more_models}, the constants)
                      translated expression by expression;
  Gen/GenFeatures.v - the [features] tables of lib/Cargo.toml and bin/Cargo.toml;
  Gen/GenFlags.v    - small syntactic facts about function bodies that the hand model mirrors
                      by a flag (see DESIGN.md 2.4).

Gen/*Proofs.v (hand-written, committed) prove the generated definitions equal to the hand model's.
If the source leaves the supported subset, the translator fails loudly (exit 3): a broken tie."""
import os, re, sys

REPO = os.environ.get("VERIF_REPO", "/repo")
ROOT = os.path.dirname(os.path.dirname(os.path.abspath(__file__)))
OUT = os.path.join(ROOT, "coq", "Gen")


class Unsupported(Exception):
    pass


# ---------------------------------------------------------------- tiny Rust expression parser
TOK = re.compile(r"\s*(?:(\d+)|([A-Za-z_][A-Za-z_0-9]*(?:::[A-Za-z_][A-Za-z_0-9]*)*)|(==|<=|>=|&&|\|\||[-+!*&().,<>{};]))")


def tokenize(s):
    pos, out = 0, []
    s = s.strip()
    while pos < len(s):
        m = TOK.match(s, pos)
        if not m:
            raise Unsupported("cannot tokenize %r" % s[pos:pos + 20])
        pos = m.end()
        if m.group(1):
            out.append(("num", m.group(1)))
        elif m.group(2):
            out.append(("id", m.group(2)))
        else:
            out.append(("op", m.group(3)))
    return out


class P:
    """precedence climbing: || < && < comparison < additive < unary < postfix"""

    def __init__(self, toks, ctx):
        self.t, self.i, self.ctx = toks, 0, ctx

    def peek(self):
        return self.t[self.i] if self.i < len(self.t) else (None, None)

    def eat(self, kind=None, val=None):
        k, v = self.peek()
        if (kind and k != kind) or (val and v != val):
            raise Unsupported("expected %s %s, got %s %s" % (kind, val, k, v))
        self.i += 1
        return v

    def expr(self):
        l = self.conj()
        while self.peek() == ("op", "||"):
            self.eat()
            l = ("b", "(%s || %s)" % (self.as_bool(l), self.as_bool(self.conj())))
        return l

    def conj(self):
        l = self.cmp()
        while self.peek() == ("op", "&&"):
            self.eat()
            l = ("b", "(%s && %s)" % (self.as_bool(l), self.as_bool(self.cmp())))
        return l

    def cmp(self):
        l = self.add()
        k, v = self.peek()
        if k == "op" and v in ("==", "<=", ">=", "<", ">"):
            self.eat()
            r = self.add()
            return self.ctx.compare(v, l, r)
        return l

    def add(self):
        l = self.unary()
        while self.peek() in (("op", "-"), ("op", "+")):
            o = self.eat()
            l = ("n", "(%s %s %s)" % (l[1], o, self.unary()[1]))
        return l

    def unary(self):
        k, v = self.peek()
        if (k, v) == ("op", "!"):
            self.eat()
            return ("b", "(negb %s)" % self.as_bool(self.unary()))
        if (k, v) in (("op", "*"), ("op", "&")):
            self.eat()
            return self.unary()
        return self.postfix()

    def as_bool(self, x):
        if isinstance(x, tuple):
            if x[0] != "b":
                raise Unsupported("boolean expected: %r" % (x,))
            return x[1]
        return x

    def postfix(self):
        k, v = self.peek()
        if k == "num":
            self.eat()
            e = ("n", v)
        elif k == "id":
            self.eat()
            e = self.ctx.ident(v)
        elif (k, v) == ("op", "("):
            self.eat()
            first = self.expr()
            if self.peek() == ("op", ","):
                self.eat()
                second = self.expr()
                self.eat("op", ")")
                e = ("pair", (first, second))
            else:
                self.eat("op", ")")
                e = first if isinstance(first, tuple) else ("b", first)
        else:
            raise Unsupported("unexpected token %s %s" % (k, v))
        while self.peek() == ("op", "."):
            self.eat()
            k, name = self.peek()
            if k == "num":
                self.eat()
                e = self.ctx.field(e, name)
                continue
            name = self.eat("id")
            if self.peek() == ("op", "("):
                self.eat()
                args = []
                while self.peek() != ("op", ")"):
                    args.append(self.expr())
                    if self.peek() == ("op", ","):
                        self.eat()
                self.eat("op", ")")
                e = self.ctx.method(e, name, args)
            else:
                e = self.ctx.field(e, name)
        return e


class Ctx:
    """typing context for the three impl blocks; values are (kind, coq) with kind in
    n (number), b (bool), term, var, mc (ModelCounts), pair"""

    def __init__(self, selfkind):
        self.selfkind = selfkind

    def ident(self, v):
        if v == "self":
            return (self.selfkind, "self")
        if v == "other":
            return (self.selfkind, "other")
        if v in ("true", "false"):
            return ("b", v)
        consts = {"Term::TOP": ("term", "g_Term_TOP"), "Self::TOP": (self.selfkind, "g_%s_TOP" % {"term": "Term", "var": "Var"}.get(self.selfkind, "X")),
                  "Term::BOT": ("term", "g_Term_BOT"), "Self::BOT": (self.selfkind, "g_%s_BOT" % {"term": "Term", "var": "Var"}.get(self.selfkind, "X")),
                  "Term::UND": ("term", "g_Term_UND"), "Var::TOP": ("var", "g_Var_TOP"), "Var::BOT": ("var", "g_Var_BOT"),
                  "usize::MAX": ("n", "18446744073709551615")}
        if v in consts:
            return consts[v]
        raise Unsupported("identifier %s" % v)

    def field(self, e, name):
        k, c = e
        if k in ("term", "var") and name == "0":
            return ("n", c)
        if k == "mc" and name == "models":
            return ("n", "(snd %s)" % c)
        if k == "mc" and name == "cmodels":
            return ("n", "(fst %s)" % c)
        raise Unsupported("field %s of %s" % (name, k))

    def method(self, e, name, args):
        k, c = e
        if name == "value" and k in ("term", "var"):
            return ("n", c)
        if name == "into" and k == "pair":
            a, b = c
            return ("mc", "(%s, %s)" % (a[1], b[1]))
        if name == "min" and k == "n":
            return ("n", "(N.min %s %s)" % (c, args[0][1]))
        if k in ("term", "var", "mc") and name in ("is_truth_value", "is_true", "compare_inf", "is_constant", "minimum", "more_models"):
            ret = "n" if name == "minimum" else "b"
            return (ret, "(g_%s %s)" % (name, " ".join([c] + [a[1] for a in args])))
        raise Unsupported("method %s on %s" % (name, k))

    def compare(self, op, l, r):
        (kl, cl), (kr, cr) = l, r
        if kl == "b" and kr == "b" and op == "==":
            return ("b", "(Bool.eqb %s %s)" % (cl, cr))
        if op == "==":
            return ("b", "(%s =? %s)" % (cl, cr))
        if op == "<=":
            return ("b", "(%s <=? %s)" % (cl, cr))
        if op == ">=":
            return ("b", "(%s <=? %s)" % (cr, cl))
        if op == "<":
            return ("b", "(%s <? %s)" % (cl, cr))
        if op == ">":
            return ("b", "(%s <? %s)" % (cr, cl))
        raise Unsupported(op)


def fn_body(src, impl, name):
    """body text of `fn name` inside `impl <impl> {`"""
    m = re.search(r"\nimpl %s \{" % re.escape(impl), src)
    if not m:
        raise Unsupported("impl %s not found" % impl)
    sub = src[m.end():]
    m2 = re.search(r"pub (?:const )?fn %s\s*\(([^)]*)\)\s*(?:->\s*[\w:<>]+\s*)?\{" % re.escape(name), sub)
    if not m2:
        raise Unsupported("fn %s::%s not found" % (impl, name))
    i = m2.end()
    depth = 1
    j = i
    while depth:
        if sub[j] == "{":
            depth += 1
        elif sub[j] == "}":
            depth -= 1
        j += 1
    return sub[i:j - 1].strip()


def translate_body(body, ctx):
    """expression bodies, optionally preceded by `if <e> { return <e>; }`"""
    body = re.sub(r"//[^\n]*", "", body).strip()
    m = re.match(r"if\s+(.*?)\s*\{\s*return\s+(.*?);\s*\}\s*(.*)$", body, flags=re.S)
    if m:
        c = P(tokenize(m.group(1)), ctx).expr()
        t = P(tokenize(m.group(2)), ctx).expr()
        e = translate_body(m.group(3), ctx)
        return (e[0], "(if %s then %s else %s)" % (c[1], t[1], e[1]))
    p = P(tokenize(body), ctx)
    e = p.expr()
    if p.i != len(p.t):
        raise Unsupported("trailing tokens in %r" % body)
    return e


def const_value(src, impl, name):
    m = re.search(r"\nimpl %s \{" % re.escape(impl), src)
    sub = src[m.end():]
    m2 = re.search(r"pub const %s: \w+ = (\w+)\((.*?)\);" % name, sub)
    if not m2:
        raise Unsupported("const %s::%s" % (impl, name))
    return P(tokenize(m2.group(2)), Ctx("n")).expr()[1]


def gen_leaf():
    src = open(os.path.join(REPO, "lib/src/datatypes/bdd.rs")).read()
    out = ["(* GENERATED by tools/translate.py from lib/src/datatypes/bdd.rs - do not edit *)",
           "From Coq Require Import NArith Bool.", "Local Open Scope N_scope.", ""]
    for impl, n in (("Term", "BOT"), ("Term", "TOP"), ("Term", "UND"), ("Var", "TOP"), ("Var", "BOT")):
        out.append("Definition g_%s_%s : N := %s." % (impl, n, const_value(src, impl, n)))
    defs = [("Term", "is_truth_value", "term", ["self"]), ("Term", "is_true", "term", ["self"]),
            ("Term", "compare_inf", "term", ["self", "other"]), ("Term", "no_inf_inconsistency", "term", ["self", "other"]),
            ("Var", "is_constant", "var", ["self"]),
            ("ModelCounts", "top", "mc", []), ("ModelCounts", "bot", "mc", []),
            ("ModelCounts", "minimum", "mc", ["self"]), ("ModelCounts", "more_models", "mc", ["self"])]
    for impl, name, kind, params in defs:
        body = fn_body(src, impl, name)
        e = translate_body(body, Ctx(kind))
        ty = {"b": "bool", "n": "N", "mc": "(N * N)"}[e[0]]
        pty = "N" if kind in ("term", "var") else "(N * N)"
        out.append("(* %s::%s : %s *)" % (impl, name, " ".join(body.split())))
        out.append("Definition g_%s %s: %s := %s." % (name, "".join("(%s : %s) " % (p, pty) for p in params), ty, e[1]))
    return "\n".join(out) + "\n"


def gen_features():
    out = ["(* GENERATED by tools/translate.py from lib/Cargo.toml and bin/Cargo.toml - do not edit *)",
           "From Coq Require Import List String.", "Import ListNotations.", "Local Open Scope string_scope.", ""]
    for crate in ("lib", "bin"):
        txt = open(os.path.join(REPO, crate, "Cargo.toml")).read()
        m = re.search(r"\[features\](.*?)(?:\n\[|\Z)", txt, flags=re.S)
        if not m:
            raise Unsupported("[features] of %s" % crate)
        feats = []
        for line in m.group(1).splitlines():
            line = line.split("#")[0].strip()
            mm = re.match(r"(\w+)\s*=\s*\[(.*)\]", line)
            if mm:
                deps = [d.strip().strip('"') for d in mm.group(2).split(",") if d.strip()]
                feats.append((mm.group(1), deps))
        out.append("Definition g_features_%s : list (string * list string) :=\n  [%s]." % (
            crate, ";\n   ".join('("%s", [%s])' % (f, "; ".join('"%s"' % d for d in deps)) for f, deps in feats)))
    return "\n".join(out) + "\n"


def gen_flags():
    """syntactic facts the hand model mirrors by a flag"""
    adf = open(os.path.join(REPO, "lib/src/adf.rs")).read()
    heu = open(os.path.join(REPO, "lib/src/adf/heuristics.rs")).read()
    obdd = open(os.path.join(REPO, "lib/src/obdd.rs")).read()
    out = ["(* GENERATED by tools/translate.py - do not edit *)", "From Coq Require Import NArith Bool.", "Local Open Scope N_scope.", ""]
    # the cube loop of two_val_model_counts_logic: does the closure end with the cube's own result?
    m = re.search(r"\.try_for_each\(\|\(negative, positive\)\| \{(.*?)\n                \}\);", adf, flags=re.S)
    if not m:
        raise Unsupported("cube loop of two_val_model_counts_logic")
    last = [l.strip() for l in m.group(1).strip().splitlines() if l.strip()][-1]
    if last == "res":
        stop = "true"
    elif re.match(r"Ok(::<\(\), \(\)>)?\(\(\)\)$", last):
        stop = "false"
    else:
        raise Unsupported("last expression of the cube closure: %r" % last)
    out.append("(* last expression of the cube closure: %s *)" % last)
    out.append("Definition g_count_stop_on_err : bool := %s." % stop)
    # heu_rand: which variable is proposed?
    m = re.search(r"Some\(\(Var::from\((.*?)\), rng\.gen_bool\(0\.5\)\.into\(\)\)\)", heu)
    if not m:
        raise Unsupported("heu_rand proposal")
    arg = m.group(1).replace(" ", "")
    if arg == "position":
        filt = "false"
    elif arg == "possible[position].0":
        filt = "true"
    else:
        raise Unsupported("heu_rand variable expression %r" % arg)
    out.append("(* heu_rand proposes Var::from(%s) *)" % arg)
    out.append("Definition g_rand_filtered : bool := %s." % filt)
    # max_depth fallback: is there a + 1 ?
    m = re.search(r"self\.max_depth\(self\.nodes\[term\.0\]\.hi\(\)\)\s*\.max\(self\.max_depth\(self\.nodes\[term\.0\]\.lo\(\)\)\)(\s*\+\s*1)?", obdd)
    if not m:
        raise Unsupported("max_depth fallback")
    out.append("Definition g_depth_plus : N := %s." % ("1" if m.group(1) else "0"))
    # nogood_internal: what follows the loop that pops the stack down to the last choice entry?
    m = re.search(r"while let Some\(\(choice, ng\)\) = stack\.pop\(\) \{(.*?)\n                \}(.*?)\n            \}\n\s*match ng_store\.conclusion_closure", adf, flags=re.S)
    if not m:
        raise Unsupported("backtrack block of nogood_internal")
    inner, after = m.group(1), re.sub(r"//[^\n]*", "", m.group(2)).split()
    found = re.search(r"if choice \{.*?(\w+) = true;\s*break;\s*\}", inner, flags=re.S)
    if not after:
        ex = "false"
    elif found and after == ["if", "!" + found.group(1), "{", "break;", "}"]:
        ex = "true"
    else:
        raise Unsupported("statements after the unwinding loop of nogood_internal: %r" % " ".join(after))
    out.append("(* nogood_internal: the loop ends when a backtrack finds no choice entry *)")
    out.append("Definition g_ng_stop_exhausted : bool := %s." % ex)
    return "\n".join(out) + "\n"


def fn_text(src, name):
    m = re.search(r"(?:async )?fn %s\b" % re.escape(name), src)
    if not m:
        raise Unsupported("fn %s not found" % name)
    i = src.index("{", src.index(")", m.end()))
    # skip to the body's opening brace: first "{" after the signature's return type
    depth = 0
    j = m.end()
    # find the brace that opens the body: the first "{" at parenthesis depth 0 after the parameter list
    par = 0
    while True:
        ch = src[j]
        if ch == "(":
            par += 1
        elif ch == ")":
            par -= 1
        elif ch == "{" and par == 0:
            break
        j += 1
    i = j
    depth = 1
    j = i + 1
    while depth:
        if src[j] == "{":
            depth += 1
        elif src[j] == "}":
            depth -= 1
        j += 1
    return src[i:j]


def filter_keys(body, coll, method, nth=0):
    """keys of the doc! filter of the nth call `<coll>.<method>(doc! { ... }` in a function body"""
    ms = list(re.finditer(r"%s\s*\.\s*%s\(\s*doc!\s*\{([^}]*)\}" % (coll, method), body))
    if len(ms) <= nth:
        raise Unsupported("call %s.%s #%d not found" % (coll, method, nth))
    keys = re.findall(r'"(\w+)"\s*:', ms[nth].group(1))
    out = []
    for k in keys:
        if k == "username":
            out.append("FUser")
        elif k == "name":
            out.append("FName")
        else:
            raise Unsupported("unexpected filter key %s" % k)
    return out


def gen_filters():
    adf = open(os.path.join(REPO, "server/src/adf.rs")).read()
    usr = open(os.path.join(REPO, "server/src/user.rs")).read()
    sites = [
        ("ft_add_exists", filter_keys(fn_text(adf, "adf_problem_exists"), "adf_coll", "find_one")),
        ("ft_add_complete", filter_keys(fn_text(adf, "add_adf_problem"), "adf_coll", "update_one")),
        ("ft_solve_find", filter_keys(fn_text(adf, "solve_adf_problem"), "adf_coll", "find_one")),
        ("ft_solve_complete", filter_keys(fn_text(adf, "solve_adf_problem"), "adf_coll", "update_one")),
        ("ft_get_find", filter_keys(fn_text(adf, "get_adf_problem"), "adf_coll", "find_one")),
        ("ft_delete_one", filter_keys(fn_text(adf, "delete_adf_problem"), "adf_coll", "delete_one")),
        ("ft_list_find", filter_keys(fn_text(adf, "get_adf_problems_for_user"), "adf_coll", "find")),
        ("ft_delacc_many", filter_keys(fn_text(usr, "delete_account"), "adf_coll", "delete_many")),
        ("ft_update_many", filter_keys(fn_text(usr, "update_user"), "adf_coll", "update_many")),
    ]
    # every users-collection filter must be exactly {"username": ...}
    for fn, meth, n in (("username_exists", "find_one", 0), ("login", "find_one", 0), ("logout", "find_one", 0), ("user_info", "find_one", 0),
                        ("delete_account", "delete_one", 0), ("update_user", "replace_one", 0)):
        if filter_keys(fn_text(usr, fn), "user_coll", meth, n) != ["FUser"]:
            raise Unsupported("users filter of %s" % fn)
    # is the running entry of a task removed when the task panics?  (a guard object dropped on unwind)
    guard = "true" if re.search(r"impl\s+Drop\s+for\s+\w+", adf) and adf.count("RunningGuard") >= 3 else "false"
    out = ["(* GENERATED by tools/translate.py from server/src/adf.rs and server/src/user.rs - do not edit *)",
           "From Coq Require Import List.", "From ADF Require Import Server.Model.", "Import ListNotations.", "",
           "Definition g_ftable : ftable :=", "  mkFT " + " ".join("[%s]" % "; ".join(k) for _, k in sites) + ".",
           "(* " + ", ".join("%s = %s" % (n, k) for n, k in sites) + " *)",
           "Definition g_remove_on_panic : bool := %s." % guard]
    return "\n".join(out) + "\n"


def main():
    os.makedirs(OUT, exist_ok=True)
    rc = 0
    for name, fn in (("GenLeaf.v", gen_leaf), ("GenFeatures.v", gen_features), ("GenFlags.v", gen_flags), ("GenFilters.v", gen_filters)):
        try:
            txt = fn()
        except Unsupported as e:
            print("TRANSLATOR: %s: source left the supported subset: %s" % (name, e))
            rc = 3
            continue
        p = os.path.join(OUT, name)
        if not os.path.exists(p) or open(p).read() != txt:
            open(p, "w").write(txt)
    sys.exit(rc)


if __name__ == "__main__":
    main()
