#!/usr/bin/env python3
"""Translator (tie T-A): regenerates parts of the Coq model from /repo's current source.

  Gen/GenLeaf.v     - the expression-only methods of lib/src/datatypes/bdd.rs
                      (Term::{is_truth_value,is_true,compare_inf,no_inf_inconsistency},
                       Var::is_constant, ModelCounts::{top,bot,minimum,more_models}, the constants)
                      translated expression by expression;
  Gen/GenFeatures.v - the [features] tables of lib/Cargo.toml and bin/Cargo.toml;
  Gen/GenFlags.v    - small syntactic facts about function bodies that the hand model mirrors
                      by a flag (see DESIGN.md 2.4).

Gen/*Proofs.v (hand-written, committed) prove the generated definitions equal to the hand model's.
If the source leaves the supported subset, the translator fails loudly (exit 3): a broken tie."""
import os, re, sys

REPO = os.environ.get("VERIF_REPO", "/repo")
ROOT = os.path.dirname(os.path.dirname(os.path.abspath(__file__)))
OUT = os.path.join(ROOT, "coq", "Gen")


class Unsupported(Exception):
    pass


# ---------------------------------------------------------------- tiny Rust expression parser
TOK = re.compile(r"\s*(?:(\d+)|([A-Za-z_][A-Za-z_0-9]*(?:::[A-Za-z_][A-Za-z_0-9]*)*)|(==|<=|>=|&&|\|\||[-+!*&().,<>{};]))")


def tokenize(s):
    pos, out = 0, []
    s = s.strip()
    while pos < len(s):
        m = TOK.match(s, pos)
        if not m:
            raise Unsupported("cannot tokenize %r" % s[pos:pos + 20])
        pos = m.end()
        if m.group(1):
            out.append(("num", m.group(1)))
        elif m.group(2):
            out.append(("id", m.group(2)))
        else:
            out.append(("op", m.group(3)))
    return out


class P:
    """precedence climbing: || < && < comparison < additive < unary < postfix"""

    def __init__(self, toks, ctx):
        self.t, self.i, self.ctx = toks, 0, ctx

    def peek(self):
        return self.t[self.i] if self.i < len(self.t) else (None, None)

    def eat(self, kind=None, val=None):
        k, v = self.peek()
        if (kind and k != kind) or (val and v != val):
            raise Unsupported("expected %s %s, got %s %s" % (kind, val, k, v))
        self.i += 1
        return v

    def expr(self):
        l = self.conj()
        while self.peek() == ("op", "||"):
            self.eat()
            l = ("b", "(%s || %s)" % (self.as_bool(l), self.as_bool(self.conj())))
        return l

    def conj(self):
        l = self.cmp()
        while self.peek() == ("op", "&&"):
            self.eat()
            l = ("b", "(%s && %s)" % (self.as_bool(l), self.as_bool(self.cmp())))
        return l

    def cmp(self):
        l = self.add()
        k, v = self.peek()
        if k == "op" and v in ("==", "<=", ">=", "<", ">"):
            self.eat()
            r = self.add()
            return self.ctx.compare(v, l, r)
        return l

    def add(self):
        l = self.unary()
        while self.peek() in (("op", "-"), ("op", "+")):
            o = self.eat()
            l = ("n", "(%s %s %s)" % (l[1], o, self.unary()[1]))
        return l

    def unary(self):
        k, v = self.peek()
        if (k, v) == ("op", "!"):
            self.eat()
            return ("b", "(negb %s)" % self.as_bool(self.unary()))
        if (k, v) in (("op", "*"), ("op", "&")):
            self.eat()
            return self.unary()
        return self.postfix()

    def as_bool(self, x):
        if isinstance(x, tuple):
            if x[0] != "b":
                raise Unsupported("boolean expected: %r" % (x,))
            return x[1]
        return x

    def postfix(self):
        k, v = self.peek()
        if k == "num":
            self.eat()
            e = ("n", v)
        elif k == "id":
            self.eat()
            e = self.ctx.ident(v)
        elif (k, v) == ("op", "("):
            self.eat()
            first = self.expr()
            if self.peek() == ("op", ","):
                self.eat()
                second = self.expr()
                self.eat("op", ")")
                e = ("pair", (first, second))
            else:
                self.eat("op", ")")
                e = first if isinstance(first, tuple) else ("b", first)
        else:
            raise Unsupported("unexpected token %s %s" % (k, v))
        while self.peek() == ("op", "."):
            self.eat()
            k, name = self.peek()
            if k == "num":
                self.eat()
                e = self.ctx.field(e, name)
                continue
            name = self.eat("id")
            if self.peek() == ("op", "("):
                self.eat()
                args = []
                while self.peek() != ("op", ")"):
                    args.append(self.expr())
                    if self.peek() == ("op", ","):
                        self.eat()
                self.eat("op", ")")
                e = self.ctx.method(e, name, args)
            else:
                e = self.ctx.field(e, name)
        return e


class Ctx:
    """typing context for the three impl blocks; values are (kind, coq) with kind in
    n (number), b (bool), term, var, mc (ModelCounts), pair"""

    def __init__(self, selfkind):
        self.selfkind = selfkind

    def ident(self, v):
        if v == "self":
            return (self.selfkind, "self")
        if v == "other":
            return (self.selfkind, "other")
        if v in ("true", "false"):
            return ("b", v)
        consts = {"Term::TOP": ("term", "g_Term_TOP"), "Self::TOP": (self.selfkind, "g_%s_TOP" % {"term": "Term", "var": "Var"}.get(self.selfkind, "X")),
                  "Term::BOT": ("term", "g_Term_BOT"), "Self::BOT": (self.selfkind, "g_%s_BOT" % {"term": "Term", "var": "Var"}.get(self.selfkind, "X")),
                  "Term::UND": ("term", "g_Term_UND"), "Var::TOP": ("var", "g_Var_TOP"), "Var::BOT": ("var", "g_Var_BOT"),
                  "usize::MAX": ("n", "18446744073709551615")}
        if v in consts:
            return consts[v]
        raise Unsupported("identifier %s" % v)

    def field(self, e, name):
        k, c = e
        if k in ("term", "var") and name == "0":
            return ("n", c)
        if k == "mc" and name == "models":
            return ("n", "(snd %s)" % c)
        if k == "mc" and name == "cmodels":
            return ("n", "(fst %s)" % c)
        raise Unsupported("field %s of %s" % (name, k))

    def method(self, e, name, args):
        k, c = e
        if name == "value" and k in ("term", "var"):
            return ("n", c)
        if name == "into" and k == "pair":
            a, b = c
            return ("mc", "(%s, %s)" % (a[1], b[1]))
        if name == "min" and k == "n":
            return ("n", "(N.min %s %s)" % (c, args[0][1]))
        if k in ("term", "var", "mc") and name in ("is_truth_value", "is_true", "compare_inf", "is_constant", "minimum", "more_models"):
            ret = "n" if name == "minimum" else "b"
            return (ret, "(g_%s %s)" % (name, " ".join([c] + [a[1] for a in args])))
        raise Unsupported("method %s on %s" % (name, k))

    def compare(self, op, l, r):
        (kl, cl), (kr, cr) = l, r
        if kl == "b" and kr == "b" and op == "==":
            return ("b", "(Bool.eqb %s %s)" % (cl, cr))
        if op == "==":
            return ("b", "(%s =? %s)" % (cl, cr))
        if op == "<=":
            return ("b", "(%s <=? %s)" % (cl, cr))
        if op == ">=":
            return ("b", "(%s <=? %s)" % (cr, cl))
        if op == "<":
            return ("b", "(%s <? %s)" % (cl, cr))
        if op == ">":
            return ("b", "(%s <? %s)" % (cr, cl))
        raise Unsupported(op)


def fn_body(src, impl, name):
    """body text of `fn name` inside `impl <impl> {`"""
    m = re.search(r"\nimpl %s \{" % re.escape(impl), src)
    if not m:
        raise Unsupported("impl %s not found" % impl)
    sub = src[m.end():]
    m2 = re.search(r"pub (?:const )?fn %s\s*\(([^)]*)\)\s*(?:->\s*[\w:<>]+\s*)?\{" % re.escape(name), sub)
    if not m2:
        raise Unsupported("fn %s::%s not found" % (impl, name))
    i = m2.end()
    depth = 1
    j = i
    while depth:
        if sub[j] == "{":
            depth += 1
        elif sub[j] == "}":
            depth -= 1
        j += 1
    return sub[i:j - 1].strip()


def translate_body(body, ctx):
    """expression bodies, optionally preceded by `if <e> { return <e>; }`"""
    body = re.sub(r"//[^\n]*", "", body).strip()
    m = re.match(r"if\s+(.*?)\s*\{\s*return\s+(.*?);\s*\}\s*(.*)$", body, flags=re.S)
    if m:
        c = P(tokenize(m.group(1)), ctx).expr()
        t = P(tokenize(m.group(2)), ctx).expr()
        e = translate_body(m.group(3), ctx)
        return (e[0], "(if %s then %s else %s)" % (c[1], t[1], e[1]))
    p = P(tokenize(body), ctx)
    e = p.expr()
    if p.i != len(p.t):
        raise Unsupported("trailing tokens in %r" % body)
    return e


def const_value(src, impl, name):
    m = re.search(r"\nimpl %s \{" % re.escape(impl), src)
    sub = src[m.end():]
    m2 = re.search(r"pub const %s: \w+ = (\w+)\((.*?)\);" % name, sub)
    if not m2:
        raise Unsupported("const %s::%s" % (impl, name))
    return P(tokenize(m2.group(2)), Ctx("n")).expr()[1]


def gen_leaf():
    src = open(os.path.join(REPO, "lib/src/datatypes/bdd.rs")).read()
    out = ["(* GENERATED by tools/translate.py from lib/src/datatypes/bdd.rs - do not edit *)",
           "From Coq Require Import NArith Bool.", "Local Open Scope N_scope.", ""]
    for impl, n in (("Term", "BOT"), ("Term", "TOP"), ("Term", "UND"), ("Var", "TOP"), ("Var", "BOT")):
        out.append("Definition g_%s_%s : N := %s." % (impl, n, const_value(src, impl, n)))
    defs = [("Term", "is_truth_value", "term", ["self"]), ("Term", "is_true", "term", ["self"]),
            ("Term", "compare_inf", "term", ["self", "other"]), ("Term", "no_inf_inconsistency", "term", ["self", "other"]),
            ("Var", "is_constant", "var", ["self"]),
            ("ModelCounts", "top", "mc", []), ("ModelCounts", "bot", "mc", []),
            ("ModelCounts", "minimum", "mc", ["self"]), ("ModelCounts", "more_models", "mc", ["self"])]
    for impl, name, kind, params in defs:
        body = fn_body(src, impl, name)
        e = translate_body(body, Ctx(kind))
        ty = {"b": "bool", "n": "N", "mc": "(N * N)"}[e[0]]
        pty = "N" if kind in ("term", "var") else "(N * N)"
        out.append("(* %s::%s : %s *)" % (impl, name, " ".join(body.split())))
        out.append("Definition g_%s %s: %s := %s." % (name, "".join("(%s : %s) " % (p, pty) for p in params), ty, e[1]))
    return "\n".join(out) + "\n"


def gen_features():
    out = ["(* GENERATED by tools/translate.py from lib/Cargo.toml and bin/Cargo.toml - do not edit *)",
           "From Coq Require Import List String.", "Import ListNotations.", "Local Open Scope string_scope.", ""]
    for crate in ("lib", "bin"):
        txt = open(os.path.join(REPO, crate, "Cargo.toml")).read()
        m = re.search(r"\[features\](.*?)(?:\n\[|\Z)", txt, flags=re.S)
        if not m:
            raise Unsupported("[features] of %s" % crate)
        feats = []
        for line in m.group(1).splitlines():
            line = line.split("#")[0].strip()
            mm = re.match(r"(\w+)\s*=\s*\[(.*)\]", line)
            if mm:
                deps = [d.strip().strip('"') for d in mm.group(2).split(",") if d.strip()]
                feats.append((mm.group(1), deps))
        out.append("Definition g_features_%s : list (string * list string) :=\n  [%s]." % (
            crate, ";\n   ".join('("%s", [%s])' % (f, "; ".join('"%s"' % d for d in deps)) for f, deps in feats)))
    return "\n".join(out) + "\n"


def gen_flags():
    """syntactic facts the hand model mirrors by a flag"""
    adf = open(os.path.join(REPO, "lib/src/adf.rs")).read()
    heu = open(os.path.join(REPO, "lib/src/adf/heuristics.rs")).read()
    obdd = open(os.path.join(REPO, "lib/src/obdd.rs")).read()
    out = ["(* GENERATED by tools/translate.py - do not edit *)", "From Coq Require Import NArith Bool.", "Local Open Scope N_scope.", ""]
    # the cube loop of two_val_model_counts_logic: does the closure end with the cube's own result?
    m = re.search(r"\.try_for_each\(\|\(negative, positive\)\| \{(.*?)\n                \}\);", adf, flags=re.S)
    if not m:
        raise Unsupported("cube loop of two_val_model_counts_logic")
    last = [l.strip() for l in m.group(1).strip().splitlines() if l.strip()][-1]
    if last == "res":
        stop = "true"
    elif re.match(r"Ok(::<\(\), \(\)>)?\(\(\)\)$", last):
        stop = "false"
    else:
        raise Unsupported("last expression of the cube closure: %r" % last)
    out.append("(* last expression of the cube closure: %s *)" % last)
    out.append("Definition g_count_stop_on_err : bool := %s." % stop)
    # heu_rand: which variable is proposed?
    m = re.search(r"Some\(\(Var::from\((.*?)\), rng\.gen_bool\(0\.5\)\.into\(\)\)\)", heu)
    if not m:
        raise Unsupported("heu_rand proposal")
    arg = m.group(1).replace(" ", "")
    if arg == "position":
        filt = "false"
    elif arg == "possible[position].0":
        filt = "true"
    else:
        raise Unsupported("heu_rand variable expression %r" % arg)
    out.append("(* heu_rand proposes Var::from(%s) *)" % arg)
    out.append("Definition g_rand_filtered : bool := %s." % filt)
    # max_depth fallback: is there a + 1 ?
    m = re.search(r"self\.max_depth\(self\.nodes\[term\.0\]\.hi\(\)\)\s*\.max\(self\.max_depth\(self\.nodes\[term\.0\]\.lo\(\)\)\)(\s*\+\s*1)?", obdd)
    if not m:
        raise Unsupported("max_depth fallback")
    out.append("Definition g_depth_plus : N := %s." % ("1" if m.group(1) else "0"))
    # nogood_internal: what follows the loop that pops the stack down to the last choice entry?
    m = re.search(r"while let Some\(\(choice, ng\)\) = stack\.pop\(\) \{(.*?)\n                \}(.*?)\n            \}\n\s*match ng_store\.conclusion_closure", adf, flags=re.S)
    if not m:
        raise Unsupported("backtrack block of nogood_internal")
    inner, after = m.group(1), re.sub(r"//[^\n]*", "", m.group(2)).split()
    found = re.search(r"if choice \{.*?(\w+) = true;\s*break;\s*\}", inner, flags=re.S)
    if not after:
        ex = "false"
    elif found and after == ["if", "!" + found.group(1), "{", "break;", "}"]:
        ex = "true"
    else:
        raise Unsupported("statements after the unwinding loop of nogood_internal: %r" % " ".join(after))
    # generate_var_dependencies (the first half of fix_import): does it start from an empty table?
    gv = fn_text(obdd, "generate_var_dependencies")
    body_gv = gv[: gv.index("self.nodes.iter()")] if "self.nodes.iter()" in gv else None
    if body_gv is None:
        raise Unsupported("generate_var_dependencies")
    pre = [l.strip() for l in re.sub(r"//[^\n]*", "", body_gv).splitlines()[1:] if l.strip() and not l.strip().startswith("#[cfg")]
    if pre == []:
        clears = "false"
    elif pre in (["self.var_deps.clear();"], ["self.var_deps = Vec::new();"], ["{", "self.var_deps.clear();"]):
        clears = "true"
    else:
        raise Unsupported("statements before the loop of generate_var_dependencies: %r" % pre)
    out.append("(* generate_var_dependencies rebuilds the variable sets from an empty table *)")
    out.append("Definition g_fix_import_clears : bool := %s." % clears)
    out.append("(* nogood_internal: the loop ends when a backtrack finds no choice entry *)")
    out.append("Definition g_ng_stop_exhausted : bool := %s." % ex)
    return "\n".join(out) + "\n"


def fn_text(src, name):
    m = re.search(r"(?:async )?fn %s\b" % re.escape(name), src)
    if not m:
        raise Unsupported("fn %s not found" % name)
    i = src.index("{", src.index(")", m.end()))
    # skip to the body's opening brace: first "{" after the signature's return type
    depth = 0
    j = m.end()
    # find the brace that opens the body: the first "{" at parenthesis depth 0 after the parameter list
    par = 0
    while True:
        ch = src[j]
        if ch == "(":
            par += 1
        elif ch == ")":
            par -= 1
        elif ch == "{" and par == 0:
            break
        j += 1
    i = j
    depth = 1
    j = i + 1
    while depth:
        if src[j] == "{":
            depth += 1
        elif src[j] == "}":
            depth -= 1
        j += 1
    return src[i:j]


def filter_keys(body, coll, method, nth=0):
    """keys of the doc! filter of the nth call `<coll>.<method>(doc! { ... }` in a function body"""
    ms = list(re.finditer(r"%s\s*\.\s*%s\(\s*doc!\s*\{([^}]*)\}" % (coll, method), body))
    if len(ms) <= nth:
        raise Unsupported("call %s.%s #%d not found" % (coll, method, nth))
    keys = re.findall(r'"(\w+)"\s*:', ms[nth].group(1))
    out = []
    for k in keys:
        if k == "username":
            out.append("FUser")
        elif k == "name":
            out.append("FName")
        else:
            raise Unsupported("unexpected filter key %s" % k)
    return out


def gen_filters():
    adf = open(os.path.join(REPO, "server/src/adf.rs")).read()
    usr = open(os.path.join(REPO, "server/src/user.rs")).read()
    sites = [
        ("ft_add_exists", filter_keys(fn_text(adf, "adf_problem_exists"), "adf_coll", "find_one")),
        ("ft_add_complete", filter_keys(fn_text(adf, "add_adf_problem"), "adf_coll", "update_one")),
        ("ft_solve_find", filter_keys(fn_text(adf, "solve_adf_problem"), "adf_coll", "find_one")),
        ("ft_solve_complete", filter_keys(fn_text(adf, "solve_adf_problem"), "adf_coll", "update_one")),
        ("ft_get_find", filter_keys(fn_text(adf, "get_adf_problem"), "adf_coll", "find_one")),
        ("ft_delete_one", filter_keys(fn_text(adf, "delete_adf_problem"), "adf_coll", "delete_one")),
        ("ft_list_find", filter_keys(fn_text(adf, "get_adf_problems_for_user"), "adf_coll", "find")),
        ("ft_delacc_many", filter_keys(fn_text(usr, "delete_account"), "adf_coll", "delete_many")),
        ("ft_update_many", filter_keys(fn_text(usr, "update_user"), "adf_coll", "update_many")),
    ]
    # every users-collection filter must be exactly {"username": ...}
    for fn, meth, n in (("username_exists", "find_one", 0), ("login", "find_one", 0), ("logout", "find_one", 0), ("user_info", "find_one", 0),
                        ("delete_account", "delete_one", 0), ("update_user", "replace_one", 0)):
        if filter_keys(fn_text(usr, fn), "user_coll", meth, n) != ["FUser"]:
            raise Unsupported("users filter of %s" % fn)
    # is the running entry of a task removed when the task panics?  (a guard object dropped on unwind)
    guard = "true" if re.search(r"impl\s+Drop\s+for\s+\w+", adf) and adf.count("RunningGuard") >= 3 else "false"
    out = ["(* GENERATED by tools/translate.py from server/src/adf.rs and server/src/user.rs - do not edit *)",
           "From Coq Require Import List.", "From ADF Require Import Server.Model.", "Import ListNotations.", "",
           "Definition g_ftable : ftable :=", "  mkFT " + " ".join("[%s]" % "; ".join(k) for _, k in sites) + ".",
           "(* " + ", ".join("%s = %s" % (n, k) for n, k in sites) + " *)",
           "Definition g_remove_on_panic : bool := %s." % guard]
    return "\n".join(out) + "\n"


def match_brace(src, i):
    """index just after the brace block that opens at src[i] == '{' (strings and chars are skipped)"""
    depth = 0
    j = i
    while j < len(src):
        ch = src[j]
        if ch == '"':
            j += 1
            while src[j] != '"':
                j += 2 if src[j] == "\\" else 1
        elif ch == "{":
            depth += 1
        elif ch == "}":
            depth -= 1
            if depth == 0:
                return j + 1
        j += 1
    raise Unsupported("unbalanced braces")


def gen_cli():
    """bin/src/main.rs, App::run: per library mode the order of the set-up steps and the ordered list of
    (flags whose disjunction guards the block, library method called in it, object that prints)"""
    src = open(os.path.join(REPO, "bin/src/main.rs")).read()
    src = re.sub(r"//[^\n]*", "", src)
    m = re.search(r"match self\.implementation\.as_str\(\) \{", src)
    if not m:
        raise Unsupported("match on the library mode")
    body = src[m.end() - 1: match_brace(src, m.end() - 1)]
    arms = {}
    for key, pat in (("hybrid", r'"hybrid" => \{'), ("biodivine", r'"biodivine" => \{'), ("naive", r"\n\s*_ => \{")):
        ms = list(re.finditer(pat, body))
        if len(ms) < 1:
            raise Unsupported("arm %s" % key)
        a = ms[0] if key != "naive" else [x for x in ms if body[:x.start()].count("{") - body[:x.start()].count("}") == 1][-1]
        st = a.end() - 1
        arms[key] = body[st: match_brace(body, st)]
    if set(re.findall(r'"(\w+)" => \{', body)) - {"hybrid", "biodivine"}:
        raise Unsupported("unknown library mode arm")
    out = ["(* GENERATED by tools/translate.py from bin/src/main.rs (App::run) - do not edit *)",
           "From Coq Require Import List String.", "Import ListNotations.", "Local Open Scope string_scope.", ""]
    # long option -> field of App (clap derive attributes)
    app = src[src.index("struct App {"): src.index("impl App {")]
    longs = re.findall(r'#\[arg\(long = "(\w+)"[^\]]*\)\]\s*(\w+): bool', app)
    out.append("Definition g_cli_flags : list (string * string) := [%s]." % "; ".join('("%s", "%s")' % (f, l) for l, f in longs))
    setup_pats = [("parse", r"parser\.parse\(\)"), ("sort_lex", r"parser\.varsort_lexi\(\)"), ("sort_alphan", r"parser\.varsort_alphanum\(\)"),
                  ("build", r"(?:BdAdf|Adf)::from_parser\(&parser\)"), ("build_rew", r"BdAdf::from_parser_with_stm_rewrite\(&parser\)"),
                  ("hybrid_step", r"adf\.hybrid_step\(\)"), ("import", r"serde_json::from_str"), ("export", r"serde_json::to_writer"),
                  ("counter", r"match self\.counter")]
    sem_fields = {"grounded", "complete", "stable", "stable_counting_a", "stable_counting_b", "stable_pre", "stable_rew", "stable_rew2", "stable_ng", "two_val"}
    for key in ("hybrid", "biodivine", "naive"):
        arm = arms[key]
        steps = []
        for name, pat in setup_pats:
            for x in re.finditer(pat, arm):
                steps.append((x.start(), name))
        steps.sort()
        first_sem = None
        secs = []
        for x in re.finditer(r"if ((?:!?self\.\w+)(?: \|\| self\.\w+)*) \{", arm):
            conds = re.findall(r"(!?)self\.(\w+)", x.group(1))
            fields = [f for neg, f in conds]
            if not all(f in sem_fields for f in fields):
                continue
            blk = arm[x.end() - 1: match_brace(arm, x.end() - 1)]
            if any(neg for neg, f in conds) or "from_parser" in blk:
                continue        # the choice between the two constructors, reported among the set-up steps
            calls = [c for c in re.findall(r"\b(\w+)\.(\w+)\(", blk) if c[1] not in ("print_interpretation", "print_dictionary", "unwrap_or_default", "into_iter", "expect")
                     and c[0] in ("adf", "naive_adf")]
            printers = sorted(set(re.findall(r"(\w+)\.print_interpretation\(", blk)))
            if len(calls) != 1 or len(printers) != 1:
                raise Unsupported("block guarded by %s in mode %s: calls %r printers %r" % (x.group(1), key, calls, printers))
            if first_sem is None:
                first_sem = x.start()
            heu = "heu" if "self.heu" in blk else "-"
            secs.append((fields, calls[0][1], printers[0], heu))
        setup = [n for pos, n in steps if first_sem is None or pos < first_sem]
        late = [n for pos, n in steps if first_sem is not None and pos >= first_sem]
        if late:
            raise Unsupported("set-up step %r after the first semantics block in mode %s" % (late, key))
        out.append("Definition g_cli_setup_%s : list string := [%s]." % (key, "; ".join('"%s"' % n for n in setup)))
        out.append("Definition g_cli_%s : list (list string * string * string * string) :=\n  [%s]." % (
            key, ";\n   ".join('([%s], "%s", "%s", "%s")' % ("; ".join('"%s"' % f for f in fl), meth, pr, heu) for fl, meth, pr, heu in secs)))
    return "\n".join(out) + "\n"


def gen_dispatch():
    """name -> implementation tables that the model mirrors by a match: the heuristics enum (lib) and the
    strategy dispatch of the web service (already-solved test, library method, stored field)"""
    heu = open(os.path.join(REPO, "lib/src/adf/heuristics.rs")).read()
    adf = re.sub(r"//[^\n]*", "", open(os.path.join(REPO, "server/src/adf.rs")).read())
    out = ["(* GENERATED by tools/translate.py from lib/src/adf/heuristics.rs and server/src/adf.rs - do not edit *)",
           "From Coq Require Import List String.", "Import ListNotations.", "Local Open Scope string_scope.", ""]
    m = re.search(r"fn get_heuristic\(&self\)[^{]*\{\s*match self \{(.*?)\n        \}", heu, flags=re.S)
    if not m:
        raise Unsupported("Heuristic::get_heuristic")
    rows = re.findall(r"(?:Heuristic|Self)::(\w+)(?:\(\w+\))? => &?(\w+),", m.group(1))
    if len(rows) != m.group(1).count("=>"):
        raise Unsupported("arm of get_heuristic")
    out.append("Definition g_heuristics : list (string * string) := [%s]." % "; ".join('("%s", "%s")' % r for r in sorted(rows)))
    m = re.search(r"impl Default for Heuristic<'_> \{\s*fn default\(\) -> Self \{\s*Self::(\w+)\s*\}", heu)
    if not m:
        raise Unsupported("Default for Heuristic")
    out.append('Definition g_heuristic_default : string := "%s".' % m.group(1))
    solve = fn_text(adf, "solve_adf_problem")
    checks = dict(re.findall(r"Strategy::(\w+) => adf_problem\.acs_per_strategy\.(\w+)\.is_some\(\)", solve))
    sets = dict(re.findall(r'Strategy::(\w+) => doc! \{ "\$set": \{ "acs_per_strategy\.(\w+)": &acs_and_graphs_enum \} \}', solve))
    m = re.search(r"let acs: Vec<Ac> = match adf_problem_input\.strategy \{(.*?)\n            \};", solve, flags=re.S)
    if not m:
        raise Unsupported("strategy dispatch of solve_adf_problem")
    meths = {}
    for var, expr in re.findall(r"Strategy::(\w+) =>\s*(.*?),\n", m.group(1) + "\n", flags=re.S):
        e = "".join(expr.split())
        mm = re.match(r"(vec!\[)?adf\.(\w+)\((.*?)\)(\.collect\(\))?(\])?$", e)
        if not mm:
            raise Unsupported("strategy arm %s: %s" % (var, e))
        arg = mm.group(3)
        if arg not in ("", "adf_bdd::adf::heuristics::Heuristic::default()"):
            raise Unsupported("argument of %s: %s" % (mm.group(2), arg))
        meths[var] = mm.group(2) + ("(default)" if arg else "")
    if not (set(checks) == set(sets) == set(meths)):
        raise Unsupported("strategy tables disagree on the variants: %r %r %r" % (sorted(checks), sorted(sets), sorted(meths)))
    out.append("Definition g_strategies : list (string * string * string * string) :=\n  [%s]." % ";\n   ".join(
        '("%s", "%s", "%s", "%s")' % (v, checks[v], meths[v], sets[v]) for v in sorted(meths)))
    add = fn_text(adf, "add_adf_problem")
    prow = []
    for x in re.finditer(r"Parsing::(\w+) =>\s*", add):
        if add[x.end()] == "{":
            expr = add[x.end(): match_brace(add, x.end())]
        else:
            expr = add[x.end(): add.index(",", x.end())]
        e = "".join(expr.split())
        if e == "Adf::from_parser(&parser)":
            prow.append((x.group(1), "native"))
        elif e == "{letbd_adf=BdAdf::from_parser(&parser);bd_adf.hybrid_step_opt(false)}":
            prow.append((x.group(1), "biodivine+hybrid_step_opt(false)"))
        else:
            raise Unsupported("parsing arm %s: %s" % (x.group(1), e[:200]))
    out.append("Definition g_parsings : list (string * string) := [%s]." % "; ".join('("%s", "%s")' % r for r in sorted(prow)))
    return "\n".join(out) + "\n"

AC_MUTATORS = ("push|pop|clear|truncate|swap|iter_mut|drain|retain|insert|remove|extend|append|sort\\w*|reverse|resize\\w*|as_mut\\w*|get_mut|"
               "last_mut|first_mut|fill\\w*|split_off|dedup\\w*|swap_remove|rotate_\\w+|copy_from_slice|clone_from\\w*|splice|split_at_mut|chunks_mut")


def gen_ac():
    """which methods of lib/src/adf.rs write the list of acceptance conditions of an existing object?
    (the model passes that list to every semantics as an immutable argument)"""
    src = open(os.path.join(REPO, "lib/src/adf.rs")).read()
    cut = src.find("#[cfg(test)]\nmod test")
    if cut >= 0:
        src = src[:cut]
    src = re.sub(r"//[^\n]*", "", src)
    writers = set()
    for m in re.finditer(r"\bfn (\w+)\b", src):
        name = m.group(1)
        try:
            body = fn_text(src[m.start():], name)
        except (Unsupported, IndexError, ValueError):
            raise Unsupported("body of fn %s" % name)
        pats = [r"&mut\s+self\s*\.\s*ac\b", r"\bself\s*\.\s*ac\s*(?:[-+*/|&^]|<<|>>)?=(?!=)", r"\bself\s*\.\s*ac\s*\[[^\]]*\]\s*(?:[-+*/|&^]|<<|>>)?=(?!=)",
                r"\bself\s*\.\s*ac\s*\.\s*(?:%s)\s*\(" % AC_MUTATORS, r"\{[^{}]*\bac\b[^{}]*\}\s*=\s*(?:&mut\s+\*?)?self\b"]
        if any(re.search(p, body) for p in pats):
            writers.add(name)
    out = ["(* GENERATED by tools/translate.py - do not edit *)", "From Coq Require Import String List.", "Import ListNotations.", "Local Open Scope string_scope.", "",
           "(* methods of lib/src/adf.rs that assign, mutably borrow or call a mutating method on self.ac *)",
           "Definition g_ac_writers : list string := [%s]." % "; ".join('"%s"' % w for w in sorted(writers))]
    return "\n".join(out) + "\n"


def main():
    os.makedirs(OUT, exist_ok=True)
    rc = 0
    for name, fn in (("GenLeaf.v", gen_leaf), ("GenFeatures.v", gen_features), ("GenFlags.v", gen_flags), ("GenFilters.v", gen_filters), ("GenCli.v", gen_cli), ("GenDispatch.v", gen_dispatch), ("GenAc.v", gen_ac)):
        try:
            txt = fn()
        except Unsupported as e:
            print("TRANSLATOR: %s: source left the supported subset: %s" % (name, e))
            rc = 3
            continue
        p = os.path.join(OUT, name)
        if not os.path.exists(p) or open(p).read() != txt:
            open(p, "w").write(txt)
    sys.exit(rc)


if __name__ == "__main__":
    main()
