#!/usr/bin/env python3
"""check.py <ID> quick|thorough [--replay FILE]

One run = (1) build the Coq development and re-check the property file (theorems, Print
Assumptions, hygiene grep), (2) regenerate and re-check the translated parts of the model,
(3) rebuild the harness from /repo's working tree, (4) run model and implementation on the
same generated cases and compare, (5) on any broken obligation or correspondence search for a
concrete failing input, (6) write evidence/<ID>.json.  See DESIGN.md section 2.6."""
import hashlib, json, os, re, subprocess, sys, time, shutil

ROOT = os.path.dirname(os.path.dirname(os.path.abspath(__file__)))
sys.path.insert(0, os.path.join(ROOT, "tools"))
import gen, oracle  # noqa: E402

REPO = os.environ.get("VERIF_REPO", "/repo")
COQ = os.path.join(ROOT, "coq")
WORK = os.path.join(ROOT, "work")
NPROC = int(os.environ.get("VERIF_JOBS", "16"))
GUARD = "adf_obdd_verif"

ALLOWED_AXIOMS = set()  # names that may appear under Print Assumptions (none expected)
FORBIDDEN = re.compile(r"\b(Admitted|admit|Axioms?|Parameters?|Conjectures?)\b|Unset Guard|Unset Positivity|Unset Universe|bypass_check|type-in-type|Admit Obligations|impredicative-set")


def sh(cmd, cwd=None, timeout=3600, env=None, inp=None):
    e = dict(os.environ)
    e.update({"CARGO_NET_OFFLINE": "true"})
    if env:
        e.update(env)
    p = subprocess.run(cmd, shell=isinstance(cmd, str), cwd=cwd, env=e, timeout=timeout,
                       stdout=subprocess.PIPE, stderr=subprocess.STDOUT, input=inp, text=True)
    out = "\n".join(l for l in p.stdout.splitlines() if "conda.cli.condarc" not in l)
    return p.returncode, out


class Result:
    def __init__(self, pid, tier, seed):
        self.pid, self.tier, self.seed = pid, tier, seed
        self.t0 = time.time()
        self.broken = []        # (kind, name, detail) obligations / correspondences that no longer check
        self.violations = []    # dicts: key, what, replay payload
        self.cov = {"evaluations": 0, "distinct_nontrivial": 0, "rule": "", "samples": [],
                    "obligations": 0, "discharged": 0, "checker_cmd": "", "trusted_base": []}
        self.extra = {}
        self.assumptions = []


# ---------------------------------------------------------------- Coq side
def translate(res):
    """tie T-A: regenerate coq/Gen/Gen*.v from /repo's current source"""
    rc, out = sh("python3 tools/translate.py", cwd=ROOT, timeout=120, env={"VERIF_REPO": REPO})
    if rc != 0:
        res.broken.append(("tie", "translator (tools/translate.py)", out[-2000:]))
        return False
    return True


def coq_make(target, timeout=3000):
    return sh("timeout %d make -j%d %s" % (timeout, NPROC, target), cwd=COQ, timeout=timeout + 100)


def coq_build(res, pid=None, ties=()):
    """full .vo build (never -vos) of what this property depends on, through coq_makefile:
    the model + extraction, the tie lemmas about the regenerated definitions, the property file.
    Building per target keeps a broken obligation of one property from raising alarms for others."""
    translate(res)
    os.makedirs(os.path.join(COQ, "extracted"), exist_ok=True)
    mk = os.path.join(COQ, "Makefile")
    if not os.path.exists(mk) or os.path.getmtime(os.path.join(COQ, "_CoqProject")) > os.path.getmtime(mk):
        rc, out = sh("coq_makefile -f _CoqProject -o Makefile", cwd=COQ, timeout=120)
        if rc != 0:
            res.broken.append(("build", "coq_makefile", out[-2000:]))
            return False
    rc, out = coq_make("Extract.vo")
    if rc != 0:
        res.broken.append(("proof", "model / extraction build (make Extract.vo)", out[-3000:]))
        return False
    ok = True
    for t in ties:
        rc, out = coq_make("Gen/%s.vo" % t, 1200)
        res.cov["obligations"] += 1
        if rc != 0:
            res.broken.append(("proof", "Gen/%s.v (lemma about the definitions regenerated from the source)" % t, out[-1500:]))
            ok = False
        else:
            res.cov["discharged"] += 1
            res.extra.setdefault("tie_lemmas", []).append(t)
    if pid:
        rc, out = coq_make("Properties/%s.vo" % pid)
        if rc != 0 and not any("Properties/%s.v" % pid in n for _, n, _ in res.broken):
            pass  # reported by coq_property_file
    return ok


def coq_hygiene(res):
    """no Admitted/admit/Axiom/Parameter/Conjecture/guard switches anywhere; Variable/Hypothesis/Context
    only inside a Section"""
    bad = []
    for dp, dn, fn in os.walk(COQ):
        for f in fn:
            if not f.endswith(".v"):
                continue
            p = os.path.join(dp, f)
            src = re.sub(r"\(\*.*?\*\)", " ", open(p).read(), flags=re.S)
            for m in FORBIDDEN.finditer(src):
                bad.append("%s: %s" % (os.path.relpath(p, COQ), m.group(0)))
            sections = []
            for m in re.finditer(r"\b(Section|Module|End)\s+(\w+)\s*\.|\b(Variables?|Hypothes[ie]s|Context)\b", src):
                if m.group(1) == "Section":
                    sections.append(m.group(2))
                elif m.group(1) == "End":
                    if sections and sections[-1] == m.group(2):
                        sections.pop()
                elif m.group(3) and not sections:
                    bad.append("%s: %s outside a Section" % (os.path.relpath(p, COQ), m.group(3)))
    if bad:
        res.broken.append(("proof", "hygiene grep", "; ".join(bad[:20])))
    return not bad


def coq_property_file(res, pid, extra_files=()):
    """re-compiles Properties/<pid>.v (statements only, each closed by `exact lemma`), counts the
    theorems and reads the Print Assumptions block under each"""
    files = ["Properties/%s.v" % pid] + list(extra_files)
    nthm = 0
    closed = 0
    names = []
    for f in files:
        path = os.path.join(COQ, f)
        if not os.path.exists(path):
            res.broken.append(("proof", f, "property file missing"))
            continue
        src = open(path).read()
        thms = re.findall(r"^(?:Theorem|Lemma|Corollary)\s+(\w+)", src, flags=re.M)
        rc, out = sh("timeout 1200 coqc -q -Q . ADF %s" % f, cwd=COQ, timeout=1300)
        if rc != 0:
            res.broken.append(("proof", f, out[-3000:]))
            nthm += len(thms)
            continue
        # every theorem must be followed by a Print Assumptions whose answer is closed or allow-listed
        blocks = re.split(r"(?=Closed under the global context|Axioms:)", out)
        n_closed = out.count("Closed under the global context")
        ax = re.findall(r"^(\w[\w.']*)\s*:", out.split("Axioms:", 1)[1], flags=re.M) if "Axioms:" in out else []
        notallowed = [a for a in ax if a not in ALLOWED_AXIOMS]
        n_pa = len(re.findall(r"^Print Assumptions\s+(\w+)", src, flags=re.M))
        nthm += len(thms)
        names += thms
        if notallowed:
            res.broken.append(("proof", f, "axioms not in the allow-list: " + ", ".join(notallowed)))
        elif n_pa < len(thms):
            res.broken.append(("proof", f, "%d theorems but only %d Print Assumptions" % (len(thms), n_pa)))
        else:
            closed += len(thms)
            if res.tier == "thorough" and f.startswith("Properties/"):
                # independent re-check of the compiled file and everything it depends on
                mod = "ADF." + f[:-2].replace("/", ".")
                rc2, out2 = sh("timeout 2400 coqchk -silent -o -Q . ADF %s" % mod, cwd=COQ, timeout=2500)
                axl = ""
                m2 = re.search(r"\* Axioms:\s*(.*?)(?:\n\s*\*|\Z)", out2, flags=re.S)
                if m2:
                    axl = " ".join(m2.group(1).split())
                res.extra["coqchk"] = {"module": mod, "exit": rc2, "axioms": axl[:300]}
                if rc2 != 0:
                    res.broken.append(("proof", "coqchk " + mod, out2[-2000:]))
                elif axl and "<none>" not in axl:
                    bad = [a for a in re.split(r"[\s,]+", axl) if a and a.split(".")[-1] not in ALLOWED_AXIOMS]
                    if bad:
                        res.broken.append(("proof", "coqchk " + mod, "axioms reported by coqchk: " + axl))
    res.cov["obligations"] += nthm
    res.cov["discharged"] += closed
    res.extra.setdefault("theorems", []).extend(names)
    return closed == nthm and nthm > 0


# ---------------------------------------------------------------- builds
def build_driver(res):
    ml = os.path.join(COQ, "extracted", "model.ml")
    drv = os.path.join(ROOT, "ocaml", "driver")
    src = os.path.join(ROOT, "ocaml", "driver.ml")
    if not os.path.exists(ml):
        res.broken.append(("build", "extraction", "coq/extracted/model.ml missing"))
        return False
    if (not os.path.exists(drv)) or os.path.getmtime(drv) < max(os.path.getmtime(ml), os.path.getmtime(src)):
        rc, out = sh("./build.sh", cwd=os.path.join(ROOT, "ocaml"), timeout=600)
        if rc != 0:
            res.broken.append(("build", "ocaml driver", out[-2000:]))
            return False
    return True


from srcguard import source_guard  # noqa: E402


def build_harness(res, features=None, tag="default"):
    """cargo build of /verif/harness against REPO/lib (path dependency) with the hook guard on"""
    tdir = os.path.join(ROOT, "harness", "target" if tag == "default" else "target-" + tag)
    cmd = "cargo build --offline --quiet"
    if features is not None:
        cmd += " --no-default-features --features '%s'" % ",".join(features)
    env = {"RUSTFLAGS": "--cfg %s" % GUARD, "CARGO_TARGET_DIR": tdir}
    source_guard(tdir, ["adf_bdd"], os.path.join(ROOT, "harness"), env)
    if REPO != "/repo":
        # replays against another checkout: patch the path dependency
        env["VERIF_REPO"] = REPO
    rc, out = sh(cmd, cwd=os.path.join(ROOT, "harness"), env=env, timeout=1800)
    if rc != 0:
        res.broken.append(("build", "harness (cargo build)", out[-3000:]))
        return None
    return os.path.join(tdir, "debug", "verif-harness")


# ---------------------------------------------------------------- running both sides
def run_sharded(binary, casefile_lines, tag, timeout=1200, env=None):
    """splits the case list into NPROC shards on CASE boundaries, runs [binary shard] in parallel.
    A process that dies (stack overflow, abort) loses only the case it was working on: the cases after it are
    run again in a new process, the case itself gets a PANIC line with the exit status."""
    os.makedirs(WORK, exist_ok=True)
    cases = []
    cur = []
    for l in casefile_lines:
        cur.append(l)
        if l == "END":
            cases.append(cur)
            cur = []
    k = max(1, min(NPROC, len(cases)))
    shards = [[] for _ in range(k)]
    for i, c in enumerate(cases):
        shards[i % k].append(c)
    e = dict(os.environ)
    if env:
        e.update(env)
    out = {}
    fails = []

    def launch(i, cs, rnd):
        p = os.path.join(WORK, "%s.%d.%d.%d.cases" % (tag, os.getpid(), i, rnd))
        with open(p, "w") as f:
            f.write("\n".join("\n".join(c) for c in cs) + "\n")
        return p, subprocess.Popen(["timeout", str(timeout), binary, p], stdout=subprocess.PIPE, stderr=subprocess.DEVNULL, text=True, env=e)

    pending = [(i, cs, 0) + launch(i, cs, 0) for i, cs in enumerate(shards) if cs]
    while pending:
        nxt = []
        for i, cs, rnd, path, proc in pending:
            o, _ = proc.communicate()
            try:
                os.remove(path)
            except OSError:
                pass
            answered = set()
            for line in o.splitlines():
                parts = line.split(" ", 1)
                out.setdefault(parts[0], []).append(parts[1] if len(parts) > 1 else "")
                answered.add(parts[0])
            if proc.returncode != 0:
                fails.append((i, proc.returncode))
                ids = [c[0].split()[1] for c in cs]
                # the first case without any output line is the one the process died in (output is flushed per case)
                dead = next((j for j, cid in enumerate(ids) if cid not in answered), None)
                if dead is not None and rnd < 50 and proc.returncode != 124:
                    out.setdefault(ids[dead], []).append("PANIC the process died in this case (exit status %s: stack overflow / abort)" % proc.returncode)
                    rest = cs[dead + 1:]
                    if rest:
                        nxt.append((i, rest, rnd + 1) + launch(i, rest, rnd + 1))
        pending = nxt
    return out, fails


def write_replay(res, key, payload):
    os.makedirs(os.path.join(ROOT, "replays"), exist_ok=True)
    h = hashlib.sha1(key.encode()).hexdigest()[:12]
    p = os.path.join(ROOT, "replays", "%s-%s.json" % (res.pid, h))
    payload = dict(payload)
    payload.update({"property": res.pid, "key": key, "seed": res.seed, "tier": res.tier,
                    "replay_cmd": "./check %s --replay %s" % (res.pid, p)})
    with open(p, "w") as f:
        json.dump(payload, f, indent=1)
    return p


def known_findings(pid):
    kf = {}
    p = os.path.join(ROOT, "KNOWN_FINDINGS.txt")
    if os.path.exists(p):
        for line in open(p):
            m = re.match(r"finding:\s+property=(\S+)\s+key=(\S+)\s+(.*)", line.strip())
            if m and m.group(1) == pid:
                kf[m.group(2)] = m.group(3)
    return kf


def finish(res, level, assumptions):
    """prints KNOWN-FINDING / VIOLATION lines, writes evidence, returns the exit code"""
    kf = known_findings(res.pid)
    new = []
    seen_known = {}
    for v in res.violations:
        if v["key"] in kf:
            seen_known[v["key"]] = kf[v["key"]]
        else:
            new.append(v)
    for k, d in sorted(seen_known.items()):
        print("KNOWN-FINDING: property=%s %s (%s)" % (res.pid, k, d))
    rc = 0
    reported = set()
    for v in new:
        if v["key"] in reported:
            continue
        reported.add(v["key"])
        p = write_replay(res, v["key"], v)
        print("VIOLATION property=%s replay=%s" % (res.pid, p))
        rc = 1
    if res.broken and not new:
        # an obligation or the correspondence no longer checks and no failing input was found
        key = "broken:" + ";".join("%s:%s" % (k, n) for k, n, _ in res.broken)
        p = write_replay(res, key, {"what": "proof obligation or correspondence no longer checks",
                                    "broken": [{"kind": k, "name": n, "detail": d} for k, n, d in res.broken]})
        print("VIOLATION property=%s replay=%s no-failing-input-found" % (res.pid, p))
        rc = 1
    elif res.broken:
        for k, n, d in res.broken:
            print("BROKEN %s %s" % (k, n))
    res.cov["trusted_base"] = TRUSTED_BASE
    ev = {"property_id": res.pid, "tier": res.tier, "seed": res.seed, "level": level,
          "coverage": res.cov, "assumptions": assumptions, "wall_s": round(time.time() - res.t0, 2),
          "violations": len(new) + (1 if (res.broken and not new) else 0),
          "known_findings": sorted(seen_known), "extra": res.extra}
    os.makedirs(os.path.join(ROOT, "evidence"), exist_ok=True)
    with open(os.path.join(ROOT, "evidence", "%s.json" % res.pid), "w") as f:
        json.dump(ev, f, indent=1)
    print("%s %s: obligations %d/%d, cases %d (non-trivial distinct %d), violations %d, known %d, %.1fs" % (
        res.pid, res.tier, res.cov["discharged"], res.cov["obligations"], res.cov["evaluations"],
        res.cov["distinct_nontrivial"], ev["violations"], len(seen_known), ev["wall_s"]))
    return rc


TRUSTED_BASE = [
    "Coq 8.16.1 kernel incl. vm_compute (no native_compute); coqchk in the thorough tier",
    "no axioms: every property theorem must print 'Closed under the global context'",
    "extraction (ExtrOcamlBasic only, no Extract Constant) + OCaml 4.13 + hand-written driver ocaml/driver.ml",
    "correspondence machinery: tools/gen.py, harness/src/*.rs, tools/check.py comparer",
    "the hand-written Coq model is tied to the Rust source only by the correspondence runs and the translator tools/translate.py",
]


def load_props():
    import importlib
    return importlib.import_module("props")


def main():
    args = sys.argv[1:]
    if len(args) < 2:
        print(__doc__)
        sys.exit(2)
    pid = args[0]
    replay = None
    if args[1] == "--replay":
        replay = args[2]
        tier = "quick"
    else:
        tier = args[1]
        if "--replay" in args:
            replay = args[args.index("--replay") + 1]
    tier = os.environ.get("VERIF_TIER", tier)
    seed = int(os.environ.get("VERIF_SEED", "20261001"))
    res = Result(pid, tier, seed)
    props = load_props()
    fn = getattr(props, "check_" + pid, None)
    if fn is None:
        print("no check for", pid)
        sys.exit(2)
    try:
        rc = fn(sys.modules[__name__], res, replay)
    except Exception:
        # the observations did not have the shape the comparer / judge expects (never on the unchanged tree): the
        # correspondence cannot be evaluated, which is reported like any other obligation that no longer checks
        import traceback
        tb = traceback.format_exc()
        sys.stderr.write(tb)
        p = write_replay(res, "broken:correspondence:evaluation-failed", {"what": "the observations could not be evaluated (comparer / judge failed): the property is no longer shown to hold",
                                                                         "traceback": tb.splitlines()[-12:], "collected_violations": res.violations[:5],
                                                                         "broken": [{"kind": k, "name": n, "detail": d} for k, n, d in res.broken]})
        print("VIOLATION property=%s replay=%s no-failing-input-found" % (res.pid, p))
        rc = 1
    sys.exit(rc)


if __name__ == "__main__":
    main()
