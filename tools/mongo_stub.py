#!/usr/bin/env python3
"""Minimal MongoDB stand-in speaking OP_MSG (the only opcode the Rust driver 2.x uses), with its own
BSON codec.  Implements what adf-bdd-server needs: hello/isMaster, createIndexes (unique username),
insert, find (equality filters), update ($set on dotted paths, replacement documents), delete.
Runs as a thread inside the server harness, which reads `db` directly and logs every command."""
import socket, struct, threading, copy


class ObjectId:
    def __init__(self, b): self.b = b
    def __repr__(self): return "ObjectId(%s)" % self.b.hex()
    def __eq__(self, o): return isinstance(o, ObjectId) and o.b == self.b
    def __hash__(self): return hash(self.b)


class Int64(int):
    pass


def enc_cstr(s): return s.encode() + b"\0"


def enc_val(k, v):
    if isinstance(v, bool): return b"\x08" + enc_cstr(k) + (b"\1" if v else b"\0")
    if isinstance(v, Int64): return b"\x12" + enc_cstr(k) + struct.pack("<q", v)
    if isinstance(v, int):
        if -2**31 <= v < 2**31: return b"\x10" + enc_cstr(k) + struct.pack("<i", v)
        return b"\x12" + enc_cstr(k) + struct.pack("<q", v)
    if isinstance(v, float): return b"\x01" + enc_cstr(k) + struct.pack("<d", v)
    if isinstance(v, str):
        b = v.encode(); return b"\x02" + enc_cstr(k) + struct.pack("<i", len(b) + 1) + b + b"\0"
    if isinstance(v, dict): return b"\x03" + enc_cstr(k) + enc_doc(v)
    if isinstance(v, list): return b"\x04" + enc_cstr(k) + enc_doc({str(i): x for i, x in enumerate(v)})
    if v is None: return b"\x0a" + enc_cstr(k)
    if isinstance(v, ObjectId): return b"\x07" + enc_cstr(k) + v.b
    if isinstance(v, bytes): return b"\x05" + enc_cstr(k) + struct.pack("<i", len(v)) + b"\0" + v
    raise Exception("enc " + repr(v))


def enc_doc(d):
    body = b"".join(enc_val(k, v) for k, v in d.items()) + b"\0"
    return struct.pack("<i", len(body) + 4) + body


def dec_doc(b, off=0, arr=False):
    (ln,) = struct.unpack_from("<i", b, off); end = off + ln; off += 4; d = {}
    while b[off] != 0:
        t = b[off]; off += 1; e = b.index(b"\0", off); k = b[off:e].decode(); off = e + 1
        if t == 0x01: (v,) = struct.unpack_from("<d", b, off); off += 8
        elif t == 0x02: (l,) = struct.unpack_from("<i", b, off); v = b[off + 4:off + 4 + l - 1].decode(); off += 4 + l
        elif t in (0x03, 0x04): v, off = dec_doc(b, off, t == 0x04)
        elif t == 0x05: (l,) = struct.unpack_from("<i", b, off); v = bytes(b[off + 5:off + 5 + l]); off += 5 + l
        elif t == 0x07: v = ObjectId(bytes(b[off:off + 12])); off += 12
        elif t == 0x08: v = b[off] == 1; off += 1
        elif t == 0x09: (v,) = struct.unpack_from("<q", b, off); off += 8
        elif t == 0x0a: v = None
        elif t == 0x10: (v,) = struct.unpack_from("<i", b, off); off += 4
        elif t == 0x11: (v,) = struct.unpack_from("<Q", b, off); off += 8
        elif t == 0x12: (v,) = struct.unpack_from("<q", b, off); v = Int64(v); off += 8
        else: raise Exception("dec type %x" % t)
        d[k] = v
    if arr:
        d = [d[k] for k in d]
    return d, end


class Stub:
    def __init__(self, port):
        self.port = port
        self.db = {}
        self.lock = threading.Lock()
        self.oid = 0
        self.log = []           # (command name, collection, filter / documents summary) in arrival order
        self.sock = socket.socket()
        self.sock.setsockopt(socket.SOL_SOCKET, socket.SO_REUSEADDR, 1)
        self.sock.bind(("127.0.0.1", port))
        self.sock.listen(32)
        self.alive = True
        threading.Thread(target=self.accept_loop, daemon=True).start()

    def stop(self):
        self.alive = False
        try:
            self.sock.close()
        except OSError:
            pass

    def coll(self, dbn, c):
        return self.db.setdefault((dbn, c), [])

    @staticmethod
    def match(doc, flt):
        return all(doc.get(k) == v for k, v in flt.items())

    @staticmethod
    def setpath(doc, path, v):
        ks = path.split("."); d = doc
        for k in ks[:-1]:
            d = d.setdefault(k, {})
        d[ks[-1]] = v

    def handle(self, cmd):
        name = next(iter(cmd)); dbn = cmd.get("$db")
        if name in ("hello", "isMaster", "ismaster"):
            return {"ismaster": True, "isWritablePrimary": True, "helloOk": True, "maxBsonObjectSize": 16777216,
                    "maxMessageSizeBytes": 48000000, "maxWriteBatchSize": 100000, "localTime": 0, "minWireVersion": 0,
                    "maxWireVersion": 17, "readOnly": False, "ok": 1.0}
        with self.lock:
            if name == "ping": return {"ok": 1.0}
            if name == "createIndexes":
                return {"numIndexesBefore": 1, "numIndexesAfter": 2, "createdCollectionAutomatically": True, "ok": 1.0}
            if name == "insert":
                c = self.coll(dbn, cmd["insert"])
                self.log.append(("insert", cmd["insert"], [{k: d.get(k) for k in ("username", "name")} for d in cmd["documents"]]))
                for d in cmd["documents"]:
                    if cmd["insert"] == "users" and any(x.get("username") == d.get("username") for x in c):
                        return {"n": 0, "writeErrors": [{"index": 0, "code": 11000, "errmsg": "E11000 duplicate key"}], "ok": 1.0}
                    c.append(d)
                return {"n": len(cmd["documents"]), "ok": 1.0}
            if name == "find":
                c = self.coll(dbn, cmd["find"]); flt = cmd.get("filter", {})
                self.log.append(("find", cmd["find"], dict(flt)))
                res = [copy.deepcopy(d) for d in c if self.match(d, flt)]
                if cmd.get("limit"):
                    res = res[: abs(cmd["limit"])]
                return {"cursor": {"firstBatch": res, "id": Int64(0), "ns": "%s.%s" % (dbn, cmd["find"])}, "ok": 1.0}
            if name == "update":
                c = self.coll(dbn, cmd["update"]); n = 0; nm = 0
                for u in cmd["updates"]:
                    self.log.append(("update", cmd["update"], dict(u["q"]), sorted(u["u"].get("$set", {"<replace>": 1}).keys())))
                    for i, d in enumerate(c):
                        if self.match(d, u["q"]):
                            n += 1; nm += 1
                            if any(k.startswith("$") for k in u["u"]):
                                for p, v in u["u"].get("$set", {}).items():
                                    self.setpath(d, p, v)
                            else:
                                nd = dict(u["u"]); nd["_id"] = d.get("_id"); c[i] = nd
                            if not u.get("multi"):
                                break
                return {"n": n, "nModified": nm, "ok": 1.0}
            if name == "delete":
                c = self.coll(dbn, cmd["delete"]); n = 0
                for q in cmd["deletes"]:
                    self.log.append(("delete", cmd["delete"], dict(q["q"])))
                    keep = []; k = 0
                    for d in c:
                        if self.match(d, q["q"]) and (q.get("limit", 0) == 0 or k < q["limit"]):
                            k += 1
                        else:
                            keep.append(d)
                    n += k
                    c[:] = keep
                return {"n": n, "ok": 1.0}
            if name == "endSessions": return {"ok": 1.0}
        return {"ok": 0.0, "errmsg": "no such command: " + name, "code": 59}

    def serve(self, conn):
        try:
            while True:
                hdr = b""
                while len(hdr) < 16:
                    x = conn.recv(16 - len(hdr))
                    if not x:
                        return
                    hdr += x
                ln, rid, rto, op = struct.unpack("<iiii", hdr); body = b""
                while len(body) < ln - 16:
                    body += conn.recv(ln - 16 - len(body))
                assert op == 2013, op
                flags = struct.unpack_from("<I", body, 0)[0]; off = 4; cmd = None
                while off < len(body) - (4 if flags & 1 else 0):
                    kind = body[off]; off += 1
                    if kind == 0:
                        d, off = dec_doc(body, off); cmd = d if cmd is None else {**cmd, **d}
                    else:
                        (sl,) = struct.unpack_from("<i", body, off); send = off + sl; off += 4
                        e = body.index(b"\0", off); ident = body[off:e].decode(); off = e + 1; docs = []
                        while off < send:
                            d, off = dec_doc(body, off); docs.append(d)
                        cmd[ident] = docs
                for d in cmd.get("documents", []) if isinstance(cmd.get("documents"), list) else []:
                    if "_id" not in d:
                        self.oid += 1; d["_id"] = ObjectId(self.oid.to_bytes(12, "big"))
                reply = enc_doc(self.handle(cmd)); msg = struct.pack("<I", 0) + b"\0" + reply
                conn.sendall(struct.pack("<iiii", 16 + len(msg), 1, rid, 2013) + msg)
        except Exception:
            pass

    def accept_loop(self):
        while self.alive:
            try:
                c, _ = self.sock.accept()
            except OSError:
                return
            threading.Thread(target=self.serve, args=(c,), daemon=True).start()
