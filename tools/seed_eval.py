#!/usr/bin/env python3
"""seed_eval.py <seed_out dir> <property id> [checks...]

Confirms a seeded change in a scratch worktree of /repo (suite passes with it, its demonstration
fails with it and passes without), stores it as /verif/seeded/<name>/, then applies it to /repo,
runs the given quick checks (default: the library-level ones), records which of them report a
violation, and restores /repo.  Never commits anything in /repo."""
import json, os, shutil, subprocess, sys, time

ROOT = os.path.dirname(os.path.dirname(os.path.abspath(__file__)))
LIB_CHECKS = ["C01", "C02", "C03", "C04", "C05", "C06", "C07", "C08", "C09", "C10", "C11", "C12", "C13", "C14", "C18", "C19", "C20"]


def sh(cmd, cwd=None, timeout=3600, env=None):
    e = dict(os.environ); e["CARGO_NET_OFFLINE"] = "true"
    if env:
        e.update(env)
    p = subprocess.run(cmd, shell=True, cwd=cwd, env=e, stdout=subprocess.PIPE, stderr=subprocess.STDOUT, text=True, timeout=timeout)
    return p.returncode, "\n".join(l for l in p.stdout.splitlines() if "conda.cli" not in l)


def main():
    src, pid = sys.argv[1], sys.argv[2]
    checks = sys.argv[3:] or LIB_CHECKS
    name = os.environ.get("SEED_NAME", pid + "-" + str(int(time.time()) % 100000))
    patch = os.path.join(src, "patch.diff")
    meta = json.load(open(os.path.join(src, "meta.json"))) if os.path.exists(os.path.join(src, "meta.json")) else {}
    wt = "/tmp/seedconfirm-" + name
    tgt = "/tmp/seedconfirm-target"
    report = {"property": pid, "name": name, "meta_from_author": meta}
    if os.environ.get("SEED_SKIP_CONFIRM") == "1" and isinstance(meta.get("confirmation"), dict):
        report.update(meta["confirmation"])        # re-evaluation of a stored seed: the confirmation stands
    if os.environ.get("SEED_SKIP_CONFIRM") != "1":
        sh("git -C /repo worktree remove --force %s" % wt)
        rc, out = sh("git -C /repo worktree add -q --detach %s HEAD" % wt)
        try:
            rc, out = sh("git apply %s" % patch, cwd=wt)
            report["patch_applies"] = rc == 0
            if rc != 0:
                print("patch does not apply:", out); return 2
            rc, out = sh("cargo test --workspace --offline --no-fail-fast 2>&1 | grep -E '^test result|FAILED|panicked' ", cwd=wt, env={"CARGO_TARGET_DIR": tgt})
            fails = [l for l in out.splitlines() if "FAILED" in l or ("test result" in l and " 0 failed" not in l)]
            report["suite_with_change"] = "passes" if not fails else "FAILS: " + "; ".join(fails[:3])
            demo = os.path.join(src, "demo_test.rs")
            if os.path.exists(demo):
                shutil.copy(demo, os.path.join(wt, "lib", "tests", "seed_demo.rs"))
                rc1, o1 = sh("cargo test -p adf_bdd --offline --test seed_demo 2>&1 | tail -5", cwd=wt, env={"CARGO_TARGET_DIR": tgt})
                with_change_fails = "test result: ok" not in o1
                sh("git apply -R %s" % patch, cwd=wt)
                rc2, o2 = sh("cargo test -p adf_bdd --offline --test seed_demo 2>&1 | tail -5", cwd=wt, env={"CARGO_TARGET_DIR": tgt})
                without_passes = "test result: ok" in o2
                report["demo"] = {"fails_with_change": with_change_fails, "passes_without": without_passes}
            elif os.path.exists(os.path.join(src, "demo.sh")):
                report["demo"] = {"note": "shell demonstration (demo.sh); confirmed through the registered check that drives the real binary"}
            elif os.path.exists(os.path.join(src, "demo.md")):
                report["demo"] = {"note": "request sequence (demo.md), no database in the author's sandbox; confirmed through the registered check that drives the real server against the database stand-in"}
        finally:
            sh("git -C /repo worktree remove --force %s" % wt)
    # run the checks against /repo with the change applied
    rc, out = sh("git -C /repo status --porcelain")
    if out.strip():
        print("/repo is not clean:", out); return 2
    rc, out = sh("git -C /repo apply %s" % patch)
    if rc != 0:
        print("patch does not apply to /repo:", out); return 2
    results = {}
    # the evidence files describe runs on the unchanged tree: keep them out of the way
    ev_keep = os.path.join(ROOT, "work", "evidence.keep.%d" % os.getpid())
    shutil.copytree(os.path.join(ROOT, "evidence"), ev_keep)
    try:
        for c in checks:
            t0 = time.time()
            rc, out = sh("./check %s quick" % c, cwd=ROOT, timeout=2400)
            viol = [l for l in out.splitlines() if l.startswith("VIOLATION")]
            keys = []
            for v in viol[:3]:
                pth = v.split("replay=")[1].split()[0]
                try:
                    r = json.load(open(pth)); keys.append(r.get("key", "")[:80] + " | " + str(r.get("what", ""))[:160])
                except Exception:
                    pass
            results[c] = {"exit": rc, "violations": len(viol), "no_failing_input": any("no-failing-input-found" in v for v in viol), "first": keys[:2], "secs": round(time.time() - t0, 1)}
            print(c, results[c]["exit"], len(viol), keys[:1], flush=True)
    finally:
        sh("git -C /repo checkout -- .")
        sh("git -C /repo clean -fdq lib bin server")
        shutil.rmtree(os.path.join(ROOT, "evidence"), ignore_errors=True)
        shutil.move(ev_keep, os.path.join(ROOT, "evidence"))
    report["checks_with_change"] = results
    report["caught_by"] = [c for c, r in results.items() if r["exit"] != 0]
    dst = os.path.join(ROOT, "seeded", name)
    os.makedirs(dst, exist_ok=True)
    same = os.path.abspath(src) == os.path.abspath(dst)
    if not same:
        shutil.copy(patch, os.path.join(dst, "patch.diff"))
    for f in ("demo_test.rs", "demo.sh", "demo.md", "demo_input.adf"):
        if os.path.exists(os.path.join(src, f)) and not same:
            shutil.copy(os.path.join(src, f), os.path.join(dst, f))
    if same:      # re-evaluation of a stored seed: keep the author's fields
        meta = {"summary": meta.get("summary"), "needs": meta.get("needs"), "how_verified": meta.get("author_verification")}
    json.dump({"property": pid, "summary": meta.get("summary"), "needs": meta.get("needs"), "author_verification": meta.get("how_verified"),
               "confirmation": {k: report.get(k) for k in ("patch_applies", "suite_with_change", "demo")},
               "checks_run": results, "caught_by": report["caught_by"]}, open(os.path.join(dst, "meta.json"), "w"), indent=1)
    print("caught by:", report["caught_by"])
    return 0


if __name__ == "__main__":
    sys.exit(main())
